"""Shared machinery of every check: Lean build + axiom audit, driver, comparison policy, known findings,
failing-input search, shrinking, replay files, evidence.  See DESIGN.md section 2.

A property module (harness/props/cxx.py) provides

    PID, THEOREMS (fully qualified Lean names), LEAN_MODULES, TRUSTED, ASSUMPTIONS, RULE
    generate(rng, tier, n)      -> list[Case]        (corpus and exhaustive families first, then random)
    run_impl(cases)             -> list[str]         (canonical observation of the REAL code, one per case)
    nontrivial(case, spec_obs)  -> bool
    budget(tier)                -> int               (number of random cases)
    shrink(case)                -> iterable[Case]    (optional; one-step smaller cases)
    compare(impl, other)        -> bool              (optional; default string equality)

Exit codes of a check: 0 held, 1 violation (with a VIOLATION line), 2 the check itself broke or timed out.
"""
from __future__ import annotations

import fcntl
import hashlib
import json
import os
import random
import re
import subprocess
import sys
import time
import traceback
from dataclasses import dataclass, field
from pathlib import Path
from typing import Any, Dict, Iterable, List, Optional, Sequence, Tuple

VERIF = Path(__file__).resolve().parent.parent
LEAN_DIR = Path(os.environ.get("KRROOD_VERIF_LEAN_DIR", VERIF / "lean"))
REPO = Path(os.environ.get("KRROOD_VERIF_REPO", "/repo"))
EVIDENCE_DIR = Path(os.environ.get("KRROOD_VERIF_EVIDENCE_DIR", VERIF / "evidence"))  # redirected when probing seeded changes
REPLAY_DIR = VERIF / "replays"
CORPUS_DIR = VERIF / "corpus"
FINDINGS_FILE = VERIF / "known_findings.json"

ALLOWED_AXIOMS = {"propext", "Classical.choice", "Quot.sound"}
FORBIDDEN = re.compile(
    r"\bsorry\b|\badmit\b|^\s*axiom\s|native_decide|bv_decide|implemented_by|\bunsafe\s|maxHeartbeats\s+0\b"
)


def use_repo_sources() -> None:
    """Import krrood from the CURRENT working tree of /repo (never from a snapshot or a wheel)."""
    src = str(REPO / "src")
    if src not in sys.path:
        sys.path.insert(0, src)
    os.environ.setdefault("KRROOD_VERIF", "1")
    import warnings

    warnings.filterwarnings("ignore", category=SyntaxWarning)


@dataclass
class Case:
    line: str  # S-expression understood by Drive/Cxx.lean (without the property prefix)
    tags: Tuple[str, ...] = ()  # for the distribution printed into the evidence
    origin: str = "random"  # corpus | exhaustive | random | finding | search | shrink | replay
    payload: Any = None  # python-side structured form (never sent to Lean)

    def key(self) -> str:
        return hashlib.sha1(self.line.encode()).hexdigest()


# ------------------------------------------------------------------------------------------------ Lean side


class CheckBroken(Exception):
    pass


def _run(cmd: Sequence[str], cwd: Path, timeout: int, stdin: Optional[str] = None) -> subprocess.CompletedProcess:
    return subprocess.run(cmd, cwd=str(cwd), input=stdin, capture_output=True, text=True, timeout=timeout)


def lean_build(timeout: int = 1500) -> Tuple[bool, str]:
    """`lake build` (library with all proofs + native driver). Serialised by a lock: checks may run in parallel."""
    LEAN_DIR.mkdir(exist_ok=True)
    lock = open(LEAN_DIR / ".build.lock", "w")
    fcntl.flock(lock, fcntl.LOCK_EX)
    try:
        p = _run(["lake", "build"], LEAN_DIR, timeout)
        out = (p.stdout or "") + (p.stderr or "")
        return p.returncode == 0, out
    finally:
        fcntl.flock(lock, fcntl.LOCK_UN)
        lock.close()


def strip_comments(text: str) -> str:
    """Remove Lean block comments (nesting) and line comments; keeps line structure."""
    out = []
    i, depth, n = 0, 0, len(text)
    while i < n:
        if text.startswith("/-", i):
            depth += 1
            i += 2
            continue
        if depth and text.startswith("-/", i):
            depth -= 1
            i += 2
            continue
        if depth:
            if text[i] == "\n":
                out.append("\n")
            i += 1
            continue
        if text.startswith("--", i):
            while i < n and text[i] != "\n":
                i += 1
            continue
        out.append(text[i])
        i += 1
    return "".join(out)


def grep_forbidden() -> List[str]:
    hits = []
    for f in sorted(LEAN_DIR.rglob("*.lean")):
        if ".lake" in f.parts:
            continue
        body = strip_comments(f.read_text())
        # string literals may legitimately mention words; drop them
        body = re.sub(r'"(?:\\.|[^"\\])*"', '""', body)
        for ln, line in enumerate(body.splitlines(), 1):
            if FORBIDDEN.search(line):
                hits.append(f"{f.relative_to(LEAN_DIR)}:{ln}: {line.strip()[:120]}")
    return hits


def lean_audit(pid: str, theorems: Sequence[str], modules: Sequence[str], timeout: int = 900) -> Dict[str, Any]:
    """Compile a generated file that prints the axioms of every property theorem; parse the kernel's answer."""
    tmp = LEAN_DIR / ".lake" / "audit"
    tmp.mkdir(parents=True, exist_ok=True)
    f = tmp / f"Audit_{pid}_{os.getpid()}.lean"
    body = "".join(f"import {m}\n" for m in modules) + "".join(f"#print axioms {t}\n" for t in theorems)
    f.write_text(body)
    try:
        p = _run(["lake", "env", "lean", str(f)], LEAN_DIR, timeout)
    finally:
        try:
            f.unlink()
        except OSError:
            pass
    out = (p.stdout or "") + (p.stderr or "")
    res: Dict[str, Any] = {"theorems": {}, "raw_ok": p.returncode == 0}
    text = " ".join(out.split())
    for t in theorems:
        m = re.search(r"'" + re.escape(t) + r"' depends on axioms: \[([^\]]*)\]", text)
        if m:
            ax = [a.strip() for a in m.group(1).split(",") if a.strip()]
            res["theorems"][t] = {"axioms": ax, "ok": set(ax) <= ALLOWED_AXIOMS}
        elif re.search(r"'" + re.escape(t) + r"' does not depend on any axioms", text):
            res["theorems"][t] = {"axioms": [], "ok": True}
        else:
            res["theorems"][t] = {"axioms": None, "ok": False}
    res["output_tail"] = out[-2000:]
    return res


class Driver:
    """The native Lean driver (`lake build` target `driver`), one batch per call."""

    def __init__(self, pid: str):
        self.pid = pid
        self.exe = LEAN_DIR / ".lake" / "build" / "bin" / "driver"

    def run(self, lines: Sequence[str], timeout: int = 1200) -> List[Dict[str, str]]:
        if not lines:
            return []
        for l in lines:
            if "\n" in l:
                raise CheckBroken("newline inside a case line")
        data = "".join(f"{self.pid} {l}\n" for l in lines)
        p = subprocess.run([str(self.exe)], input=data, capture_output=True, text=True, timeout=timeout)
        if p.returncode != 0:
            raise CheckBroken(f"driver exited {p.returncode}: {p.stderr[-500:]}")
        outs = p.stdout.split("\n")
        if outs and outs[-1] == "":
            outs.pop()
        if len(outs) != len(lines):
            raise CheckBroken(f"driver printed {len(outs)} lines for {len(lines)} cases")
        res = []
        for o in outs:
            d: Dict[str, str] = {}
            for part in o.split("\t"):
                if "=" in part:
                    k, v = part.split("=", 1)
                    d[k] = v
            res.append(d)
        return res


# ------------------------------------------------------------------------------------------------ findings


def load_findings(pid: str) -> Tuple[List[Dict[str, Any]], List[str]]:
    if not FINDINGS_FILE.exists():
        return [], []
    data = json.loads(FINDINGS_FILE.read_text())
    return [f for f in data.get("open", []) if f.get("property") == pid], [
        s for s in data.get("fixed", []) if f"property={pid} " in s
    ]


def load_corpus(pid: str) -> List[Case]:
    d = CORPUS_DIR / pid
    cases = []
    if d.is_dir():
        for f in sorted(d.glob("*.case")):
            for line in f.read_text().splitlines():
                line = line.strip()
                if line and not line.startswith("#"):
                    cases.append(Case(line=line, tags=("corpus",), origin="corpus"))
    return cases


# ------------------------------------------------------------------------------------------------ engine


@dataclass
class Verdict:
    case: Case
    impl: str
    model: str
    spec: str
    trig: List[str]
    kind: str  # ok | known | fail | corr


def judge(mod, case: Case, impl: str, d: Dict[str, str], open_ids: set) -> Verdict:
    if "error" in d and "spec" not in d:
        raise CheckBroken(f"driver rejected case ({d['error']}): {case.line[:300]}")
    model, spec = d.get("model", ""), d.get("spec", "")
    trig = [t for t in d.get("trig", "").split(",") if t]
    eq0 = getattr(mod, "compare", lambda a, b: a == b)
    # `model=*`: the model does not predict this case (only used for findings attributed by trigger alone)
    eq = lambda a, b: b == "*" or eq0(a, b)
    alts = [v for k, v in d.items() if k.startswith("model")]
    if eq0(impl, spec):
        if any(eq(impl, m) for m in alts) or trig:
            return Verdict(case, impl, model, spec, trig, "ok")
        return Verdict(case, impl, model, spec, trig, "corr")
    if trig and all(t in open_ids for t in trig) and any(eq(impl, m) for m in alts):
        return Verdict(case, impl, model, spec, trig, "known")
    return Verdict(case, impl, model, spec, trig, "fail")


def evaluate(mod, cases: List[Case], open_ids: set) -> List[Verdict]:
    if not cases:
        return []
    impl = mod.run_impl(cases)
    if len(impl) != len(cases):
        raise CheckBroken("run_impl returned a different number of observations")
    outs = Driver(mod.PID).run([c.line for c in cases])
    return [judge(mod, c, i, d, open_ids) for c, i, d in zip(cases, impl, outs)]


def shrink_failure(mod, v: Verdict, open_ids: set, kind: str, max_steps: int = 200) -> Verdict:
    shr = getattr(mod, "shrink", None)
    if shr is None:
        return v
    cur = v
    steps = 0
    improved = True
    while improved and steps < max_steps:
        improved = False
        try:
            cands = list(shr(cur.case))
        except Exception:
            break
        for cand in cands:
            steps += 1
            if steps >= max_steps:
                break
            try:
                r = evaluate(mod, [cand], open_ids)[0]
            except Exception:
                continue
            if r.kind == kind:
                cur = r
                improved = True
                break
    return cur


def write_replay(pid: str, v: Verdict, what: str, seed: int, extra: Optional[Dict[str, Any]] = None) -> Path:
    REPLAY_DIR.mkdir(exist_ok=True)
    path = REPLAY_DIR / f"{pid}_{v.case.key()[:12]}.json"
    doc = {
        "property": pid,
        "what": what,
        "case": v.case.line,
        "origin": v.case.origin,
        "impl": v.impl,
        "model": v.model,
        "spec": v.spec,
        "trig": v.trig,
        "seed": seed,
        "replay_cmd": f"/venv/bin/python harness/check.py {pid} --replay replays/{path.name}",
    }
    if extra:
        doc.update(extra)
    path.write_text(json.dumps(doc, indent=1))
    try:
        return path.relative_to(VERIF)
    except ValueError:
        return path


def run_check(mod, tier: str, replay: Optional[str] = None, n_override: Optional[int] = None) -> int:
    t0 = time.time()
    pid = mod.PID
    seed = int(os.environ.get("VERIF_SEED", "0") or 0)
    rng = random.Random(f"{pid}:{seed}")
    violations: List[str] = []
    notes: List[str] = []
    use_repo_sources()

    # 1. proofs ---------------------------------------------------------------------------------------
    ok, out = lean_build()
    forbidden = grep_forbidden()
    audit = {"theorems": {}, "raw_ok": False, "output_tail": ""}
    if ok:
        audit = lean_audit(pid, mod.THEOREMS, mod.LEAN_MODULES)
    obligations = len(mod.THEOREMS)
    discharged = sum(1 for t in mod.THEOREMS if audit["theorems"].get(t, {}).get("ok")) if ok and not forbidden else 0
    if not ok:
        # a proof or the model no longer compiles: this is a defect of /verif itself, never of /repo
        print(out[-3000:])
        print(f"CHECK-BROKEN property={pid}: lake build failed")
        return 2
    if forbidden:
        print("\n".join(forbidden))
        print(f"CHECK-BROKEN property={pid}: forbidden construct in Lean sources")
        return 2
    if discharged != obligations:
        bad = [t for t in mod.THEOREMS if not audit["theorems"].get(t, {}).get("ok")]
        print(audit["output_tail"])
        print(f"CHECK-BROKEN property={pid}: theorems missing or with unexpected axioms: {bad}")
        return 2

    # thorough tier: independent re-check of the compiled proofs by leanchecker
    leanchecker = None
    if tier == "thorough" and not replay:
        try:
            p = _run(["lake", "env", "leanchecker"] + list(mod.LEAN_MODULES), LEAN_DIR, 1500)
            leanchecker = {"ok": p.returncode == 0, "tail": ((p.stdout or "") + (p.stderr or ""))[-500:]}
            if p.returncode != 0:
                print(leanchecker["tail"])
                print(f"CHECK-BROKEN property={pid}: leanchecker rejected the compiled proofs")
                return 2
        except FileNotFoundError:
            leanchecker = {"ok": None, "tail": "leanchecker not available"}

    # proof obligations regenerated from /repo's current source by a translator (optional, per property)
    broken_obligations: List[Dict[str, str]] = []
    translated: List[Dict[str, Any]] = []
    if hasattr(mod, "extra_obligations") and not replay:
        for ob in mod.extra_obligations():
            obligations += 1
            translated.append({"name": ob["name"], "ok": ob["ok"], "axioms": ob.get("axioms")})
            if ob["ok"]:
                discharged += 1
            else:
                broken_obligations.append(ob)

    open_findings, fixed = load_findings(pid)
    open_ids = {f["id"] for f in open_findings}

    # replay mode -------------------------------------------------------------------------------------
    if replay:
        doc = json.loads(Path(replay).read_text())
        case = Case(line=doc["case"], origin="replay")
        if hasattr(mod, "revive"):
            case = mod.revive(case)
        v = evaluate(mod, [case], open_ids)[0]
        print(f"case : {v.case.line}\nimpl : {v.impl}\nmodel: {v.model}\nspec : {v.spec}\ntrig : {v.trig}\nkind : {v.kind}")
        if v.kind in ("fail", "corr"):
            print(f"VIOLATION property={pid} replay={replay}" + (" no-failing-input-found" if v.kind == "corr" else ""))
            return 1
        return 0

    # 2. cases ----------------------------------------------------------------------------------------
    n = n_override if n_override is not None else mod.budget(tier)
    corpus = load_corpus(pid)
    if hasattr(mod, "revive"):
        corpus = [mod.revive(c) for c in corpus]
    cases = corpus + list(mod.generate(rng, tier, n))
    verdicts = evaluate(mod, cases, open_ids)

    # 3. known findings: replay each stored witness on the real code -------------------------------------
    known_seen: Dict[str, int] = {}
    for f in open_findings:
        wc = Case(line=f["witness"], origin="finding", tags=("finding",))
        if hasattr(mod, "revive"):
            wc = mod.revive(wc)
        wv = evaluate(mod, [wc], open_ids)[0]
        if wv.kind == "known":
            print(f"KNOWN-FINDING: property={pid} {f['id']} {f['what']}")
            known_seen[f["id"]] = known_seen.get(f["id"], 0) + 1
        elif wv.kind == "ok":
            notes.append(f"finding {f['id']} no longer reproduces on its witness (repaired?)")
        elif wv.kind == "fail":
            # the witness fails, but not the way the recorded finding fails: a different violation
            verdicts.append(wv)
        else:
            verdicts.append(wv)

    fails = [v for v in verdicts if v.kind == "fail"]
    corrs = [v for v in verdicts if v.kind == "corr"]
    for v in verdicts:
        if v.kind == "known":
            for t in v.trig:
                known_seen[t] = known_seen.get(t, 0) + 1

    searched = 0
    if broken_obligations and not fails and not corrs:
        # a regenerated proof obligation no longer checks: look harder for a concrete failing input
        factor = 4 if tier == "quick" else 20
        srng = random.Random(f"{pid}:{seed}:search-obligation")
        extra = list(mod.generate(srng, tier, n * factor))
        for c in extra:
            c.origin = "search"
        sv = evaluate(mod, extra, open_ids)
        searched = len(sv)
        fails = [v for v in sv if v.kind == "fail"]
        corrs = [v for v in sv if v.kind == "corr"]
        verdicts.extend(sv)
    # 4. correspondence broken and no failing input yet: search ------------------------------------------
    if corrs and not fails:
        factor = 4 if tier == "quick" else 20
        srng = random.Random(f"{pid}:{seed}:search")
        extra: List[Case] = []
        shr = getattr(mod, "shrink", None)
        if shr is not None:
            for v in corrs[:5]:
                try:
                    extra.extend(list(shr(v.case))[:50])
                except Exception:
                    pass
        extra.extend(mod.generate(srng, tier, n * factor))
        for c in extra:
            c.origin = "search"
        sv = evaluate(mod, extra, open_ids)
        searched = len(sv)
        fails = [v for v in sv if v.kind == "fail"]
        verdicts.extend(sv)

    if fails:
        v = shrink_failure(mod, fails[0], open_ids, "fail")
        path = write_replay(pid, v, "concrete failing input: implementation differs from the specification", seed,
                            {"failing_cases_seen": len(fails)})
        print(f"impl : {v.impl}\nspec : {v.spec}\nmodel: {v.model}\ncase : {v.case.line[:2000]}")
        line = f"VIOLATION property={pid} replay={path}"
        print(line)
        violations.append(line)
    elif corrs:
        v = shrink_failure(mod, corrs[0], open_ids, "corr")
        path = write_replay(
            pid, v,
            "correspondence broken: the implementation agrees with the specification on every explored case but no "
            "longer behaves like the Lean model the theorems are about; theorems no longer tied to the code: "
            + ", ".join(mod.THEOREMS),
            seed, {"correspondence_cases": len(corrs), "searched_cases": searched,
                   "model_function": getattr(mod, "MODEL_FUNCTION", "")})
        print(f"impl : {v.impl}\nspec : {v.spec}\nmodel: {v.model}\ncase : {v.case.line[:2000]}")
        line = f"VIOLATION property={pid} replay={path} no-failing-input-found"
        print(line)
        violations.append(line)
    elif broken_obligations:
        REPLAY_DIR.mkdir(exist_ok=True)
        path = REPLAY_DIR / f"{pid}_obligation.json"
        path.write_text(json.dumps({
            "property": pid,
            "what": "proof obligation regenerated from the current source no longer checks; no concrete failing input "
                    "was found on the explored cases",
            "obligations": [{"name": o["name"], "detail": o.get("detail", "")[-3000:]} for o in broken_obligations],
            "searched_cases": searched, "seed": seed}, indent=1))
        for o in broken_obligations:
            print(f"obligation {o['name']} failed:\n{o.get('detail', '')[-1500:]}")
        line = f"VIOLATION property={pid} replay=replays/{path.name} no-failing-input-found"
        print(line)
        violations.append(line)

    # 5. evidence -------------------------------------------------------------------------------------
    distinct = {}
    tagc: Dict[str, int] = {}
    for v in verdicts:
        for t in v.case.tags:
            tagc[t] = tagc.get(t, 0) + 1
        try:
            if mod.nontrivial(v.case, v.spec):
                distinct[v.case.key()] = 1
        except Exception:
            pass
    samples = [{"case": v.case.line[:600], "impl": v.impl[:300], "spec": v.spec[:300], "verdict": v.kind}
               for v in verdicts[:: max(1, len(verdicts) // 6)][:8]]
    ev = {
        "property_id": pid,
        "tier": tier,
        "seed": seed,
        "level": "proof",
        "coverage": {
            "obligations": obligations,
            "discharged": discharged,
            "checker_cmd": "cd lean && lake build && lake env lean <generated Audit file: #print axioms of every theorem>",
            "trusted_base": list(mod.TRUSTED),
            "theorems": {t: audit["theorems"][t]["axioms"] for t in mod.THEOREMS},
            "translated_obligations": translated,
            "leanchecker": leanchecker,
            "evaluations": len(verdicts),
            "distinct_nontrivial": len(distinct),
            "rule": mod.RULE,
            "samples": samples,
            "traces_validated_against_impl": len(verdicts),
            "case_distribution": dict(sorted(tagc.items())),
            "verdicts": {k: sum(1 for v in verdicts if v.kind == k) for k in ("ok", "known", "fail", "corr")},
            "known_findings_seen": known_seen,
            "fixed_findings": fixed,
            "search_cases": searched,
            "exhaustive": bool(getattr(mod, "EXHAUSTIVE", False)),
            "notes": notes,
        },
        "assumptions": list(mod.ASSUMPTIONS),
        "wall_s": round(time.time() - t0, 2),
        "violations": len(violations),
    }
    extra_cov = getattr(mod, "extra_coverage", None)
    if extra_cov:
        try:
            ev["coverage"].update(extra_cov())
        except Exception:
            pass
    EVIDENCE_DIR.mkdir(exist_ok=True)
    (EVIDENCE_DIR / f"{pid}.json").write_text(json.dumps(ev, indent=1, default=str))
    print(f"{pid} {tier}: {len(verdicts)} cases ({len(distinct)} distinct non-trivial), "
          f"{obligations}/{discharged} theorems audited, known={sum(known_seen.values())}, "
          f"violations={len(violations)}, {ev['wall_s']}s")
    return 1 if violations else 0


def main_for(mod) -> None:
    import argparse

    ap = argparse.ArgumentParser()
    ap.add_argument("--tier", default=os.environ.get("VERIF_TIER", "quick"), choices=["quick", "thorough"])
    ap.add_argument("--replay")
    ap.add_argument("--cases", type=int)
    a = ap.parse_args(sys.argv[2:])
    try:
        rc = run_check(mod, a.tier, a.replay, a.cases)
    except CheckBroken as e:
        print(f"CHECK-BROKEN property={mod.PID}: {e}")
        rc = 2
    except subprocess.TimeoutExpired as e:
        print(f"CHECK-BROKEN property={mod.PID}: timeout {e}")
        rc = 2
    except Exception:
        traceback.print_exc()
        print(f"CHECK-BROKEN property={mod.PID}: unexpected error in the harness")
        rc = 2
    sys.exit(rc)
