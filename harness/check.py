#!/venv/bin/python
"""check.py Cxx [--tier quick|thorough] [--replay FILE] [--cases N] — the quick_cmd / thorough_cmd of every property."""
import importlib
import os
import sys

HERE = os.path.dirname(os.path.abspath(__file__))
sys.path.insert(0, HERE)

import core  # noqa: E402


def main() -> None:
    if len(sys.argv) < 2:
        print("usage: check.py Cxx [--tier quick|thorough] [--replay FILE]")
        sys.exit(2)
    pid = sys.argv[1].upper()
    try:
        mod = importlib.import_module(f"props.{pid.lower()}")
    except ModuleNotFoundError as e:
        print(f"CHECK-BROKEN property={pid}: no check module ({e})")
        sys.exit(2)
    core.main_for(mod)


if __name__ == "__main__":
    main()
