"""Translator (Python AST -> Lean 4) for the field-classification logic of C17: the `WrappedField` accessors of
`src/krrood/class_diagrams/wrapped_field.py` — the second tie of C17 between the model and the code.

On every run the CURRENT source is parsed and each accessor in `ACCESSORS` (and every accessor it reads through
`self.<name>`) becomes a Lean function `Val → M Val` of the resolved annotation, written only in the primitive
operations of `lean/KrroodVerif/Model/ClassDiagramPy.lean` (`Py.getOrigin`, `Py.getArgs`, `Py.inList`, `Py.is_`,
`Py.len`, `Py.index`, `Py.nextWhere`, `Py.issubclassEnum`, `Py.hasIter`, `Py.tryCatchN`, …), whose Lean semantics is
fixed once, there. The generated file then states and proves, for EVERY annotation term `t`,

    C17_<accessor>_translated_eq_model : Translated.<accessor> (Py.rt t) = <the model's accessor, as a Python value>

against the hand-written model `CD.isOptional / isContainer / containedType / typeEndpoint / isBuiltinType / isEnum /
isOneToOne / isOneToMany / isTypeType / containerType / isIterable` under `Quirks.current` (the code as it is, open
finding F-C17-2 included), and from those `C17_translated_classify` (the classification property for the translated
functions) and `C17_translated_consistent` (accessor consistency). The proofs are case analyses over the finite
outer structure of `Ann` closed by evaluation (`rfl`), so they do not depend on HOW the source spells a decision, only
on WHAT it decides: every rewrite of the source inside the supported subset that does not change the result on any
annotation keeps the obligations, every rewrite that changes a result on some annotation breaks one.

STRICT. Anything not listed is a `TranslationError` (the check then reports the obligations as broken, searches a
concrete failing input through the correspondence and says `no-failing-input-found` if there is none):
  * accessors must be `@cached_property` / `@property` methods of `WrappedField` taking `self` only;
  * statements: docstring, `pass`, `return [e]`, `raise Exc[(side-effect-free args)]`, `x = e` (single Name target),
    `if/elif/else`, `try … except Cls [as n] …` (no else/finally; body and handlers must return or raise on every
    path); no loops, no `with`, no augmented or tuple assignment, no nested functions;
  * expressions: `self.resolved_type`, `self.<accessor>`, `self.container_types` (the class constant, a list display
    of named constants), local names, named constants (below), `True/False/None`, non-negative int literals,
    `not`, `and`, `or`, `a if c else b`, one-operator comparisons `is / is not / == / !=` with a named constant or
    literal on at least one side, `< <= > >=` (between ints), `in / not in` with a list/tuple display of named constants (or the class constant) on
    the right or with a named constant on the left and a runtime tuple on the right, `get_origin(e)`, `get_args(e)`,
    `len(e)`, `e[<int literal>]`, `issubclass(e, enum.Enum)`, `issubclass(e, <named constant | display or class
    constant of named constants>)`, `hasattr(e, "__iter__")`, `bool(e)`,
    `next(<genexp>[, default])`, `all(<genexp>)`, `any(<genexp>)` with one `for v in e` clause and `if` filters;
  * named constants must be bound the way the table `KNOWN` says (e.g. `Sequence` must be `collections.abc.Sequence`,
    `NoneType` must come from `types`; a builtin must not be rebound at module level); every global the accessors use
    must have exactly one module-level binding.

NORMALISING (each the identity for every input): names of locals / loop variables; import aliases
(`from typing import get_origin as go`, `import typing as t; t.Union`); `typing` vs `typing_extensions`; order of the
methods in the class and of the definitions in the output (fixed: dependency order from `ACCESSORS`); comments,
docstrings, line breaks, parentheses; decorators `property` vs `cached_property`. Everything else is normalised by the
PROOF, not by the text (see above).
"""
from __future__ import annotations

import ast
from pathlib import Path
from typing import Dict, List, Optional, Tuple


class TranslationError(Exception):
    pass


# the accessors whose translation is compared with the model, in output order
ACCESSORS = ["is_container", "container_type", "is_optional", "contained_type", "type_endpoint", "is_builtin_type",
             "is_type_type", "is_enum", "is_one_to_one_relationship", "is_one_to_many_relationship", "is_iterable"]

# what each accessor must equal: the hand-written model (Model/ClassDiagram.lean) under the quirks of the code as it is now,
# read as a Python value (Model/ClassDiagramPy.lean: ofBool / ofTri / ofContained / ofContainerType)
MODEL = {
    "is_container": "Py.ofBool (isContainer t)",
    "container_type": "Py.ofContainerType t",
    "is_optional": "Py.ofBool (isOptional .current t)",
    "contained_type": "Py.ofContained (containedType .current t)",
    "type_endpoint": "Except.ok (Val.obj (typeEndpoint .current t))",
    "is_builtin_type": "Py.ofBool (isBuiltinType .current t)",
    "is_type_type": "Py.ofBool (isTypeType t)",
    "is_enum": "Py.ofTri (isEnum .current t)",
    "is_one_to_one_relationship": "Py.ofBool (isOneToOne .current t)",
    "is_one_to_many_relationship": "Py.ofBool (isOneToMany .current t)",
    "is_iterable": "Py.ofBool (isIterable .current t)",
}

TYPING = ("typing", "typing_extensions")
# (module, name) -> Lean constant
KNOWN: Dict[Tuple[str, str], str] = {}
for _m in TYPING:
    KNOWN[(_m, "Union")] = "Py.c_Union"
    KNOWN[(_m, "Optional")] = "Py.c_Optional"
    KNOWN[(_m, "Type")] = "Py.c_Type"
KNOWN[("types", "NoneType")] = "Py.c_NoneType"
KNOWN[("types", "UnionType")] = "Py.c_UnionType"
KNOWN[("datetime", "datetime")] = "Py.c_datetime"
KNOWN[("collections.abc", "Sequence")] = "Py.c_Sequence"
KNOWN[("uuid", "UUID")] = "Py.c_UUID"
for _b in ("int", "float", "str", "bool", "list", "set", "tuple", "type"):
    KNOWN[("builtins", _b)] = "Py.c_" + _b
# functions / classes recognised in call position
FUNCS: Dict[Tuple[str, str], str] = {("builtins", f): f for f in
                                     ("len", "issubclass", "hasattr", "next", "all", "any", "bool")}
for _m in TYPING:
    FUNCS[(_m, "get_origin")] = "get_origin"
    FUNCS[(_m, "get_args")] = "get_args"
ENUM_BASE = ("enum", "Enum")
EXCS = {
    ("builtins", "ValueError"): "valueError", ("builtins", "TypeError"): "typeError",
    ("builtins", "IndexError"): "indexError", ("builtins", "StopIteration"): "stopIteration",
    ("builtins", "AttributeError"): "attributeError", ("builtins", "KeyError"): "keyError",
    ("krrood.class_diagrams.failures", "MissingContainedTypeOfContainer"): "missingContainedType",
}
EXC_CLASSES = {("builtins", "LookupError"): ".lookupError", ("builtins", "Exception"): ".all",
               ("builtins", "BaseException"): ".all"}
PROPERTY_DECORATORS = {("functools", "cached_property"), ("builtins", "property")}
PACKAGE = "krrood.class_diagrams"


# --------------------------------------------------------------------------------------------- module-level bindings

def _absolute(module: Optional[str], level: int) -> str:
    if level == 0:
        return module or ""
    parts = PACKAGE.split(".")
    base = parts[: len(parts) - (level - 1)]
    return ".".join(base + ([module] if module else []))


class Globals:
    """what every module-level name is bound to: name -> ('obj', module, name) | ('module', module) | ('local',)"""

    def __init__(self, tree: ast.Module):
        self.b: Dict[str, set] = {}
        self._scan(tree.body)

    def _bind(self, name, what):
        self.b.setdefault(name, set()).add(what)

    def _scan(self, body):
        for s in body:
            if isinstance(s, ast.Import):
                for a in s.names:
                    if a.asname:
                        self._bind(a.asname, ("module", a.name))
                    else:
                        self._bind(a.name.split(".")[0], ("module", a.name.split(".")[0]))
            elif isinstance(s, ast.ImportFrom):
                mod = _absolute(s.module, s.level)
                for a in s.names:
                    if a.name == "*":
                        raise TranslationError(f"star import from {mod}")
                    self._bind(a.asname or a.name, ("obj", mod, a.name))
            elif isinstance(s, (ast.FunctionDef, ast.AsyncFunctionDef, ast.ClassDef)):
                self._bind(s.name, ("local",))
            elif isinstance(s, (ast.Assign, ast.AnnAssign, ast.AugAssign)):
                targets = s.targets if isinstance(s, ast.Assign) else [s.target]
                for t in targets:
                    for n in ast.walk(t):
                        if isinstance(n, ast.Name):
                            self._bind(n.id, ("local",))
            elif isinstance(s, ast.If):
                self._scan(s.body)
                self._scan(s.orelse)
            elif isinstance(s, ast.Try):
                self._scan(s.body)
                for h in s.handlers:
                    self._scan(h.body)
                self._scan(s.orelse)
                self._scan(s.finalbody)
            elif isinstance(s, (ast.For, ast.While, ast.With)):
                raise TranslationError("module-level loop / with statement")
            elif isinstance(s, ast.Delete):
                raise TranslationError("module-level del")

    def resolve(self, e: ast.AST) -> Optional[Tuple[str, str]]:
        """the (module, name) a Name / dotted attribute denotes, or None"""
        if isinstance(e, ast.Name):
            bs = self.b.get(e.id)
            if bs is None:
                return ("builtins", e.id)
            if len(bs) != 1:
                raise TranslationError(f"global {e.id} has several module-level bindings")
            (w,) = bs
            if w[0] == "obj":
                return (w[1], w[2])
            return None
        if isinstance(e, ast.Attribute) and isinstance(e.value, ast.Name):
            bs = self.b.get(e.value.id)
            if bs and len(bs) == 1:
                (w,) = bs
                if w[0] == "module":
                    return (w[1], e.attr)
        return None


# --------------------------------------------------------------------------------------------- the translation

class Ctx:
    def __init__(self, tr: "Translator", fname: str):
        self.tr = tr
        self.fname = fname
        self.n = 0

    def fresh(self, p: str) -> str:
        self.n += 1
        return f"{p}{self.n}"


PURE, MON, LST = "pure", "m", "list"


class Translator:
    def __init__(self, source: str):
        self.tree = ast.parse(source)
        self.g = Globals(self.tree)
        cls = [c for c in self.tree.body if isinstance(c, ast.ClassDef) and c.name == "WrappedField"]
        if len(cls) != 1:
            raise TranslationError("class WrappedField not found (or defined twice)")
        self.cls = cls[0]
        self.methods: Dict[str, ast.FunctionDef] = {}
        self.consts: Dict[str, ast.AST] = {}
        for s in self.cls.body:
            if isinstance(s, (ast.FunctionDef, ast.AsyncFunctionDef)):
                if s.name in self.methods:
                    raise TranslationError(f"{s.name} defined twice")
                self.methods[s.name] = s
            elif isinstance(s, ast.AnnAssign) and isinstance(s.target, ast.Name):
                if s.target.id in self.consts:
                    raise TranslationError(f"{s.target.id} assigned twice")
                if s.value is not None:
                    self.consts[s.target.id] = s.value
            elif isinstance(s, ast.Assign):
                for t in s.targets:
                    if not isinstance(t, ast.Name) or t.id in self.consts:
                        raise TranslationError("unsupported class-level assignment")
                    self.consts[t.id] = s.value
        for n in set(self.methods) & set(self.consts):
            raise TranslationError(f"{n} is both a method and a class constant")
        self.done: Dict[str, str] = {}     # accessor -> Lean definition text
        self.order: List[str] = []
        self.active: List[str] = []
        self.const_defs: Dict[str, str] = {}

    # ---- accessors
    def accessor(self, name: str) -> str:
        if name in self.done:
            return name
        if name in self.active:
            raise TranslationError(f"accessors depend on each other in a cycle: {' -> '.join(self.active + [name])}")
        m = self.methods.get(name)
        if m is None or isinstance(m, ast.AsyncFunctionDef):
            raise TranslationError(f"accessor {name} not found")
        decs = [self.g.resolve(d) for d in m.decorator_list]
        if len(decs) != 1 or decs[0] not in PROPERTY_DECORATORS:
            raise TranslationError(f"{name} must be a property / cached_property")
        a = m.args
        if [x.arg for x in a.args] != ["self"] or a.vararg or a.kwarg or a.kwonlyargs or a.posonlyargs or a.defaults:
            raise TranslationError(f"{name}: signature changed")
        self.active.append(name)
        ctx = Ctx(self, name)
        body = self.stmts(ctx, list(m.body), {}, None)
        self.active.pop()
        self.done[name] = f"def {name} (rt : Val) : M Val :=\n  {body}\n"
        self.order.append(name)
        return name

    def class_const(self, name: str) -> str:
        if name not in self.const_defs:
            v = self.consts[name]
            if not isinstance(v, (ast.List, ast.Tuple)):
                raise TranslationError(f"class constant {name} is not a list display")
            self.const_defs[name] = "[" + ", ".join(self.named_const(e) for e in v.elts) + "]"
        return name

    def named_const(self, e: ast.AST) -> str:
        c = self.const_or_none(e, {})
        if c is None:
            raise TranslationError(f"not a named constant: {ast.unparse(e)}")
        return c

    def const_or_none(self, e: ast.AST, env) -> Optional[str]:
        """Lean term if `e` is a named constant or a literal, else None"""
        if isinstance(e, ast.Constant):
            if e.value is True:
                return "(Val.bool true)"
            if e.value is False:
                return "(Val.bool false)"
            if e.value is None:
                return "Val.none"
            if isinstance(e.value, int) and e.value >= 0:
                return f"(Val.int {e.value})"
            return None
        if isinstance(e, ast.Name) and e.id in env:
            return None
        if isinstance(e, (ast.Name, ast.Attribute)):
            if isinstance(e, ast.Attribute) and isinstance(e.value, ast.Name) and (e.value.id in env or e.value.id == "self"):
                return None
            r = self.g.resolve(e)
            if r in KNOWN:
                return KNOWN[r]
        return None

    # ---- statements
    def terminates(self, body) -> bool:
        for s in body:
            if isinstance(s, (ast.Return, ast.Raise)):
                return True
            if isinstance(s, ast.If) and s.orelse and self.terminates(s.body) and self.terminates(s.orelse):
                return True
            if isinstance(s, ast.Try) and self.terminates(s.body) and all(self.terminates(h.body) for h in s.handlers):
                return True
        return False

    def stmts(self, ctx: Ctx, body: List[ast.stmt], env: Dict[str, Tuple[str, str]], _unused) -> str:
        if not body:
            return "Py.pure Val.none"
        s, rest = body[0], body[1:]
        if isinstance(s, ast.Expr) and isinstance(s.value, ast.Constant) and isinstance(s.value.value, str):
            return self.stmts(ctx, rest, env, None)
        if isinstance(s, ast.Pass):
            return self.stmts(ctx, rest, env, None)
        if isinstance(s, ast.Return):
            if s.value is None:
                return "Py.pure Val.none"
            k, t = self.expr(ctx, s.value, env)
            if k == LST:
                raise TranslationError(f"{ctx.fname}: returns a list display")
            return t if k == MON else f"Py.pure {t}"
        if isinstance(s, ast.Raise):
            return self.raise_(ctx, s, env)
        if isinstance(s, ast.Assign) or (isinstance(s, ast.AnnAssign) and s.value is not None):
            targets = s.targets if isinstance(s, ast.Assign) else [s.target]
            if len(targets) != 1 or not isinstance(targets[0], ast.Name):
                raise TranslationError(f"{ctx.fname}: unsupported assignment {ast.unparse(s)}")
            name = targets[0].id
            if name == "self":
                raise TranslationError("assignment to self")
            k, t = self.expr(ctx, s.value, env)
            v = ctx.fresh("l")
            env2 = dict(env)
            env2[name] = (PURE if k == MON else k, v)
            r = self.stmts(ctx, rest, env2, None)
            if k == MON:
                return f"(Py.bind {t} fun {v} =>\n  {r})"
            ty = "List Val" if k == LST else "Val"
            return f"(let {v} : {ty} := {t};\n  {r})"
        if isinstance(s, ast.If):
            k, t = self.expr(ctx, s.test, env)
            if k == LST:
                raise TranslationError("list display as a condition")
            a = self.stmts(ctx, list(s.body) + rest, env, None)
            b = self.stmts(ctx, list(s.orelse) + rest, env, None)
            if k == PURE:
                return f"(if Py.truthy {t} then {a}\n   else {b})"
            v = ctx.fresh("t")
            return f"(Py.bind {t} fun {v} => if Py.truthy {v} then {a}\n   else {b})"
        if isinstance(s, ast.Try):
            if s.orelse or s.finalbody or not s.handlers:
                raise TranslationError(f"{ctx.fname}: try with else/finally or without handlers")
            if not self.terminates(s.body) or not all(self.terminates(h.body) for h in s.handlers):
                raise TranslationError(f"{ctx.fname}: try statement that can fall through")
            m = self.stmts(ctx, list(s.body), env, None)
            hs = []
            for h in s.handlers:
                env2 = dict(env)
                if h.name:
                    env2.pop(h.name, None)   # the exception object is not a value of the fragment: any use is rejected
                hs.append(f"({self.exc_classes(h.type)}, {self.stmts(ctx, list(h.body), env2, None)})")
            return f"Py.tryCatchN ({m}) [{', '.join(hs)}]"
        raise TranslationError(f"{ctx.fname}: unsupported statement `{ast.unparse(s).splitlines()[0]}`")

    def exc_classes(self, t: Optional[ast.AST]) -> str:
        if t is None:
            return "[ExcClass.all]"
        items = t.elts if isinstance(t, ast.Tuple) else [t]
        out = []
        for e in items:
            r = self.g.resolve(e)
            if r in EXCS:
                out.append(f"ExcClass.only .{EXCS[r]}")
            elif r in EXC_CLASSES:
                out.append("ExcClass" + EXC_CLASSES[r])
            else:
                raise TranslationError(f"unknown exception class in except: {ast.unparse(e)}")
        return "[" + ", ".join(out) + "]"

    def raise_(self, ctx, s: ast.Raise, env) -> str:
        exc = s.exc
        if exc is None:
            raise TranslationError("bare raise")
        args = []
        if isinstance(exc, ast.Call):
            args = list(exc.args) + [k.value for k in exc.keywords]
            exc = exc.func
        r = self.g.resolve(exc)
        if r not in EXCS:
            raise TranslationError(f"unknown exception {ast.unparse(s)}")
        for a in args:
            for n in ast.walk(a):
                if isinstance(n, ast.Attribute):
                    # self.<accessor> in the message: must be one that cannot raise — only container_type / name / clazz
                    root = n
                    while isinstance(root, ast.Attribute):
                        root = root.value
                    if not (isinstance(root, ast.Name) and root.id == "self"):
                        raise TranslationError(f"unsupported exception argument {ast.unparse(a)}")
                elif not isinstance(n, (ast.Constant, ast.Name, ast.Load, ast.JoinedStr, ast.FormattedValue)):
                    raise TranslationError(f"unsupported exception argument {ast.unparse(a)}")
            for n in ast.walk(a):
                if isinstance(n, ast.Attribute) and isinstance(n.value, ast.Name) and n.value.id == "self":
                    if n.attr not in ("clazz", "name", "field", "public_name", "container_type", "resolved_type"):
                        raise TranslationError(f"exception argument reads self.{n.attr}")
        return f"Except.error Exc.{EXCS[r]}"

    # ---- expressions
    def seq(self, ctx, exprs: List[ast.AST], env, build) -> Tuple[str, str]:
        """evaluate `exprs` left to right to values, then `build(list of Lean Val terms) -> (kind, term)`"""
        parts = [self.expr(ctx, e, env) for e in exprs]
        names, binds = [], []
        for k, t in parts:
            if k == LST:
                raise TranslationError("list display where a value is expected")
            if k == MON:
                v = ctx.fresh("t")
                binds.append((v, t))
                names.append(v)
            else:
                names.append(t)
        k, t = build(names)
        if not binds:
            return k, t
        inner = t if k == MON else f"Py.pure {t}"
        for v, m in reversed(binds):
            inner = f"(Py.bind {m} fun {v} => {inner})"
        return MON, inner

    def expr(self, ctx: Ctx, e: ast.AST, env) -> Tuple[str, str]:
        c = self.const_or_none(e, env)
        if c is not None:
            return PURE, c
        if isinstance(e, ast.Name):
            if e.id in env:
                return env[e.id]
            raise TranslationError(f"{ctx.fname}: unknown name {e.id}")
        if isinstance(e, ast.Attribute):
            if isinstance(e.value, ast.Name) and e.value.id in ("self", "WrappedField") and e.value.id not in env:
                if e.attr == "resolved_type" and e.value.id == "self":
                    return PURE, "rt"
                if e.attr in self.consts:
                    return LST, self.class_const(e.attr)
                if e.attr in self.methods and e.value.id == "self":
                    return MON, f"({self.accessor(e.attr)} rt)"
            raise TranslationError(f"{ctx.fname}: unsupported attribute {ast.unparse(e)}")
        if isinstance(e, (ast.List, ast.Tuple)):
            return LST, "[" + ", ".join(self.named_const(x) if self.const_or_none(x, env) is not None
                                        else self._no_list(x) for x in e.elts) + "]"
        if isinstance(e, ast.UnaryOp) and isinstance(e.op, ast.Not):
            return self.seq(ctx, [e.operand], env, lambda v: (PURE, f"(Py.not_ {v[0]})"))
        if isinstance(e, ast.BoolOp):
            return self.boolop(ctx, isinstance(e.op, ast.And), list(e.values), env)
        if isinstance(e, ast.IfExp):
            kc, c = self.expr(ctx, e.test, env)
            ka, a = self.expr(ctx, e.body, env)
            kb, b = self.expr(ctx, e.orelse, env)
            if LST in (kc, ka, kb):
                raise TranslationError("list display in a conditional expression")
            if MON in (ka, kb):
                a = a if ka == MON else f"Py.pure {a}"
                b = b if kb == MON else f"Py.pure {b}"
                kr = MON
            else:
                kr = PURE
            if kc == PURE:
                return kr, f"(if Py.truthy {c} then {a} else {b})"
            v = ctx.fresh("t")
            a = a if kr == MON else f"Py.pure {a}"
            b = b if kr == MON else f"Py.pure {b}"
            return MON, f"(Py.bind {c} fun {v} => if Py.truthy {v} then {a} else {b})"
        if isinstance(e, ast.Compare):
            return self.compare(ctx, e, env)
        if isinstance(e, ast.Subscript):
            i = e.slice
            if not (isinstance(i, ast.Constant) and isinstance(i.value, int) and not isinstance(i.value, bool) and i.value >= 0):
                raise TranslationError(f"unsupported subscript {ast.unparse(e)}")
            return self.seq(ctx, [e.value], env, lambda v: (MON, f"(Py.index {v[0]} {i.value})"))
        if isinstance(e, ast.Call):
            return self.call(ctx, e, env)
        raise TranslationError(f"{ctx.fname}: unsupported expression {ast.unparse(e)}")

    def _no_list(self, x):
        raise TranslationError(f"list display element is not a named constant: {ast.unparse(x)}")

    def boolop(self, ctx, is_and: bool, values: List[ast.AST], env) -> Tuple[str, str]:
        k, a = self.expr(ctx, values[0], env)
        if k == LST:
            raise TranslationError("list display as an operand of and/or")
        if len(values) == 1:
            return k, a
        kr, r = self.boolop(ctx, is_and, values[1:], env)
        v = ctx.fresh("t")
        mon = MON in (k, kr)
        keep = f"Py.pure {v}" if mon else v
        r = r if (kr == MON or not mon) else f"Py.pure {r}"
        body = f"if Py.truthy {v} then {r} else {keep}" if is_and else f"if Py.truthy {v} then {keep} else {r}"
        if k == MON:
            return MON, f"(Py.bind {a} fun {v} => {body})"
        return (MON if mon else PURE), f"(let {v} : Val := {a}; {body})"

    def compare(self, ctx, e: ast.Compare, env) -> Tuple[str, str]:
        if len(e.ops) != 1:
            raise TranslationError(f"chained comparison {ast.unparse(e)}")
        op, l, r = e.ops[0], e.left, e.comparators[0]
        if isinstance(op, (ast.In, ast.NotIn)):
            neg = isinstance(op, ast.NotIn)
            kr, rt_ = self.expr(ctx, r, env)
            if kr == LST:
                f = "Py.notInList" if neg else "Py.inList"
                return self.seq(ctx, [l], env, lambda v: (PURE, f"({f} {v[0]} {rt_})"))
            if self.const_or_none(l, env) is None:
                raise TranslationError(f"`in` on a runtime container needs a named constant on the left: {ast.unparse(e)}")
            f = "Py.notInVal" if neg else "Py.inVal"
            return self.seq(ctx, [l, r], env, lambda v: (MON, f"({f} {v[0]} {v[1]})"))
        if isinstance(op, (ast.Is, ast.IsNot, ast.Eq, ast.NotEq)):
            if self.const_or_none(l, env) is None and self.const_or_none(r, env) is None:
                raise TranslationError(f"comparison without a named constant or literal: {ast.unparse(e)}")
            f = "Py.isNot" if isinstance(op, (ast.IsNot, ast.NotEq)) else "Py.is_"
            return self.seq(ctx, [l, r], env, lambda v: (PURE, f"({f} {v[0]} {v[1]})"))
        ORD = {ast.Lt: "Py.lt", ast.LtE: "Py.le", ast.Gt: "Py.gt", ast.GtE: "Py.ge"}
        if type(op) in ORD:
            f = ORD[type(op)]
            return self.seq(ctx, [l, r], env, lambda v: (MON, f"({f} {v[0]} {v[1]})"))
        raise TranslationError(f"unsupported comparison {ast.unparse(e)}")

    def call(self, ctx, e: ast.Call, env) -> Tuple[str, str]:
        if isinstance(e.func, ast.Name) and e.func.id in env:
            raise TranslationError(f"call of a local: {ast.unparse(e)}")
        r = self.g.resolve(e.func)
        f = FUNCS.get(r) if r else None
        if f is None or e.keywords or any(isinstance(a, ast.Starred) for a in e.args):
            raise TranslationError(f"{ctx.fname}: unsupported call {ast.unparse(e)}")
        n = len(e.args)
        if f == "get_origin" and n == 1:
            return self.seq(ctx, e.args, env, lambda v: (PURE, f"(Py.getOrigin {v[0]})"))
        if f == "get_args" and n == 1:
            return self.seq(ctx, e.args, env, lambda v: (PURE, f"(Py.getArgs {v[0]})"))
        if f == "len" and n == 1:
            return self.seq(ctx, e.args, env, lambda v: (MON, f"(Py.len {v[0]})"))
        if f == "bool" and n == 1:
            return self.seq(ctx, e.args, env, lambda v: (PURE, f"(Val.bool (Py.truthy {v[0]}))"))
        if f == "issubclass" and n == 2:
            if self.g.resolve(e.args[1]) == ENUM_BASE:
                return self.seq(ctx, e.args[:1], env, lambda v: (MON, f"(Py.issubclassEnum {v[0]})"))
            c = self.const_or_none(e.args[1], env)
            if c is not None:
                lst = f"[{c}]"
            else:
                kl, lst = self.expr(ctx, e.args[1], env)
                if kl != LST:
                    raise TranslationError(f"issubclass against something else than enum.Enum or named classes: {ast.unparse(e)}")
            return self.seq(ctx, e.args[:1], env, lambda v: (MON, f"(Py.issubclassOf {v[0]} {lst})"))
        if f == "hasattr" and n == 2:
            a = e.args[1]
            if not (isinstance(a, ast.Constant) and a.value == "__iter__"):
                raise TranslationError(f"hasattr for another attribute than __iter__: {ast.unparse(e)}")
            return self.seq(ctx, e.args[:1], env, lambda v: (PURE, f"(Py.hasIter {v[0]})"))
        if f in ("next", "all", "any") and n >= 1 and isinstance(e.args[0], ast.GeneratorExp):
            ge = e.args[0]
            if len(ge.generators) != 1 or ge.generators[0].is_async or not isinstance(ge.generators[0].target, ast.Name):
                raise TranslationError(f"unsupported generator expression {ast.unparse(ge)}")
            gen = ge.generators[0]
            ki, it = self.expr(ctx, gen.iter, env)
            if ki == LST:
                raise TranslationError("generator over a list display")
            v = ctx.fresh("g")
            env2 = dict(env)
            env2[gen.target.id] = (PURE, v)
            if gen.ifs:
                kc, c = self.boolop(ctx, True, list(gen.ifs), env2)
            else:
                kc, c = PURE, "(Val.bool true)"
            ke, el = self.expr(ctx, ge.elt, env2)
            if LST in (kc, ke):
                raise TranslationError("list display in a generator expression")
            c = c if kc == MON else f"Py.pure {c}"
            el = el if ke == MON else f"Py.pure {el}"
            it = it if ki == MON else f"Py.pure {it}"
            if f == "next" and n == 2:
                kd, d = self.expr(ctx, e.args[1], env)
                if kd != PURE:
                    raise TranslationError("default of next() must be a simple value")
                return MON, f"(Py.bindIter ({it}) (Py.nextWhereD (fun {v} => {c}) (fun {v} => {el}) {d}))"
            if n != 1:
                raise TranslationError(f"unsupported call {ast.unparse(e)}")
            fn = {"next": "Py.nextWhere", "all": "Py.allWhere", "any": "Py.anyWhere"}[f]
            return MON, f"(Py.bindIter ({it}) ({fn} (fun {v} => {c}) (fun {v} => {el})))"
        raise TranslationError(f"{ctx.fname}: unsupported call {ast.unparse(e)}")


HEADER = """import KrroodVerif.Model.ClassDiagramPy
import KrroodVerif.Props.C17
import KrroodVerif.Lemmas.KernelRfl
set_option linter.unusedVariables false
/-! GENERATED by harness/translate/c17_translate.py from src/krrood/class_diagrams/wrapped_field.py — do not edit -/
namespace KrroodVerif.CD.Translated
open KrroodVerif.CD
open KrroodVerif.CD.Py (Val M Exc ExcClass)
"""


def translate(source: str, diagnostics: bool = False) -> str:
    tr = Translator(source)
    for a in ACCESSORS:
        tr.accessor(a)
    out = [HEADER]
    for n in sorted(tr.const_defs):
        out.append(f"/-- `WrappedField.{n}` -/\ndef {n} : List Val := {tr.const_defs[n]}\n")
    for n in tr.order:
        out.append(tr.done[n])
    eq = "".join(f"/-- the translated `{a}` is the model's, for every annotation -/\n"
                 f"theorem C17_{a}_translated_eq_model (t : Ann) :\n    {a} (Py.rt t) = {MODEL[a]} := by c17_cases t\n\n"
                 for a in ACCESSORS)
    out.append(PROOFS.replace("@@EQ_MODEL@@\n", eq))
    if diagnostics:
        out.append("/-! ### Diagnostics (not part of any proof): probe annotations on which translation and model differ -/")
        for a in ACCESSORS:
            out.append(f'#eval IO.println (Py.diffReport "{a}" (fun t => {a} (Py.rt t)) (fun t => {MODEL[a]}))')
    out.append("end KrroodVerif.CD.Translated")
    return "\n".join(out) + "\n"


def generate(repo: Path, diagnostics: bool = False) -> str:
    return translate((Path(repo) / "src/krrood/class_diagrams/wrapped_field.py").read_text(), diagnostics)


THEOREM_NAMES = [f"KrroodVerif.CD.Translated.C17_{a}_translated_eq_model" for a in ACCESSORS] + [
    "KrroodVerif.CD.Translated.C17_translated_classify",
    "KrroodVerif.CD.Translated.C17_translated_consistent",
]

PROOFS = r'''
/-! ### Proof obligations (re-checked by the kernel against the definitions above on every run)

`c17_cases t`: case analysis over the outer structure of the annotation — the accessors look at the origin and the
arguments of `t` and at what kind of object the first non-None argument is, never deeper — closed by evaluation IN THE
KERNEL (`kernel_rfl`, Lemmas/KernelRfl.lean: `Eq.refl` whose definitional-equality check is left to the kernel; a
translated accessor that differs from the model on some annotation makes the kernel reject the theorem). -/
macro "c17_ext" k:ident : tactic => `(tactic| (cases $k:ident <;> kernel_rfl))

macro "c17_inner" x:ident : tactic => `(tactic|
  (cases $x:ident with
   | builtin b => cases b <;> kernel_rfl
   | ext k i => c17_ext k
   | _ => kernel_rfl))

macro "c17_cases" t:ident : tactic => `(tactic|
  (cases $t:ident with
   | builtin b => cases b <;> kernel_rfl
   | cls i => kernel_rfl
   | enum i => kernel_rfl
   | ext k i => c17_ext k
   | fwd x => kernel_rfl
   | union x y w => cases w <;> kernel_rfl
   | optional st x => cases st <;> c17_inner x
   | container k x => cases k <;> c17_inner x
   | typeOf x => c17_inner x))

@@EQ_MODEL@@
/-- the seven classifications the property names, read off the TRANSLATED accessors (`none` if one of them raises
something the observation does not expect or returns a non-boolean) -/
def flagsT (v : Val) : Option Flags :=
  match Py.asBool (is_builtin_type v), Py.asBool (is_optional v), Py.asTri (is_enum v), Py.asBool (is_container v),
        Py.asBool (is_one_to_one_relationship v), Py.asBool (is_one_to_many_relationship v),
        Py.asBool (is_type_type v) with
  | some b, some o, some e, some c, some o1, some om, some tv => some ⟨b, o, e, c, o1, om, tv⟩
  | _, _, _, _, _, _, _ => none

/-- the endpoint read off the translated `type_endpoint` -/
def endpointT (v : Val) : Option Leaf := (Py.asArg (type_endpoint v)).map Arg.leaf

theorem asBool_ofBool (b : Bool) : Py.asBool (Py.ofBool b) = some b := rfl
theorem asTri_ofTri (x : Tri) : Py.asTri (Py.ofTri x) = some x := by cases x <;> rfl

/-- the translated accessors, read together, are the model's `flagsOf` / `typeEndpoint` of the code as it is -/
theorem flagsT_eq_model (t : Ann) : flagsT (Py.rt t) = some (flagsOf .current t) := by
  simp only [flagsT, C17_is_builtin_type_translated_eq_model, C17_is_optional_translated_eq_model,
    C17_is_enum_translated_eq_model, C17_is_container_translated_eq_model,
    C17_is_one_to_one_relationship_translated_eq_model, C17_is_one_to_many_relationship_translated_eq_model,
    C17_is_type_type_translated_eq_model, asBool_ofBool, asTri_ofTri, flagsOf]

theorem endpointT_eq_model (t : Ann) : endpointT (Py.rt t) = some (typeEndpoint .current t).leaf := by
  simp only [endpointT, C17_type_endpoint_translated_eq_model, Py.asArg, Option.map]

/-- **C17_translated_classify.** The classification property for the functions translated from the current source:
for a field annotated `a` (any term of the grammar; `resolve a` is what `get_type_hints` hands to the accessors),
`is_optional` says whether the outermost form is an optional, in any spelling and at any nesting; with at most one
wrapper (outside the trigger of the open finding F-C17-2) `type_endpoint` is the declared type seen through the
wrapper, and on plain annotations all seven classifications equal the specification table. -/
theorem C17_translated_classify (a : Ann) :
    Py.asBool (is_optional (Py.rt (resolve a))) = some (specFlags a).optional ∧
    (nested a = false → endpointT (Py.rt (resolve a)) = some (specEndpoint a)) ∧
    (plain a = true → flagsT (Py.rt (resolve a)) = some (specFlags a)) := by
  obtain ⟨ho, he, hf⟩ := C17_classify_current a
  refine ⟨?_, ?_, ?_⟩
  · rw [C17_is_optional_translated_eq_model, asBool_ofBool, ← ho]; rfl
  · intro hn; rw [endpointT_eq_model, ← he hn]; rfl
  · intro hp; rw [flagsT_eq_model, ← hf hp]; rfl

/-- non-vacuity of the hypotheses, and the quirk the translated code has (F-C17-2): `Optional[List[C1]]` ends at
`List[C1]` in the translated `type_endpoint` as well -/
example : nested (.optional .pipe (.fwd (.cls 1))) = false ∧ plain (.optional .pipe (.fwd (.cls 1))) = true ∧
    endpointT (Py.rt (resolve (.optional .typing (.container .list (.cls 1))))) = some .other ∧
    specEndpoint (.optional .typing (.container .list (.cls 1))) = .cls 1 := by decide

/-- **C17_translated_consistent.** Accessor consistency of the translated functions, for every annotation: the
boolean accessors never raise; one-to-many ⇔ container ∧ ¬ builtin endpoint; one-to-one ⇔ ¬ container ∧ ¬ builtin
endpoint; exactly one of builtin-valued / one-to-one / one-to-many holds; a container is not optional; type-valued ⇒
container; `is_enum` True ⇒ one-to-one. -/
theorem C17_translated_consistent (t : Ann) :
    ∃ c o b o1 om tv : Bool,
      is_container (Py.rt t) = .ok (.bool c) ∧ is_optional (Py.rt t) = .ok (.bool o) ∧
      is_builtin_type (Py.rt t) = .ok (.bool b) ∧ is_one_to_one_relationship (Py.rt t) = .ok (.bool o1) ∧
      is_one_to_many_relationship (Py.rt t) = .ok (.bool om) ∧ is_type_type (Py.rt t) = .ok (.bool tv) ∧
      om = (c && !b) ∧ o1 = (!c && !b) ∧ (o1 && om) = false ∧ (b && o1) = false ∧ (b && om) = false ∧
      (b || o1 || om) = true ∧ (c && o) = false ∧ (tv = true → c = true) ∧
      (is_enum (Py.rt t) = .ok (.bool true) → o1 = true ∧ b = false ∧ c = false) := by
  obtain ⟨h1, h2, h3, h4, h5, h6, h7, h8, _⟩ := C17_consistent .current t
  refine ⟨isContainer t, isOptional .current t, isBuiltinType .current t, isOneToOne .current t,
    isOneToMany .current t, isTypeType t, C17_is_container_translated_eq_model t,
    C17_is_optional_translated_eq_model t, C17_is_builtin_type_translated_eq_model t,
    C17_is_one_to_one_relationship_translated_eq_model t, C17_is_one_to_many_relationship_translated_eq_model t,
    C17_is_type_type_translated_eq_model t, h1, h2, h3, h4, h5, h6, h7, h8, ?_⟩
  intro he
  rw [C17_is_enum_translated_eq_model] at he
  have : isEnum .current t = .t := by
    cases h : isEnum .current t <;> rw [h] at he <;> first | rfl | cases he
  obtain ⟨a, b, c, _⟩ := C17_enum_one_to_one .current t this
  exact ⟨a, b, c⟩
'''


if __name__ == "__main__":
    import sys
    print(generate(Path(sys.argv[1] if len(sys.argv) > 1 and not sys.argv[1].startswith("--") else "/repo"),
                   diagnostics="--diff" in sys.argv))
