"""Translator (Python AST -> Lean 4) for the straight-line decision logic of C09:
the four `assert_satisfaction` methods and the two `__post_init__` validations of
`result_quantification_constraint.py`.

The generated Lean file contains (1) the translated definitions and (2) the proof obligation
`C09_assert_translated_eq_model`: the translated functions equal the hand-written model (`Quant.assertSat`,
`Quant.mkSingle`, `Quant.mkRange`) for ALL arguments. It is regenerated from /repo's current source and re-checked
by the Lean kernel on every run: a change to the comparisons, to the order of checks or to the raised exception
makes the obligation fail (or the translator reject the source) instead of merely shifting a sampled behaviour.

Supported subset (anything else -> TranslationError): `if/elif/else` whose bodies are a single `raise X(...)`, `pass`,
or calls `self.<field>.assert_satisfaction(number_of_solutions, quantifier, done)`; tests built from `and`/`or`/`not`,
comparisons `< <= > >= == !=` between names `number_of_solutions`, `done`, `self.value`, `self.at_least.value`,
`self.at_most.value` and integer literals.
"""
from __future__ import annotations

import ast
from pathlib import Path

ERR = {
    "GreaterThanExpectedNumberOfSolutions": ".greater",
    "LessThanExpectedNumberOfSolutions": ".less",
    "NegativeQuantificationError": ".negative",
    "QuantificationConsistencyError": ".inconsistent",
}
CMP = {ast.Gt: ">", ast.Lt: "<", ast.GtE: "≥", ast.LtE: "≤", ast.Eq: "=", ast.NotEq: "≠"}


class TranslationError(Exception):
    pass


def _name(e: ast.AST) -> str:
    if isinstance(e, ast.Name):
        if e.id in ("number_of_solutions", "done"):
            return e.id
        raise TranslationError(f"unknown name {e.id}")
    if isinstance(e, ast.Attribute):
        src = ast.unparse(e)
        table = {"self.value": "value", "self.at_least.value": "lo", "self.at_most.value": "hi"}
        if src in table:
            return table[src]
        raise TranslationError(f"unknown attribute {src}")
    if isinstance(e, ast.Constant) and isinstance(e.value, int) and not isinstance(e.value, bool):
        return str(e.value)
    raise TranslationError(f"unsupported operand {ast.dump(e)}")


def _test(e: ast.AST) -> str:
    """a Python test as a Lean Bool expression"""
    if isinstance(e, ast.BoolOp):
        op = " && " if isinstance(e.op, ast.And) else " || "
        return "(" + op.join(_test(v) for v in e.values) + ")"
    if isinstance(e, ast.UnaryOp) and isinstance(e.op, ast.Not):
        return f"(!{_test(e.operand)})"
    if isinstance(e, ast.Compare) and len(e.ops) == 1 and type(e.ops[0]) in CMP:
        return f"decide ({_name(e.left)} {CMP[type(e.ops[0])]} {_name(e.comparators[0])})"
    if isinstance(e, ast.Name) and e.id == "done":
        return "done"
    raise TranslationError(f"unsupported test {ast.unparse(e)}")


def _raise(s: ast.Raise) -> str:
    exc = s.exc
    name = exc.func.id if isinstance(exc, ast.Call) and isinstance(exc.func, ast.Name) else (
        exc.id if isinstance(exc, ast.Name) else None)
    if name not in ERR:
        raise TranslationError(f"unknown exception {ast.unparse(s)}")
    return f"Except.error Err{ERR[name]}"


def _stmts(body, rest: str) -> str:
    """translate a statement list; `rest` is the Lean term for 'falls through to the end' """
    out = rest
    for s in reversed(body):
        if isinstance(s, ast.Expr) and isinstance(s.value, ast.Constant):
            continue  # docstring
        if isinstance(s, ast.Pass):
            continue
        if isinstance(s, ast.Raise):
            out = _raise(s)
            continue
        if isinstance(s, ast.If):
            then = _stmts(s.body, out)
            els = _stmts(s.orelse, out) if s.orelse else out
            out = f"(if {_test(s.test)} then {then} else {els})"
            continue
        if isinstance(s, ast.Expr) and isinstance(s.value, ast.Call):
            src = ast.unparse(s.value.func)
            args = [ast.unparse(a) for a in s.value.args]
            if args != ["number_of_solutions", "quantifier", "done"]:
                raise TranslationError(f"unsupported call arguments {ast.unparse(s)}")
            if src == "self.at_least.assert_satisfaction":
                out = f"(match atLeast_assert lo number_of_solutions done with | .error e => .error e | .ok _ => {out})"
            elif src == "self.at_most.assert_satisfaction":
                out = f"(match atMost_assert hi number_of_solutions done with | .error e => .error e | .ok _ => {out})"
            else:
                raise TranslationError(f"unsupported call {src}")
            continue
        raise TranslationError(f"unsupported statement {ast.unparse(s)}")
    return out


def _method(cls: ast.ClassDef, name: str):
    for s in cls.body:
        if isinstance(s, ast.FunctionDef) and s.name == name:
            return s
    return None


def translate(source: str) -> str:
    tree = ast.parse(source)
    classes = {c.name: c for c in tree.body if isinstance(c, ast.ClassDef)}
    for need in ("SingleValueQuantificationConstraint", "Exactly", "AtLeast", "AtMost", "Range"):
        if need not in classes:
            raise TranslationError(f"class {need} not found")
    for name, base in (("Exactly", "SingleValueQuantificationConstraint"), ("AtLeast", "SingleValueQuantificationConstraint"),
                       ("AtMost", "SingleValueQuantificationConstraint")):
        bases = [ast.unparse(b) for b in classes[name].bases]
        if base not in bases:
            raise TranslationError(f"{name} no longer derives from {base}")
        if _method(classes[name], "__post_init__") is not None:
            raise TranslationError(f"{name} overrides __post_init__")
    out = ["import KrroodVerif.Model.Quantifier", "set_option linter.unusedVariables false",
           "set_option linter.unusedSimpArgs false",
           "/-! GENERATED by harness/translate/c09_translate.py from result_quantification_constraint.py — do not edit -/",
           "namespace KrroodVerif.Quant.Translated", "open KrroodVerif.Quant", ""]
    for cls, fn in (("AtLeast", "atLeast_assert"), ("AtMost", "atMost_assert"), ("Exactly", "exactly_assert")):
        m = _method(classes[cls], "assert_satisfaction")
        if m is None:
            raise TranslationError(f"{cls}.assert_satisfaction not found")
        if [a.arg for a in m.args.args] != ["self", "number_of_solutions", "quantifier", "done"]:
            raise TranslationError(f"{cls}.assert_satisfaction signature changed")
        out.append(f"def {fn} (value : Nat) (number_of_solutions : Nat) (done : Bool) : Except Err Unit :=\n  "
                   + _stmts(m.body, "Except.ok ()") + "\n")
    m = _method(classes["Range"], "assert_satisfaction")
    if m is None:
        raise TranslationError("Range.assert_satisfaction not found")
    out.append("def range_assert (lo hi : Nat) (number_of_solutions : Nat) (done : Bool) : Except Err Unit :=\n  "
               + _stmts(m.body, "Except.ok ()") + "\n")
    m = _method(classes["SingleValueQuantificationConstraint"], "__post_init__")
    if m is None:
        raise TranslationError("SingleValueQuantificationConstraint.__post_init__ not found")
    out.append("def single_post_init (value : Int) : Except Err Unit :=\n  " + _stmts(m.body, "Except.ok ()") + "\n")
    m = _method(classes["Range"], "__post_init__")
    if m is None:
        raise TranslationError("Range.__post_init__ not found")
    out.append("def range_post_init (lo hi : Int) : Except Err Unit :=\n  " + _stmts(m.body, "Except.ok ()") + "\n")
    out.append(PROOFS)
    out.append("end KrroodVerif.Quant.Translated")
    return "\n".join(out) + "\n"


PROOFS = r'''
def assertSatT : Constraint → Nat → Bool → Except Err Unit
  | .exactly v, n, d => exactly_assert v n d
  | .atLeast v, n, d => atLeast_assert v n d
  | .atMost v, n, d => atMost_assert v n d
  | .range lo hi, n, d => range_assert lo hi n d

/-- the translated `assert_satisfaction` methods are the model's `assertSat`, for every constraint the constructors
accept (`WF`), every count and flag -/
theorem C09_assert_translated_eq_model (c : Constraint) (hwf : c.WF) (n : Nat) (d : Bool) :
    assertSatT c n d = assertSat c n d := by
  cases c <;> cases d <;> simp only [Constraint.WF] at hwf <;>
    simp only [assertSatT, exactly_assert, atLeast_assert, atMost_assert, range_assert, assertSat] <;>
    grind

/-- the translated `__post_init__` validations are the model's constructors -/
theorem C09_post_init_translated_eq_model :
    (∀ k v, mkSingle k v = (match single_post_init v with
        | .error e => .error e
        | .ok _ => .ok (match k with | .exactly => .exactly v.toNat | .atLeast => .atLeast v.toNat | .atMost => .atMost v.toNat))) ∧
    (∀ a b, mkRange a b = (match single_post_init a with
        | .error e => .error e
        | .ok _ => match single_post_init b with
          | .error e => .error e
          | .ok _ => match range_post_init a b with
            | .error e => .error e
            | .ok _ => .ok (.range a.toNat b.toNat))) := by
  constructor
  · intro k v
    simp only [mkSingle, single_post_init, decide_eq_true_eq]
    split <;> cases k <;> simp_all
  · intro a b
    simp only [mkRange, single_post_init, range_post_init, decide_eq_true_eq]
    repeat' split
    all_goals first | rfl | simp_all | omega
'''


def generate(repo: Path) -> str:
    src = (repo / "src/krrood/entity_query_language/result_quantification_constraint.py").read_text()
    return translate(src)


if __name__ == "__main__":
    import sys
    print(generate(Path(sys.argv[1] if len(sys.argv) > 1 else "/repo")))
