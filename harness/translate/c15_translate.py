"""Translator (Python AST -> Lean 4) for the inference procedure of C15:
`PropertyDescriptorRelation.add_to_graph` and everything it reaches in
`src/krrood/ontomatic/property_descriptor/property_descriptor_relation.py`, plus
`PropertyDescriptor.add_relation_to_the_graph` in `property_descriptor.py`.

Output: a Lean file defining `Translated.rules : List Rule` (one `Rule` per derivation site, in the order in which
`add_to_graph` reaches the sites) and `Translated.proc : Proc`, followed by the proof obligations

  C15_translated_rules_eq_model       Translated.rules = PD.rules            (decide)   -- the table the hand model transcribes
  C15_translated_proc_eq_model        Translated.proc  = PD.proc             (decide)
  C15_translated_rules_ok             RulesOk Translated.rules = true        (decide)
  C15_translated_order_independent    the generic theorem `C15_rules_order_independent`, instantiated

which the Lean kernel re-checks on every run (`extra_obligations()` in `harness/props/c15.py`).

STRICT: every statement on the way from `add_to_graph` to a derivation site must have one of the shapes below,
anything else raises TranslationError (reported as a broken obligation, never by itself as a violation).
NORMALISING: names of locals / loop variables / lambda parameters, comments and doc strings, the order of the
conjuncts of a neighbour condition, `inferred=True` given by keyword or position, helper methods inlined or
outlined (`self.helper()` is followed), the neighbour condition as a lambda (inline or bound to a local) or as a
method `self.<name>`, `if c: <body>` versus `if not c: return` do not change the output.

Shapes
  add_to_graph / helpers   `if <self-test>: <body>` (no else) | `if not <self-test>: return` | `self.<helper>()` |
                           `<flag> = super().add_to_graph()` | `for <t> in self.<prop>: <site>` |
                           `<d>, <f> = self.inverse_domain_and_field` | `<site>` | `pass` | doc string
  <self-test>              conjunction of `super().add_to_graph()` / `<flag>`, `self.transitive`, `self.inverse_of`,
                           `self.inferred`, `not self.inferred`
  <site>                   `<cls>(<src>, <tgt>, <field>[, inferred=<bool>]).add_to_graph()` or
                           `SymbolGraph().add_relation(<cls>(…))`; <cls> = `self.__class__` | `type(self)` |
                           `PropertyDescriptorRelation`
  neighbour property       `yield from | return  SymbolGraph().get_{outgoing,incoming}_relations_with_condition(
                           self.{source,target}, <cond>)` (also `filter(<cond>, SymbolGraph().get_…_relations(…))`)
  <cond> conjuncts         `r.property_descriptor_cls is self.property_descriptor_cls`, `r.wrapped_field ==
                           self.wrapped_field`, `r.{source,target}.instance is not None`, `not r.inferred`
The CONTENTS of `super_relations` and `inverse_domain_and_field` (role takers, class-diagram look-ups) are not
translated: they are the hand-written `schemaSem` / `uRule`, tied to the code by the correspondence only.
"""
from __future__ import annotations

import ast
from pathlib import Path
from typing import Dict, List, Optional, Tuple

REL_PATH = "src/krrood/ontomatic/property_descriptor/property_descriptor_relation.py"
PD_PATH = "src/krrood/ontomatic/property_descriptor/property_descriptor.py"
REL_CLASS = "PropertyDescriptorRelation"
PD_CLASS = "PropertyDescriptor"


class TranslationError(Exception):
    pass


def _src(e: ast.AST) -> str:
    return ast.unparse(e)


def _strip(body: List[ast.stmt]) -> List[ast.stmt]:
    """drop doc strings, bare constants and `pass`"""
    return [s for s in body
            if not (isinstance(s, ast.Pass) or (isinstance(s, ast.Expr) and isinstance(s.value, ast.Constant)))]


def _methods(cls: ast.ClassDef) -> Dict[str, ast.FunctionDef]:
    return {s.name: s for s in cls.body if isinstance(s, ast.FunctionDef)}


def _find_class(tree: ast.Module, name: str) -> ast.ClassDef:
    for s in tree.body:
        if isinstance(s, ast.ClassDef) and s.name == name:
            return s
    raise TranslationError(f"class {name} not found")


def _is_self_attr(e: ast.AST, *path: str) -> bool:
    return _src(e) == "self." + ".".join(path)


def _is_super_add(e: ast.AST) -> bool:
    return _src(e) in ("super().add_to_graph()", "PredicateClassRelation.add_to_graph(self)",
                       "SymbolGraph().add_relation(self)")


# ----------------------------------------------------------------------------------------------- neighbour condition


def _flatten_and(e: ast.AST) -> List[ast.AST]:
    if isinstance(e, ast.BoolOp) and isinstance(e.op, ast.And):
        return [x for v in e.values for x in _flatten_and(v)]
    return [e]


def _cond_atoms(e: ast.AST, var: str) -> Dict[str, bool]:
    flt = dict(sameDescriptor=False, sameWrappedField=False, liveSource=False, liveTarget=False, notInferred=False)
    for a in _flatten_and(e):
        s = _src(a)
        if isinstance(a, ast.Compare) and len(a.ops) == 1:
            l, r, op = _src(a.left), _src(a.comparators[0]), a.ops[0]
            pair = {l, r}
            if pair == {f"{var}.property_descriptor_cls", "self.property_descriptor_cls"} and isinstance(op, (ast.Is, ast.Eq)):
                flt["sameDescriptor"] = True
                continue
            if pair == {f"{var}.wrapped_field", "self.wrapped_field"} and isinstance(op, (ast.Is, ast.Eq)):
                flt["sameWrappedField"] = True
                continue
            if pair == {f"{var}.source.instance", "None"} and isinstance(op, (ast.IsNot, ast.NotEq)):
                flt["liveSource"] = True
                continue
            if pair == {f"{var}.target.instance", "None"} and isinstance(op, (ast.IsNot, ast.NotEq)):
                flt["liveTarget"] = True
                continue
            if pair == {f"{var}.inferred", "False"} and isinstance(op, (ast.Is, ast.Eq)):
                flt["notInferred"] = True
                continue
        if isinstance(a, ast.UnaryOp) and isinstance(a.op, ast.Not) and _src(a.operand) == f"{var}.inferred":
            flt["notInferred"] = True
            continue
        raise TranslationError(f"unsupported conjunct in a neighbour condition: {s}")
    return flt


def _condition(e: ast.AST, local_lambdas: Dict[str, ast.Lambda], methods) -> Dict[str, bool]:
    if isinstance(e, ast.Name) and e.id in local_lambdas:
        e = local_lambdas[e.id]
    if isinstance(e, ast.Lambda):
        if len(e.args.args) != 1:
            raise TranslationError("neighbour condition must take one relation")
        return _cond_atoms(e.body, e.args.args[0].arg)
    if isinstance(e, ast.Attribute) and isinstance(e.value, ast.Name) and e.value.id == "self" and e.attr in methods:
        m = methods[e.attr]
        args = [a.arg for a in m.args.args]
        body = _strip(m.body)
        if len(args) != 2 or args[0] != "self" or len(body) != 1 or not isinstance(body[0], ast.Return) or body[0].value is None:
            raise TranslationError(f"unsupported condition method {e.attr}")
        return _cond_atoms(body[0].value, args[1])
    raise TranslationError(f"unsupported neighbour condition {_src(e)}")


def _neighbours(name: str, methods) -> Tuple[str, str, Dict[str, bool]]:
    """(dir, node, filter) of a neighbour property"""
    if name not in methods:
        raise TranslationError(f"{name} is not a method of {REL_CLASS}")
    body = _strip(methods[name].body)
    lambdas: Dict[str, ast.Lambda] = {}
    while body and isinstance(body[0], ast.Assign) and len(body[0].targets) == 1 \
            and isinstance(body[0].targets[0], ast.Name) and isinstance(body[0].value, ast.Lambda):
        lambdas[body[0].targets[0].id] = body[0].value
        body = body[1:]
    if len(body) != 1:
        raise TranslationError(f"unsupported body of {name}")
    s = body[0]
    call = None
    if isinstance(s, ast.Expr) and isinstance(s.value, ast.YieldFrom):
        call = s.value.value
    elif isinstance(s, ast.Return) and s.value is not None:
        call = s.value
    elif isinstance(s, ast.For) and isinstance(s.target, ast.Name) and len(s.body) == 1 and not s.orelse \
            and isinstance(s.body[0], ast.Expr) and isinstance(s.body[0].value, ast.Yield) \
            and _src(s.body[0].value.value) == s.target.id:
        call = s.iter
    if isinstance(call, ast.Call) and _src(call.func) in ("list", "tuple", "iter") and len(call.args) == 1:
        call = call.args[0]
    if not isinstance(call, ast.Call):
        raise TranslationError(f"unsupported body of {name}: {_src(s)}")
    cond = None
    if _src(call.func) == "filter" and len(call.args) == 2 and isinstance(call.args[1], ast.Call):
        cond, call = call.args[0], call.args[1]
        table = {"SymbolGraph().get_outgoing_relations": "outgoing", "SymbolGraph().get_incoming_relations": "incoming"}
        nargs = 1
    else:
        table = {"SymbolGraph().get_outgoing_relations_with_condition": "outgoing",
                 "SymbolGraph().get_incoming_relations_with_condition": "incoming"}
        nargs = 2
    f = _src(call.func)
    if f not in table or len(call.args) != nargs or call.keywords:
        raise TranslationError(f"unsupported graph query in {name}: {_src(call)}")
    node = {"self.source": "source", "self.target": "target"}.get(_src(call.args[0]))
    if node is None:
        raise TranslationError(f"unsupported node in {name}: {_src(call.args[0])}")
    if cond is None:
        cond = call.args[1]
    return table[f], node, _condition(cond, lambdas, methods)


# ----------------------------------------------------------------------------------------------- derivation sites


class _Ctx:
    def __init__(self, guard_new=False, need=frozenset(), not_inferred=False, only_inferred=False):
        self.guard_new, self.need, self.not_inferred, self.only_inferred = guard_new, need, not_inferred, only_inferred

    def with_atoms(self, atoms) -> "_Ctx":
        c = _Ctx(self.guard_new, self.need, self.not_inferred, self.only_inferred)
        for a in atoms:
            if a == "new":
                c.guard_new = True
            elif a in ("transitive", "inverse"):
                c.need = c.need | {a}
            elif a == "notInferred":
                c.not_inferred = True
            elif a == "inferred":
                c.only_inferred = True
            else:
                raise TranslationError(f"unsupported test atom {a}")
        return c


def _site(call: ast.AST, env: Dict[str, str]) -> Optional[dict]:
    """`<cls>(src, tgt, field, inferred=..).add_to_graph()` / `SymbolGraph().add_relation(<cls>(..))`"""
    if not isinstance(call, ast.Call):
        return None
    ctor = None
    recurses = None
    if isinstance(call.func, ast.Attribute) and call.func.attr == "add_to_graph" and not call.args and not call.keywords \
            and isinstance(call.func.value, ast.Call):
        ctor, recurses = call.func.value, True
    elif _src(call.func) == "SymbolGraph().add_relation" and len(call.args) == 1 and isinstance(call.args[0], ast.Call):
        ctor, recurses = call.args[0], False
    if ctor is None or _src(ctor.func) not in ("self.__class__", "type(self)", REL_CLASS):
        return None
    args = list(ctor.args)
    kw = {k.arg: k.value for k in ctor.keywords}
    names = ["source", "target", "wrapped_field", "inferred"]
    vals: Dict[str, ast.AST] = {}
    for n, a in zip(names, args):
        vals[n] = a
    for k, v in kw.items():
        if k not in names or k in vals:
            raise TranslationError(f"unsupported constructor call {_src(ctor)}")
        vals[k] = v
    if len(args) > 4 or not all(n in vals for n in names[:3]):
        raise TranslationError(f"unsupported constructor call {_src(ctor)}")
    inferred = False
    if "inferred" in vals:
        v = vals["inferred"]
        if not (isinstance(v, ast.Constant) and isinstance(v.value, bool)):
            raise TranslationError(f"unsupported inferred flag {_src(v)}")
        inferred = v.value

    def obj(e):
        s = _src(e)
        if s == "self.source":
            return "selfSource"
        if s == "self.target":
            return "selfTarget"
        if "nb" in env and s == env["nb"] + ".source":
            return "nbSource"
        if "nb" in env and s == env["nb"] + ".target":
            return "nbTarget"
        if "dom" in env and s == env["dom"]:
            return "ruleDomain"
        raise TranslationError(f"unsupported object term {s}")

    def fld(e):
        s = _src(e)
        if s == "self.wrapped_field":
            return "selfField"
        if "nb" in env and s == env["nb"] + ".wrapped_field":
            return "nbField"
        if "fld" in env and s == env["fld"]:
            return "ruleField"
        raise TranslationError(f"unsupported field term {s}")

    return dict(src=obj(vals["source"]), tgt=obj(vals["target"]), field=fld(vals["wrapped_field"]),
                inferredFlag=inferred, recurses=recurses)


class _Walker:
    def __init__(self, methods):
        self.methods = methods
        self.events: List[tuple] = []   # ("rule", dict) | ("writeback", ctx)
        self.new_flags: set = set()     # locals holding the result of super().add_to_graph()
        self.super_called = False

    def test_atoms(self, e: ast.AST) -> List[str]:
        out = []
        for a in _flatten_and(e):
            s = _src(a)
            if _is_super_add(a):
                self.super_called = True
                out.append("new")
            elif isinstance(a, ast.Name) and a.id in self.new_flags:
                out.append("new")
            elif s == "self.transitive":
                out.append("transitive")
            elif s in ("self.inverse_of", "self.inverse_of is not None"):
                out.append("inverse")
            elif s == "self.inferred":
                out.append("inferred")
            elif s in ("not self.inferred", "self.inferred is False"):
                out.append("notInferred")
            else:
                raise TranslationError(f"unsupported test {s}")
        return out

    def emit_rule(self, source, site, ctx: _Ctx):
        if ctx.only_inferred:
            raise TranslationError("a derivation guarded by `self.inferred` is not representable")
        if len(ctx.need) > 1:
            raise TranslationError("a derivation guarded by both `transitive` and `inverse_of` is not representable")
        need = next(iter(ctx.need), "none")
        self.events.append(("rule", dict(source=source, guardNew=ctx.guard_new, need=need,
                                         selfNotInferred=ctx.not_inferred, **site)))

    def walk(self, body: List[ast.stmt], ctx: _Ctx, env: Dict[str, str], pending, depth: int):
        """`pending`: the Source of the enclosing loop / unpacking, or None"""
        if depth > 8:
            raise TranslationError("helper methods nested too deeply")
        body = _strip(body)
        i = 0
        while i < len(body):
            s = body[i]
            i += 1
            if isinstance(s, ast.If):
                if s.orelse:
                    raise TranslationError(f"`else` branch not supported: {_src(s.test)}")
                inner = _strip(s.body)
                if len(inner) == 1 and isinstance(inner[0], ast.Return) and inner[0].value is None:
                    # `if not c: return` == the rest is guarded by c
                    t = s.test
                    if not (isinstance(t, ast.UnaryOp) and isinstance(t.op, ast.Not)):
                        raise TranslationError(f"unsupported early return on {_src(t)}")
                    atoms = self.test_atoms(t.operand)
                    if len(atoms) != 1:
                        raise TranslationError(f"unsupported early return on {_src(t)}")
                    ctx = ctx.with_atoms(atoms)
                    continue
                self.walk(s.body, ctx.with_atoms(self.test_atoms(s.test)), dict(env), pending, depth + 1)
                continue
            if isinstance(s, ast.Assign) and len(s.targets) == 1:
                t, v = s.targets[0], s.value
                if isinstance(t, ast.Name) and _is_super_add(v):
                    self.new_flags.add(t.id)
                    self.super_called = True
                    continue
                if isinstance(t, ast.Tuple) and len(t.elts) == 2 and all(isinstance(x, ast.Name) for x in t.elts) \
                        and _is_self_attr(v, "inverse_domain_and_field"):
                    env = dict(env, dom=t.elts[0].id, fld=t.elts[1].id)
                    pending = ("inversePair",)
                    continue
                raise TranslationError(f"unsupported assignment {_src(s)}")
            if isinstance(s, ast.For):
                if s.orelse or not (isinstance(s.iter, ast.Attribute) and isinstance(s.iter.value, ast.Name)
                                    and s.iter.value.id == "self"):
                    raise TranslationError(f"unsupported loop over {_src(s.iter)}")
                prop = s.iter.attr
                if prop == "super_relations":
                    if not (isinstance(s.target, ast.Tuple) and len(s.target.elts) == 2
                            and all(isinstance(x, ast.Name) for x in s.target.elts)):
                        raise TranslationError("loop over super_relations must unpack (domain, field)")
                    env2 = dict(env, dom=s.target.elts[0].id, fld=s.target.elts[1].id)
                    src2 = ("superRelations",)
                else:
                    if not isinstance(s.target, ast.Name):
                        raise TranslationError(f"unsupported loop target {_src(s.target)}")
                    d, node, flt = _neighbours(prop, self.methods)
                    env2 = dict(env, nb=s.target.id)
                    src2 = ("neighbours", d, node, flt)
                inner = _strip(s.body)
                if len(inner) != 1 or not isinstance(inner[0], ast.Expr):
                    raise TranslationError(f"unsupported loop body in loop over self.{prop}")
                site = _site(inner[0].value, env2)
                if site is None:
                    raise TranslationError(f"unsupported loop body {_src(inner[0])}")
                self.emit_rule(src2, site, ctx)
                continue
            if isinstance(s, ast.Expr):
                v = s.value
                if _is_super_add(v):
                    self.super_called = True      # result discarded: nothing below is guarded by it
                    continue
                src_ = _src(v)
                if src_ in ("self.update_source_wrapped_field_value()",
                            "self.wrapped_field.property_descriptor.update_value(self.source.instance, self.target.instance)"):
                    self.events.append(("writeback", ctx))
                    continue
                if isinstance(v, ast.Call) and isinstance(v.func, ast.Attribute) and isinstance(v.func.value, ast.Name) \
                        and v.func.value.id == "self" and not v.args and not v.keywords and v.func.attr in self.methods \
                        and v.func.attr != "add_to_graph":
                    self.walk(self.methods[v.func.attr].body, ctx, {}, None, depth + 1)
                    continue
                site = _site(v, env)
                if site is not None:
                    if pending is None:
                        raise TranslationError(f"derivation outside a loop / unpacking: {src_}")
                    self.emit_rule(pending, site, ctx)
                    continue
                raise TranslationError(f"unsupported statement {src_}")
            raise TranslationError(f"unsupported statement {_src(s)}")


def translate_relation(source: str) -> Tuple[List[dict], dict]:
    cls = _find_class(ast.parse(source), REL_CLASS)
    methods = _methods(cls)
    if "add_to_graph" not in methods:
        raise TranslationError("add_to_graph not found")
    if [a.arg for a in methods["add_to_graph"].args.args] != ["self"]:
        raise TranslationError("add_to_graph signature changed")
    w = _Walker(methods)
    w.walk(methods["add_to_graph"].body, _Ctx(), {}, None, 0)
    if not w.super_called:
        raise TranslationError("add_to_graph never inserts the relation (super().add_to_graph() not found)")
    rules = [e[1] for e in w.events if e[0] == "rule"]
    wbs = [(i, e[1]) for i, e in enumerate(w.events) if e[0] == "writeback"]
    if len(wbs) > 1:
        raise TranslationError("more than one write-back site")
    if wbs:
        i, c = wbs[0]
        if c.not_inferred or c.need:
            raise TranslationError("unsupported guard of the write-back")
        wb = dict(writeBackWhenInferred=c.only_inferred, writeBackGuardNew=c.guard_new, writeBackFirst=(i == 0))
        if not c.only_inferred:
            # an unconditional write-back is a different procedure; representable only as "not when-inferred"
            wb["writeBackWhenInferred"] = False
    else:
        wb = dict(writeBackWhenInferred=False, writeBackGuardNew=False, writeBackFirst=False)
    return rules, wb


def translate_entry(source: str) -> dict:
    cls = _find_class(ast.parse(source), PD_CLASS)
    methods = _methods(cls)
    m = methods.get("add_relation_to_the_graph")
    if m is None:
        raise TranslationError("add_relation_to_the_graph not found")
    args = [a.arg for a in m.args.args]
    if args != ["self", "domain_value", "range_value", "inferred"]:
        raise TranslationError("add_relation_to_the_graph signature changed")
    body = _strip(m.body)
    not_none = None
    if len(body) == 1 and isinstance(body[0], ast.If) and not body[0].orelse:
        atoms = sorted(_src(a) for a in _flatten_and(body[0].test))
        if atoms == ["domain_value is not None", "range_value is not None"]:
            not_none = True
        elif atoms == ["domain_value", "range_value"]:
            not_none = False      # truthiness (F-C15-2 before its repair)
        else:
            raise TranslationError(f"unsupported gate {_src(body[0].test)}")
        body = _strip(body[0].body)
    else:
        raise TranslationError("add_relation_to_the_graph: gate not found")
    each = None
    env_v = None
    if len(body) == 1 and isinstance(body[0], ast.For) and isinstance(body[0].target, ast.Name) \
            and _src(body[0].iter) == "make_set(range_value)" and not body[0].orelse:
        each, env_v = True, body[0].target.id
        body = _strip(body[0].body)
    elif len(body) == 1 and isinstance(body[0], ast.Expr):
        each, env_v = False, "range_value"
    else:
        raise TranslationError("add_relation_to_the_graph: unsupported body")
    if len(body) != 1 or not isinstance(body[0], ast.Expr) or not isinstance(body[0].value, ast.Call):
        raise TranslationError("add_relation_to_the_graph: unsupported body")
    call = body[0].value
    through = None
    if isinstance(call.func, ast.Attribute) and call.func.attr == "add_to_graph" and not call.args \
            and isinstance(call.func.value, ast.Call):
        ctor, through = call.func.value, True
    elif _src(call.func) == "SymbolGraph().add_relation" and len(call.args) == 1 and isinstance(call.args[0], ast.Call):
        ctor, through = call.args[0], False
    else:
        raise TranslationError(f"add_relation_to_the_graph: unsupported call {_src(call)}")
    if _src(ctor.func) != REL_CLASS:
        raise TranslationError(f"add_relation_to_the_graph builds {_src(ctor.func)}")
    pos = [_src(a) for a in ctor.args]
    kws = {k.arg: _src(k.value) for k in ctor.keywords}
    names = ["source", "target", "wrapped_field", "inferred"]
    got = dict(zip(names, pos))
    got.update(kws)
    if got != {"source": "domain_value", "target": env_v, "wrapped_field": "self.wrapped_field", "inferred": "inferred"}:
        raise TranslationError(f"add_relation_to_the_graph: unsupported relation {_src(ctor)}")
    return dict(entryNotNone=not_none, entryEach=each, entryThroughAddToGraph=through)


# ----------------------------------------------------------------------------------------------- rendering


def _b(x: bool) -> str:
    return "true" if x else "false"


def render_rule(r: dict) -> str:
    s = r["source"]
    if s[0] == "neighbours":
        f = s[3]
        flt = (f"⟨{_b(f['sameDescriptor'])}, {_b(f['sameWrappedField'])}, {_b(f['liveSource'])}, "
               f"{_b(f['liveTarget'])}, {_b(f['notInferred'])}⟩")
        src = f".neighbours .{s[1]} .{s[2]} {flt}"
    else:
        src = "." + s[0]
    return ("{ source := " + src + f", guardNew := {_b(r['guardNew'])}, need := .{r['need']}, "
            f"selfNotInferred := {_b(r['selfNotInferred'])}, src := .{r['src']}, tgt := .{r['tgt']}, "
            f"field := .{r['field']}, inferredFlag := {_b(r['inferredFlag'])}, recurses := {_b(r['recurses'])} }}")


OBLIGATIONS = [
    "KrroodVerif.PD.Translated.C15_translated_rules_eq_model",
    "KrroodVerif.PD.Translated.C15_translated_proc_eq_model",
    "KrroodVerif.PD.Translated.C15_translated_rules_ok",
    "KrroodVerif.PD.Translated.C15_translated_order_independent",
]

PROOFS = r'''
/-- the table read off the current source is the table the hand-written model `addFact` transcribes … -/
theorem C15_translated_rules_eq_model : rules = KrroodVerif.PD.rules := by decide

/-- … and so is everything around the rules (write-back of inferred relations, entry through
`add_relation_to_the_graph`) -/
theorem C15_translated_proc_eq_model : proc = KrroodVerif.PD.proc := by decide

/-- the table read off the current source is admissible: super-properties, inverse and BOTH transitive joins, each
guarded by "new", recursing through the full procedure, joins blind to `inferred` flags -/
theorem C15_translated_rules_ok : RulesOk rules = true := by decide

/-- hence (generic theorem, proved once) the procedure the current source describes reaches the same relations for
every order and repetition of the assertions -/
theorem C15_translated_order_independent (S : Schema) (W : World) (hW : W.WF) (ops1 ops2 : List Op)
    (hin : InWorld S W ops1) (hsame : ∀ r, r ∈ asserted ops1 ↔ r ∈ asserted ops2) (x : Fact) :
    x ∈ (runRules (schemaSem S W) rules (fuelFor S W) (asserted ops1)).g ↔
    x ∈ (runRules (schemaSem S W) rules (fuelFor S W) (asserted ops2)).g :=
  C15_rules_order_independent S W hW rules C15_translated_rules_ok ops1 ops2 hin hsame x
'''


def render(rules: List[dict], proc: dict) -> str:
    out = ["import KrroodVerif.Props.C15Rules",
           "/-! GENERATED by harness/translate/c15_translate.py from property_descriptor_relation.py and "
           "property_descriptor.py — do not edit -/",
           "namespace KrroodVerif.PD.Translated", "open KrroodVerif.PD", "",
           "def rules : List Rule :=", "  [ " + ",\n    ".join(render_rule(r) for r in rules) + " ]", "",
           "def proc : Proc :=",
           "  { " + ", ".join(f"{k} := {_b(v)}" for k, v in proc.items()) + " }",
           PROOFS, "end KrroodVerif.PD.Translated"]
    return "\n".join(out) + "\n"


def table(repo: Path) -> Tuple[List[dict], dict]:
    rules, wb = translate_relation((repo / REL_PATH).read_text())
    entry = translate_entry((repo / PD_PATH).read_text())
    proc = dict(wb)
    proc.update(entry)
    order = ["writeBackWhenInferred", "writeBackGuardNew", "writeBackFirst", "entryNotNone", "entryEach",
             "entryThroughAddToGraph"]
    return rules, {k: proc[k] for k in order}


def generate(repo: Path) -> str:
    rules, proc = table(Path(repo))
    return render(rules, proc)


if __name__ == "__main__":
    import sys
    print(generate(Path(sys.argv[1] if len(sys.argv) > 1 else "/repo")))
