"""Self-test of the C04/C05 protocol translator (not part of the check; run by hand:
`cd harness && /venv/bin/python translate/test_c04_translate.py`).

Source-level rewrites of the CURRENT `dao.py` text:
* semantic mutations: the translator must reject the source or produce a table for which the kernel refuses
  `ProtocolOk` (and `canon` equality with the hand table);
* harmless rewrites: the translated table must still satisfy both obligations.
All tables are put into ONE generated Lean file and decided by the kernel."""
from __future__ import annotations

import subprocess
import sys
from pathlib import Path

HERE = Path(__file__).resolve().parent
sys.path.insert(0, str(HERE.parent))
from translate import c04_translate as tr  # noqa: E402

REPO = Path(sys.argv[1]) if len(sys.argv) > 1 else Path("/repo")
LEAN_DIR = HERE.parent.parent / "lean"
SRC = (REPO / tr.SOURCE).read_text()


def rep(old: str, new: str, count: int = 1):
    def f(s: str) -> str:
        assert s.count(old) >= 1, f"pattern not found: {old[:60]!r}"
        return s.replace(old, new, count)
    return f


def chain(*fs):
    def f(s):
        for g in fs:
            s = g(s)
        return s
    return f


REGISTER = "        if register:\n            state.register(obj, result)\n\n"
DESCENT_END = "            result.to_dao_default(obj=dao_obj, state=state)\n\n"
ALLOC_FROM = "        result = self._allocate_uninitialized_and_memoize(state)\n"
BASE_FROM = "        base_kwargs = self._build_base_kwargs_for_alternative_parent(\n            argument_names, state\n        )\n"

SEMANTIC = {
    "S01 to_dao registers after the descent": chain(rep(REGISTER, ""), rep(DESCENT_END, DESCENT_END + REGISTER)),
    "S02 to_dao memo keyed by the object (==/hash)": chain(
        rep("return self.memo.get(id(obj))", "return self.memo.get(obj)"),
        rep("        oid = id(obj)\n        self.memo[oid] = result\n        self.keep_alive[oid] = obj",
            "        self.memo[obj] = result\n        self.keep_alive[id(obj)] = obj")),
    "S03 from_dao allocates and memoises after the descent": chain(rep(ALLOC_FROM, ""), rep(BASE_FROM, BASE_FROM + ALLOC_FROM)),
    "S04 parse_single guards by truthiness": rep("        if value is None:\n            return None, False", "        if not value:\n            return None, False"),
    "S05 parse_collection drops equal elements": rep("            instances.append(instance)",
                                                     "            if instance not in instances:\n                instances.append(instance)"),
    "S06 no deferred fix-ups": rep("            state.apply_deferred_fixes(self)\n", ""),
    "S07 fix-ups before __init__": chain(
        rep("        self._apply_circular_fixes(result, circular_refs, state)\n\n", ""),
        rep("        self._call_initializer_or_assign(result, init_args)\n",
            "        self._apply_circular_fixes(result, circular_refs, state)\n        self._call_initializer_or_assign(result, init_args)\n")),
    "S08 FromDAOState does not keep the DAO alive": rep("        self.keep_alive[id(dao_obj)] = dao_obj\n", ""),
    "S09 from_dao never consults the memo": rep("        if state.has(self):\n            return state.get(self)\n", ""),
    "S10 get_columns_from copies truthy values only": rep(
        "                setattr(self, column.name, getattr(obj, column.name))\n\n    def get_relationships_from",
        "                value = getattr(obj, column.name)\n                if value:\n                    setattr(self, column.name, value)\n\n    def get_relationships_from"),
    "S11 ToDAOState is falsy while empty": rep("    def get_existing(self, obj: Any) -> Any:",
                                               "    def __len__(self):\n        return len(self.memo)\n\n    def get_existing(self, obj: Any) -> Any:"),
    "S12 relationship kwargs skip None": rep("                rel_kwargs[relationship.key] = parsed\n",
                                             "                if parsed is not None:\n                    rel_kwargs[relationship.key] = parsed\n"),
    "S13 keep_alive holds the DAO (seeded C04-m1)": rep("self.keep_alive[oid] = obj", "self.keep_alive[oid] = result"),
    "S14 single relationship guarded by truthiness (seeded C04-m2)": rep("        if value_in_obj is None:", "        if not value_in_obj:"),
    "S15 memo entry not replaced by the final object": rep("            state.memo[id(self)] = result\n", ""),
    "S16 AlternativeMapping.to_dao ignores the memo": rep(
        "        if id(obj) in state.memo:\n            return state.memo[id(obj)]\n        elif isinstance(obj, cls):", "        if isinstance(obj, cls):"),
    "S17 fix-ups re-assign only distinct elements (seeded C04-r2m1)": rep(
        "if instance is self.memo.get(id(v)):", "if instance is self.memo.get(id(v)) and v not in circular_values:"),
}

HARMLESS = {
    "H01 locals and a parameter renamed in to_dao": chain(
        rep("        existing = state.get_existing(obj)\n        if existing is not None:\n            return existing",
            "        found = state.get_existing(obj)\n        if found is not None:\n            return found"), rep("dao_obj = state.apply", "mapped = state.apply"), rep("obj=dao_obj,", "obj=mapped,", 2)),
    "H02 `if state is None` instead of `state or`": chain(
        rep("        state = state or ToDAOState()", "        if state is None:\n            state = ToDAOState()", 3),
        rep("        state = state or FromDAOState()", "        if state is None:\n            state = FromDAOState()"),
        rep("    state = state or ToDAOState()", "    if state is None:\n        state = ToDAOState()")),
    "H03 register: stores swapped, key inlined": rep(
        "        oid = id(obj)\n        self.memo[oid] = result\n        self.keep_alive[oid] = obj",
        "        self.keep_alive[id(obj)] = obj  # first\n        self.memo[id(obj)] = result"),
    "H04 alternative mapping applied after the MRO scan": chain(
        rep("        dao_obj = state.apply_alternative_mapping_if_needed(cls, obj)\n", ""),
        rep("        result = cls()\n", "        dao_obj = state.apply_alternative_mapping_if_needed(cls, obj)\n        result = cls()\n")),
    "H05 `self in state` / `state[self]` (no __len__)": chain(
        rep("    def has(self, dao_obj: Any) -> bool:", "    def __contains__(self, dao_obj: Any) -> bool:"),
        rep("    def get(self, dao_obj: Any) -> Any:", "    def __getitem__(self, dao_obj: Any) -> Any:"),
        rep("        if state.has(self):\n            return state.get(self)", "        if self in state:\n            return state[self]")),
    "H06 parse_collection: initialisations swapped, annotations dropped": rep(
        "        instances = []\n        circular_values: List[Any] = []", "        circular_values = []\n        instances = []"),
    "H07 scalars before / after relationships swapped in from_dao": chain(
        rep("        kwargs = self._collect_scalar_kwargs(mapper, argument_names)\n\n", ""),
        rep("        kwargs.update(rel_kwargs)\n", "        kwargs = self._collect_scalar_kwargs(mapper, argument_names)\n        kwargs.update(rel_kwargs)\n")),
    "H08 docstring removed, comments added, tuple parenthesised": chain(
        rep('        """\n        Return an existing DAO for the given object if it was already created.\n        """\n', "        # look it up\n"),
        rep("            return None, False", "            return (None, False)  # nothing there")),
}


def main() -> int:
    base = tr.describe(SRC)
    rows = []
    defs = []
    for i, (name, f) in enumerate(list(SEMANTIC.items()) + list(HARMLESS.items())):
        harmless = name.startswith("H")
        try:
            d = tr.describe(f(SRC))
        except tr.TranslationError as e:
            rows.append((name, harmless, None, "rejected: " + str(e).splitlines()[0][:90]))
            continue
        diff = {f"{k}.{x}": d[k][x] for k in d for x in d[k] if d[k][x] != base[k][x]}
        defs.append((i, name, harmless, diff, d))
    lean = ["import KrroodVerif.Props.C04Protocol", "open KrroodVerif.Dao"]
    for i, name, harmless, diff, d in defs:
        lean.append(f"def t{i} : ProtocolTable := {{ toD := {tr._dir(d['toD'])}, fromD := {tr._dir(d['fromD'])} }}")
        lean.append(f'#eval IO.println s!"R {i} {{decide (ProtocolOk t{i})}} {{decide (t{i}.canon = protocol.canon)}}"')
    f = LEAN_DIR / ".lake" / "audit"
    f.mkdir(parents=True, exist_ok=True)
    f = f / "C04TranslateSelftest.lean"
    f.write_text("\n".join(lean) + "\n")
    try:
        p = subprocess.run(["lake", "env", "lean", str(f)], cwd=str(LEAN_DIR), capture_output=True, text=True, timeout=600)
    finally:
        f.unlink()
    res = {}
    for line in p.stdout.splitlines():
        if line.startswith("R "):
            _, i, ok, eq = line.split()
            res[int(i)] = (ok == "true", eq == "true")
    if len(res) != len(defs):
        print(p.stdout[-3000:], p.stderr[-2000:])
        return 2
    for i, name, harmless, diff, d in defs:
        ok, eq = res[i]
        rows.append((name, harmless, ok and eq, f"ProtocolOk={ok} eq_model={eq} diff={diff}"))
    bad = 0
    for name, harmless, holds, info in sorted(rows):
        good = (holds is True) if harmless else (holds is not True)
        bad += not good
        print(("ok   " if good else "FAIL ") + f"{name}: " + ("obligations hold" if holds else "obligations BROKEN") + f" [{info}]")
    print(f"{len(rows)} rewrites, {bad} unexpected")
    return 1 if bad else 0


if __name__ == "__main__":
    sys.exit(main())
