"""Self-test of harness/translate/c02_translate.py on in-memory edits of the CURRENT symbolic.py / entity.py:
semantic mutations must change the table (or be rejected), harmless rewrites must not.

    /venv/bin/python harness/translate/c02_translate_selftest.py [/repo]

Prints one line per edit and exits 1 if an expectation is not met. With `--emit DIR` it also writes each mutated pair of
files to DIR/<tag>/{symbolic.py,entity.py} (to be copied into a scratch worktree for a run of the full check)."""
from __future__ import annotations

import sys
from pathlib import Path

sys.path.insert(0, str(Path(__file__).resolve().parent.parent))
from translate import c02_translate as T  # noqa: E402


def rep(src: str, old: str, new: str) -> str:
    if src.count(old) != 1:
        raise SystemExit(f"selftest: pattern occurs {src.count(old)} times: {old[:70]!r}")
    return src.replace(old, new)


OR_TEST = "    if set(left_vars.unwrapped_values) == set(right_vars.unwrapped_values):\n"
OR_BODY = ("        return ElseIf(left, right)\n"
           "    else:\n"
           "        return Union(left, right)\n")
RV = ("    right_vars = right._unique_variables_.filter(\n"
      "        lambda v: not isinstance(v.value, Literal)\n"
      "    )\n")
LV = ("    left_vars = left._unique_variables_.filter(\n"
      "        lambda v: not isinstance(v.value, Literal)\n"
      "    )\n")
CHAIN_STEP = "        prev_operation = operator(prev_operation, condition)\n"
CHAIN = ("    prev_operation = None\n"
         "    for condition in conditions:\n"
         "        if prev_operation is None:\n"
         "            prev_operation = condition\n"
         "            continue\n"
         "        prev_operation = operator(prev_operation, condition)\n"
         "    return prev_operation\n")
AND_EVAL = ('@dataclass(eq=False, repr=False)\nclass AND(LogicalBinaryOperator):\n    """\n'
            '    A symbolic AND operation that can be used to combine multiple symbolic expressions.\n    """\n')
NOT_HEAD = "    _child_: SymbolicExpression[T]\n\n    def __post_init__(self):\n        if isinstance(self._child_, ResultQuantifier):\n"
CMP_NAME = "    @property\n    def _name_(self):\n        if self.operation in self.operation_name_map:\n"
COMPLEMENT = '''    inverse_operation_map: ClassVar[Dict[Any, Any]] = {
        operator.eq: operator.ne,
        operator.ne: operator.eq,
        operator.lt: operator.ge,
        operator.ge: operator.lt,
        operator.gt: operator.le,
        operator.le: operator.gt,
        operator.contains: not_contains,
        not_contains: operator.contains,
    }

    def _invert_(self):
        inverse_operation = self.inverse_operation_map.get(self.operation, None)
        if inverse_operation is None:
            return super()._invert_()
        return Comparator(self.left, self.right, inverse_operation)

'''
COMPLEMENT_B = '''    negations: ClassVar[Dict[Any, Any]] = {
        operator.eq: operator.ne,
        operator.ne: operator.eq,
        operator.lt: operator.ge,
        operator.ge: operator.lt,
        operator.gt: operator.le,
        operator.le: operator.gt,
        operator.contains: not_contains,
        not_contains: operator.contains,
    }

    def _invert_(self):
        # same as the map/get spelling
        if self.operation not in self.negations:
            return Not(self)
        else:
            return Comparator(left=self.left, right=self.right, operation=self.negations[self.operation])

'''

# (tag, file, old, new, what) --- semantic mutations: the table must differ from the model's, or the source be rejected
MUTATIONS = [
    ("m01-or-subset", "sym", OR_TEST, "    if set(right_vars.unwrapped_values).issubset(left_vars.unwrapped_values):\n",
     "seeded C01-r2m1: ElseIf when the right variables are a subset of the left ones"),
    ("m02-or-listeq", "sym", OR_TEST, "    if [v.id_ for v in left_vars] == [v.id_ for v in right_vars]:\n",
     "seeded C02-m1: variable lists compared"),
    ("m03-cmp-complement", "sym", CMP_NAME, COMPLEMENT + CMP_NAME,
     "seeded C01-r4m1 / C02-r3m1: not_(a < b) builds a >= b"),
    ("m04-chain-reversed", "sym", CHAIN_STEP, "        prev_operation = operator(condition, prev_operation)\n",
     "chained_logic passes the accumulator second"),
    ("m05-not-wraps", "ent", "    return operand._invert_()\n",
     "    from .symbolic import Not\n    return Not(operand)\n", "not_ wraps in Not (local import: rejected)"),
    ("m05b-not-wraps", "ent", "def not_(operand: SymbolicExpression):\n    \"\"\"\n    A symbolic NOT operation that can be used to negate symbolic expressions.\n    \"\"\"\n    if not isinstance(operand, SymbolicExpression):\n        operand = Literal(operand)\n    return operand._invert_()\n",
     "from .symbolic import Not as _N\n\n\ndef not_(operand: SymbolicExpression):\n    if not isinstance(operand, SymbolicExpression):\n        operand = Literal(operand)\n    return _N(operand)\n",
     "not_ wraps in Not (no dualisation)"),
    ("m06-or-keeps-literals", "sym", RV, "    right_vars = right._unique_variables_\n",
     "optimize_or: literals counted on the right side"),
    ("m07-or-typing-union", "ent", "    return chained_logic(optimize_or, *conditions)\n",
     "    return chained_logic(Union, *conditions)\n", "or_ chains `Union` — which is typing's Union in entity.py: rejected"),
    ("m07b-or-always-union", "ent", "def or_(*conditions):\n",
     "from .symbolic import Union as _SymUnion\n\n\ndef or_(*conditions):\n    return chained_logic(_SymUnion, *conditions)\n\n\ndef _old_or_(*conditions):\n",
     "or_ chains symbolic.Union"),
    ("m08-and-demorgan", "sym", AND_EVAL,
     AND_EVAL + "\n    def _invert_(self):\n        return optimize_or(self.left._invert_(), self.right._invert_())\n",
     "AND._invert_ by De Morgan (admissible, but not the model's table)"),
    ("m09-exists-builds-forall", "ent", "    return Exists(universal_variable, condition)\n",
     "    return ForAll(universal_variable, condition)\n", "exists() constructs ForAll"),
    ("m10-or-nodes-swapped", "sym", OR_BODY,
     "        return Union(left, right)\n    else:\n        return ElseIf(left, right)\n", "ElseIf / Union swapped"),
    ("m11-in-swapped", "ent", "    return Comparator(container, item, operator.contains)\n",
     "    return Comparator(item, container, operator.contains)\n", "in_ swaps the operands"),
    ("m12-exists-invert-keeps-body", "sym", "        return ForAll(self.variable, self.condition._invert_())\n",
     "        return ForAll(self.variable, self.condition)\n", "Exists._invert_ does not invert the condition"),
    ("m13-not-double-negation-wrong", "sym", NOT_HEAD,
     "    _child_: SymbolicExpression[T]\n\n    def _invert_(self):\n        return self._child_._invert_()\n\n"
     "    def __post_init__(self):\n        if isinstance(self._child_, ResultQuantifier):\n",
     "Not._invert_ returns the inverted child (a triple negation)"),
    ("m14-and-chains-elseif", "ent", "    return chained_logic(AND, *conditions)\n",
     "    return chained_logic(ElseIf, *conditions)\n", "and_ chains ElseIf"),
    ("m16-bar-always-elseif", "sym", "        return optimize_or(self, other)\n", "        return ElseIf(self, other)\n",
     "a | b builds ElseIf"),
    ("m15-or-operands-swapped", "sym", "        return ElseIf(left, right)\n", "        return ElseIf(right, left)\n",
     "ElseIf(right, left): not describable -> rejected"),
]

# harmless rewrites: the table must be EXACTLY the model's
HARMLESS = [
    ("h01-or-renamed-locals", "sym", LV + RV + OR_TEST,
     LV.replace("left_vars", "a").replace("lambda v: not isinstance(v.value", "lambda u: not isinstance(u.value")
     + RV.replace("right_vars", "b") + "    # same sets?\n"
     + "    if set(a.unwrapped_values) == set(b.unwrapped_values):\n", "locals renamed, comment added"),
    ("h02-or-eq-sides-swapped", "sym", OR_TEST, "    if set(right_vars.unwrapped_values) == set(left_vars.unwrapped_values):\n",
     "== with swapped sides"),
    ("h03-or-negated-test", "sym", OR_TEST + OR_BODY,
     "    if set(left_vars.unwrapped_values) != set(right_vars.unwrapped_values):\n"
     "        return Union(left, right)\n    return ElseIf(left, right)\n", "!= with swapped branches, no else"),
    ("h04-chain-if-else", "sym", CHAIN,
     "    acc = None\n    for c in conditions:\n        if acc is None:\n            acc = c\n        else:\n"
     "            acc = operator(acc, c)\n    return acc\n", "chained_logic with if/else and other names"),
    ("h05-exists-keywords", "ent", "    return Exists(universal_variable, condition)\n",
     "    return Exists(right=condition, left=universal_variable)\n", "keyword arguments"),
    ("h06-or-assignments-reordered", "sym", LV + RV, RV + LV, "independent statements reordered"),
    ("h07-cmp-explicit-default", "sym", CMP_NAME,
     "    def _invert_(self):\n        \"\"\"as every expression\"\"\"\n        return super()._invert_()\n\n" + CMP_NAME,
     "Comparator._invert_ delegating to the base class"),
    ("h08-contains-direct", "ent", "    return in_(item, container)\n",
     "    return Comparator(container, item, operator.contains)\n", "contains builds the Comparator itself"),
    ("h09-or-conditional-expression", "sym", OR_TEST + OR_BODY,
     "    return (ElseIf(left, right) if set(left_vars.unwrapped_values) == set(right_vars.unwrapped_values)\n"
     "            else Union(left, right))\n", "conditional expression"),
    ("h10-or-frozenset", "sym", OR_TEST,
     "    if frozenset(left_vars.unwrapped_values) == frozenset(right_vars.unwrapped_values):\n", "frozenset"),
]

# two spellings of one change must give the SAME table
SAME = [("m03-cmp-complement", ("m03b", "sym", CMP_NAME, COMPLEMENT_B + CMP_NAME))]


def apply(base, which, old, new):
    sym, ent = base
    return (rep(sym, old, new), ent) if which == "sym" else (sym, rep(ent, old, new))


def main() -> int:
    args = [a for a in sys.argv[1:] if not a.startswith("--")]
    repo = Path(args[0] if args else "/repo")
    emit = None
    if "--emit" in sys.argv:
        emit = Path(sys.argv[sys.argv.index("--emit") + 1])
        args = [a for a in args if a != str(emit)]
        repo = Path(args[0] if args else "/repo")
    base = ((repo / T.SYMBOLIC).read_text(), (repo / T.ENTITY).read_text())
    bad = 0
    t0 = T.table(*base)
    if T.diff(t0):
        print("UNCHANGED TREE: table differs from the model's:", T.diff(t0))
        bad += 1
    else:
        print("ok   unchanged tree: the model's table")
    tables = {}
    for tag, which, old, new, what in MUTATIONS:
        s = apply(base, which, old, new)
        compile(s[0], "symbolic.py", "exec"), compile(s[1], "entity.py", "exec")
        if emit:
            (emit / tag).mkdir(parents=True, exist_ok=True)
            (emit / tag / "symbolic.py").write_text(s[0])
            (emit / tag / "entity.py").write_text(s[1])
        try:
            t = T.table(*s)
            tables[tag] = t
            d = T.diff(t)
            if d:
                print(f"ok   {tag}: table changed [{'; '.join(d)}]  ({what})")
            else:
                print(f"BAD  {tag}: table unchanged  ({what})")
                bad += 1
        except T.TranslationError as e:
            print(f"ok   {tag}: rejected [{e}]  ({what})")
    for tag, which, old, new, what in HARMLESS:
        s = apply(base, which, old, new)
        compile(s[0], "symbolic.py", "exec"), compile(s[1], "entity.py", "exec")
        try:
            d = T.diff(T.table(*s))
            if d:
                print(f"BAD  {tag}: table changed [{'; '.join(d)}]  ({what})")
                bad += 1
            else:
                print(f"ok   {tag}: table unchanged  ({what})")
        except T.TranslationError as e:
            print(f"BAD  {tag}: rejected [{e}]  ({what})")
            bad += 1
    for ref, (tag, which, old, new) in SAME:
        t = T.table(*apply(base, which, old, new))
        if t == tables.get(ref):
            print(f"ok   {tag}: same table as {ref}")
        else:
            print(f"BAD  {tag}: table differs from {ref}")
            bad += 1
    return 1 if bad else 0


if __name__ == "__main__":
    sys.exit(main())
