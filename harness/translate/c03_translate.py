"""Translator (Python AST -> Lean 4 `IterShape`) for the lazily cached domain of C03:

  HashedIterable.__iter__ / __bool__ (+ the helpers they rely on: add, set_iterable, __post_init__; + __getitem__, the
  only other reader of the shared source; no other method may use self.iterable)                       (hashed_data.py)

Output: a Lean file defining `Translated.shape : IterShape` (Model/DomShape.lean) and the per-run proof obligations, all
by `decide`:

  C03_iter_shape_eq_model : Translated.shape = Dom.shape ∨ Translated.shape = Dom.shapeIdx ∨ Translated.shape = Dom.shapeSnap
  C03_iter_shape_ok       : IterOk Translated.shape
  C03_iter_shape_full_ok  : IterFullOk Translated.shape          (only when F-C03-1 is not an open finding any more)

With `Props/C03Shape.lean` (proved once, unbounded) the first says which machine the code is — one of the two hand-written
machines of Model/Dom.lean / DomIdx.lean (then `run` / `runIdx` and every theorem about them speak about this code, on every
schedule), or their snapshot variant (equal to today's machine wherever that does not raise RuntimeError) —, the second gives
the property on every non-overlapping schedule, the third on EVERY schedule, for all domains and query families.

STRICT: every statement of the translated methods must be one of the recognised shapes below; anything else raises
TranslationError (the check then searches for a concrete failing input through the correspondence).
NORMALISING: local names are irrelevant (loop variables, the taken-over source, the position counter are recognised
by their role); docstrings, comments and `pass` are ignored; `yield from VIEW` == `for x in VIEW: yield x`;
`self.values[v.id_] = v` == `self.add(v)` (the body of `add` is checked) == `self.values.update({v.id_: v})` ==
`k = v.id_; self.values[k] = v`; `iter(VIEW)` == `VIEW`; `list(VIEW)` == `tuple(VIEW)` == `[*VIEW]`;
`bool(a) or bool(b)` in either order, `True if a else bool(b)`, `len(a) > 0`; a two-statement take-over.

Recognised forms of `__iter__` (generator form):

    [if self.values: PHASE1; return]            cachedOnly           | PHASE1 ::= yield from VIEW | for x in VIEW: yield x
    PHASE1                                      phase1               | VIEW   ::= self.values.values()        liveView
    [src, self.iterable = self.iterable, iter(())]   source=takeOver |          | list(self.values.values())  snapshot
    [held = {}]                                                       | CACHE  ::= self.values[v.id_] = v | self.add(v)
    for v in self.iterable | src:                                     | HOLD   ::= held[v.id_] = v
        CACHE; yield v   |  yield v; CACHE  |  HOLD; yield v  |  yield v       cacheWhen = beforeYield | afterYield | atEnd | never
    [self.values.update(held)]                  (required with HOLD)
    [self.iterable = [] | () | {} | None]       atEnd = release

and the index form (the re-entrant `__iter__` of fixes/C03_index_cursor.diff), matched as a whole up to local names:

    position = 0
    while True:
        while position < len(self.values):
            for v in list(islice(self.values.values(), position, None)):
                position += 1
                yield v
        for v in self.iterable:
            self.values[v.id_] = v
            position = len(self.values)
            yield v
            if position < len(self.values):
                break
        else:
            return
"""
from __future__ import annotations

import ast
import copy
from pathlib import Path

FILE = "src/krrood/entity_query_language/hashed_data.py"
OBLIGATIONS = ["KrroodVerif.Dom.Translated.C03_iter_shape_eq_model", "KrroodVerif.Dom.Translated.C03_iter_shape_ok"]
FULL_OBLIGATION = "KrroodVerif.Dom.Translated.C03_iter_shape_full_ok"

FIELDS = ("phase1", "cachedOnly", "cacheWhen", "source", "atEnd", "truth")
TODAY = {"phase1": "liveView", "cachedOnly": False, "cacheWhen": "beforeYield", "source": "shared", "atEnd": "keep",
         "truth": "valuesOrSource"}


class TranslationError(Exception):
    pass


def _u(e) -> str:
    return ast.unparse(e)


def _is_doc(s) -> bool:
    return isinstance(s, ast.Pass) or (isinstance(s, ast.Expr) and isinstance(s.value, ast.Constant))


def _body(stmts):
    return [s for s in stmts if not _is_doc(s)]


def _methods(cls: ast.ClassDef):
    out = {}
    for s in cls.body:
        if isinstance(s, (ast.FunctionDef, ast.AsyncFunctionDef)):
            if s.name in out:
                raise TranslationError(f"{cls.name}.{s.name} defined twice")
            out[s.name] = s
    return out


def _plain(fn, params) -> None:
    a = fn.args
    if a.vararg or a.kwarg or a.kwonlyargs or a.posonlyargs or a.defaults or [x.arg for x in a.args] != params:
        raise TranslationError(f"{fn.name}: signature changed")
    if fn.decorator_list or isinstance(fn, ast.AsyncFunctionDef):
        raise TranslationError(f"{fn.name}: decorated / async")


class _Rename(ast.NodeTransformer):
    """canonical local names in order of first appearance (`self` and globals are kept)"""

    def __init__(self, keep):
        self.keep, self.map = set(keep), {}

    def visit_Name(self, n):
        if n.id in self.keep:
            return n
        if n.id not in self.map:
            self.map[n.id] = f"_l{len(self.map)}"
        return ast.copy_location(ast.Name(id=self.map[n.id], ctx=n.ctx), n)


def _canon(stmts, keep) -> str:
    r = _Rename(keep)
    return "\n".join(ast.dump(r.visit(copy.deepcopy(s))) for s in stmts)


GLOBALS = {"self", "len", "list", "tuple", "iter", "bool", "islice", "itertools", "True", "False", "None", "HashedValue",
           "isinstance", "HashedIterable"}

INDEX_TEMPLATES = ['''
position = 0
while True:
    while position < len(self.values):
        for v in list(islice(self.values.values(), position, None)):
            position += 1
            yield v
    for v in self.iterable:
        self.values[v.id_] = v
        position = len(self.values)
        yield v
        if position < len(self.values):
            break
    else:
        return
''', '''
position = 0
while True:
    while position < len(self.values):
        for v in list(itertools.islice(self.values.values(), position, None)):
            position += 1
            yield v
    for v in self.iterable:
        self.values[v.id_] = v
        position = len(self.values)
        yield v
        if position < len(self.values):
            break
    else:
        return
''']

WRAP = '''
if iterable and not isinstance(iterable, HashedIterable):
    self.iterable = (HashedValue(v) if not isinstance(v, HashedValue) else v for v in iterable)
'''
WRAP_SELF = '''
if self.iterable and not isinstance(self.iterable, HashedIterable):
    self.iterable = (HashedValue(v) if not isinstance(v, HashedValue) else v for v in self.iterable)
'''
GETITEM = '''
if isinstance(id_, HashedValue):
    id_ = id_.id_
elif not isinstance(id_, int):
    id_ = HashedValue(id_).id_
try:
    return self.values[id_]
except KeyError:
    for v in self.iterable:
        self.values[v.id_] = v
        if v.id_ == id_:
            return v
    raise KeyError(id_)
'''
ADD = '''
if not isinstance(value, HashedValue):
    value = HashedValue(value)
if value.id_ not in self.values:
    self.values[value.id_] = value
return self
'''


def _same(stmts, template: str, keep=GLOBALS) -> bool:
    return _canon(_body(stmts), keep) == _canon(_body(ast.parse(template).body), keep)


# ---------------------------------------------------------------------------------------------------------- pieces

def _view(e):
    """`self.values.values()` -> liveView, a copied list of it -> snapshot"""
    src = _u(e)
    if src in ("self.values.values()", "iter(self.values.values())"):
        return "liveView"
    if src in ("list(self.values.values())", "tuple(self.values.values())", "[*self.values.values()]",
               "iter(list(self.values.values()))"):
        return "snapshot"
    raise TranslationError(f"unrecognised replay source: {src}")


def _phase1(s):
    """one statement handing out the cached values; returns the view kind or None if `s` is not such a statement"""
    if isinstance(s, ast.Expr) and isinstance(s.value, ast.YieldFrom):
        return _view(s.value.value)
    if isinstance(s, ast.For) and isinstance(s.target, ast.Name) and not s.orelse and "self.values" in _u(s.iter) \
            and "self.iterable" not in _u(s.iter):
        body = _body(s.body)
        if len(body) == 1 and isinstance(body[0], ast.Expr) and isinstance(body[0].value, ast.Yield) \
                and _u(body[0].value.value) == s.target.id:
            return _view(s.iter)
        raise TranslationError(f"unrecognised replay loop: {_u(s)}")
    return None


class _Iter:
    def __init__(self, cls: ast.ClassDef, methods):
        self.methods = methods
        fn = methods.get("__iter__")
        if fn is None:
            raise TranslationError("HashedIterable.__iter__ not found")
        _plain(fn, ["self"])
        self.shape = dict(TODAY)
        body = _body(fn.body)
        if any(_same(body, t) for t in INDEX_TEMPLATES):
            self.shape["phase1"] = "index"
            return
        self._generator_form(body)

    def _generator_form(self, body):
        i = 0
        if not body:
            raise TranslationError("__iter__: empty body")
        # [if self.values: PHASE1; return]
        s = body[0]
        if isinstance(s, ast.If) and _phase1(s) is None:
            if _u(s.test) not in ("self.values", "len(self.values) > 0", "len(self.values)", "bool(self.values)") or s.orelse:
                raise TranslationError(f"unrecognised guard: {_u(s.test)}")
            inner = _body(s.body)
            if len(inner) != 2 or _phase1(inner[0]) is None or not (isinstance(inner[1], ast.Return) and inner[1].value is None):
                raise TranslationError(f"unrecognised guarded replay: {_u(s)}")
            self.shape["phase1"] = _phase1(inner[0])
            self.shape["cachedOnly"] = True
            i = 1
        else:
            k = _phase1(s)
            if k is None:
                raise TranslationError(f"__iter__ does not start by replaying the cache: {_u(s)}")
            self.shape["phase1"] = k
            i = 1
        rest = body[i:]
        # statements between the replay and the pull loop: take-over of the source, a local dict for held values
        src, held = "self.iterable", None
        while rest and isinstance(rest[0], ast.Assign):
            a = rest[0]
            one = len(a.targets) == 1
            if one and isinstance(a.targets[0], ast.Tuple) and len(a.targets[0].elts) == 2 \
                    and isinstance(a.targets[0].elts[0], ast.Name) and _u(a.targets[0].elts[1]) == "self.iterable" \
                    and isinstance(a.value, ast.Tuple) and len(a.value.elts) == 2 and _u(a.value.elts[0]) == "self.iterable" \
                    and _u(a.value.elts[1]) in ("iter(())", "iter([])") and src == "self.iterable":
                src, rest = a.targets[0].elts[0].id, rest[1:]
                self.shape["source"] = "takeOver"
            elif one and isinstance(a.targets[0], ast.Name) and _u(a.value) == "self.iterable" and len(rest) > 1 \
                    and _u(rest[1]) in ("self.iterable = iter(())", "self.iterable = iter([])") and src == "self.iterable":
                src, rest = a.targets[0].id, rest[2:]
                self.shape["source"] = "takeOver"
            elif one and isinstance(a.targets[0], ast.Name) and _u(a.value) in ("{}", "dict()") and held is None:
                held, rest = a.targets[0].id, rest[1:]
            else:
                raise TranslationError(f"unrecognised statement before the pull loop: {_u(a)}")
        if not rest or not isinstance(rest[0], ast.For):
            raise TranslationError("__iter__: no pull loop over the source after the replay")
        loop = rest[0]
        if loop.orelse or not isinstance(loop.target, ast.Name) or _u(loop.iter) != src:
            raise TranslationError(f"unrecognised pull loop header: for {_u(loop.target)} in {_u(loop.iter)}")
        v = loop.target.id
        self.shape["cacheWhen"] = self._loop_body(_body(loop.body), v, held)
        rest = rest[1:]
        if self.shape["cacheWhen"] == "atEnd":
            if not rest or _u(rest[0]) != f"self.values.update({held})":
                raise TranslationError("held values are never written to the cache")
            rest = rest[1:]
        elif held is not None:
            raise TranslationError(f"unused local dict {held}")
        if rest and _u(rest[0]) in ("self.iterable = []", "self.iterable = ()", "self.iterable = {}", "self.iterable = None",
                                    "self.iterable = list()", "self.iterable = tuple()"):
            self.shape["atEnd"] = "release"
            rest = rest[1:]
        if rest and isinstance(rest[0], ast.Return) and rest[0].value is None:
            rest = rest[1:]
        if rest:
            raise TranslationError(f"unrecognised statement after the pull loop: {_u(rest[0])}")

    def _is_cache(self, stmts, v) -> int:
        """number of statements at the head of `stmts` that together write `v` to the cache (0: none)"""
        if not stmts:
            return 0
        t = _u(stmts[0])
        if t in (f"self.values[{v}.id_] = {v}", f"self.values.update({{{v}.id_: {v}}})", f"self[{v}.id_] = {v}"):
            if t.startswith("self["):
                self._check("__setitem__", ["self", "id_", "value"], "self.values[id_] = value")
            return 1
        if t == f"self.add({v})":
            self._check("add", ["self", "value"], ADD)
            return 1
        a = stmts[0]
        if isinstance(a, ast.Assign) and len(a.targets) == 1 and isinstance(a.targets[0], ast.Name) and _u(a.value) == f"{v}.id_" \
                and len(stmts) > 1 and _u(stmts[1]) == f"self.values[{a.targets[0].id}] = {v}":
            return 2
        return 0

    def _check(self, name, params, template):
        fn = self.methods.get(name)
        if fn is None:
            raise TranslationError(f"HashedIterable.{name} not found")
        _plain(fn, params)
        if not _same(fn.body, template, GLOBALS | set(params)):
            raise TranslationError(f"HashedIterable.{name}: body changed")

    def _loop_body(self, body, v, held) -> str:
        def is_yield(s):
            return isinstance(s, ast.Expr) and isinstance(s.value, ast.Yield) and s.value.value is not None \
                and _u(s.value.value) == v

        def is_hold(s):
            return held is not None and _u(s) == f"{held}[{v}.id_] = {v}"

        n = self._is_cache(body, v)
        if n and len(body) == n + 1 and is_yield(body[n]):
            return "beforeYield"
        if body and is_yield(body[0]):
            if len(body) == 1:
                return "never"
            n = self._is_cache(body[1:], v)
            if n and len(body) == 1 + n:
                return "afterYield"
            if len(body) == 2 and is_hold(body[1]):
                return "atEnd"
        if len(body) == 2 and is_hold(body[0]) and is_yield(body[1]):
            return "atEnd"
        raise TranslationError("unrecognised pull loop body: " + "; ".join(_u(s) for s in body))


def _truth(methods) -> str:
    fn = methods.get("__bool__")
    if fn is None:
        raise TranslationError("HashedIterable.__bool__ not found (truth would follow __len__)")
    _plain(fn, ["self"])
    body = _body(fn.body)
    if len(body) != 1 or not isinstance(body[0], ast.Return) or body[0].value is None:
        raise TranslationError("__bool__: not a single return")
    e = body[0].value

    def atom(x):
        t = _u(x)
        if t in ("bool(self.values)", "len(self.values) > 0", "len(self.values) != 0", "bool(len(self.values))"):
            return "values"
        if t == "bool(self.iterable)":
            return "source"
        raise TranslationError(f"__bool__: unrecognised operand {t}")

    if isinstance(e, ast.IfExp) and isinstance(e.body, ast.Constant) and e.body.value is True:
        # `True if a else bool(b)`
        t = _u(e.test)
        first = "values" if t in ("self.values", "bool(self.values)") else "source" if t in ("self.iterable", "bool(self.iterable)") else None
        if first is None:
            raise TranslationError(f"__bool__: unrecognised test {t}")
        parts = {first, atom(e.orelse)}
    elif isinstance(e, ast.BoolOp) and isinstance(e.op, ast.Or):
        parts = {atom(x) for x in e.values}
    else:
        parts = {atom(e)}
    if parts == {"values", "source"}:
        return "valuesOrSource"
    return "valuesOnly" if parts == {"values"} else "sourceOnly"


def describe(source: str) -> dict:
    """the IterShape of the given hashed_data.py source, as a dict over FIELDS"""
    tree = ast.parse(source)
    classes = [c for c in tree.body if isinstance(c, ast.ClassDef) and c.name == "HashedIterable"]
    if len(classes) != 1:
        raise TranslationError("class HashedIterable not found (or defined twice)")
    cls = classes[0]
    methods = _methods(cls)
    for forbidden in ("__next__", "__getattribute__", "__getattr__", "__setattr__"):
        if forbidden in methods:
            raise TranslationError(f"HashedIterable defines {forbidden}")
    shape = _Iter(cls, methods).shape
    shape["truth"] = _truth(methods)
    # the source is a generator object (one-shot, truthy, shared by all iterators): both places that install it
    for name, params, template in (("__post_init__", ["self"], WRAP_SELF), ("set_iterable", ["self", "iterable"], WRAP)):
        fn = methods.get(name)
        if fn is None:
            raise TranslationError(f"HashedIterable.{name} not found")
        _plain(fn, params)
        if not _same(fn.body, template, GLOBALS | set(params)):
            raise TranslationError(f"HashedIterable.{name}: the source is no longer wrapped in a generator expression")
    # the only other reader of the source: `__getitem__` pulls until it finds an id that is not cached, caching what it
    # pulls BEFORE it looks at it (like a beforeYield iterator that is never suspended); on an id that an `IterOk`
    # iterator has handed out it does not pull at all
    fn = methods.get("__getitem__")
    if fn is not None:
        _plain(fn, ["self", "id_"])
        if not _same(fn.body, GETITEM, GLOBALS | {"id_", "int", "KeyError"}):
            raise TranslationError("HashedIterable.__getitem__: body changed (it reads the shared source)")
    # nothing else may read or rebind the source
    for name, fn in methods.items():
        if name in ("__iter__", "__post_init__", "set_iterable", "__getitem__", "__bool__"):
            continue
        for n in ast.walk(fn):
            if isinstance(n, ast.Attribute) and _u(n) == "self.iterable":
                raise TranslationError(f"HashedIterable.{name} uses self.iterable")
    return shape


def sexp_item(shape: dict) -> str:
    """the `(shape …)` item appended to `sched` case lines (parsed by Drive/C03.lean)"""
    return "(shape " + " ".join(("1" if shape[f] else "0") if isinstance(shape[f], bool) else shape[f] for f in FIELDS) + ")"


def render(shape: dict, full: bool = False) -> str:
    def val(f):
        x = shape[f]
        return ("true" if x else "false") if isinstance(x, bool) else "." + x

    fields = ", ".join(f"{f} := {val(f)}" for f in FIELDS)
    out = f'''import KrroodVerif.Props.C03Shape
/-! GENERATED by harness/translate/c03_translate.py from hashed_data.py (HashedIterable.__iter__ / __bool__) — do not edit -/
namespace KrroodVerif.Dom.Translated
open KrroodVerif.Dom

def shape : IterShape := {{ {fields} }}

/-- the code is one of the two hand-written machines (`Dom.step` of Model/Dom.lean / `Dom.stepIdx` of DomIdx.lean:
`C03_shape_is_model`, `C03_shape_is_model_idx`) or the snapshot variant of the first (`runS_snap`) -/
theorem C03_iter_shape_eq_model : shape = Dom.shape ∨ shape = Dom.shapeIdx ∨ shape = Dom.shapeSnap := by decide

theorem C03_iter_shape_ok : IterOk shape := by decide

/-- hence, for THIS code: every non-overlapping schedule yields isolated results -/
theorem C03_iter_nonoverlap (n : Nat) (sats : Nat → List Nat) (ops : List Op) (h : noOverlap ops = true) :
    runS shape sats (initS n) ops = specRun n sats [] ops :=
  C03_shape_nonoverlap shape C03_iter_shape_ok n sats ops h
'''
    if full:
        out += '''
theorem C03_iter_shape_full_ok : IterFullOk shape := by decide

/-- hence, for THIS code: EVERY schedule yields isolated results -/
theorem C03_iter_full (n : Nat) (sats : Nat → List Nat) (ops : List Op) :
    runS shape sats (initS n) ops = specRun n sats [] ops :=
  C03_shape_full shape C03_iter_shape_full_ok n sats ops
'''
    return out + "\nend KrroodVerif.Dom.Translated\n"


def generate(repo: Path, full: bool = False) -> str:
    return render(describe((Path(repo) / FILE).read_text()), full)


if __name__ == "__main__":
    import sys
    r = Path(sys.argv[1] if len(sys.argv) > 1 else "/repo")
    d = describe((r / FILE).read_text())
    print(sexp_item(d))
    print(render(d))
