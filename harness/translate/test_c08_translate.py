"""Self-test of the C08 translator: semantic mutations of the translated sources must change the regenerated tables (or be
rejected), harmless rewrites must not.  Run: /venv/bin/python harness/translate/test_c08_translate.py [repo]
Works on copies of the three source files in a temporary directory; never writes to the repository."""
from __future__ import annotations

import shutil
import sys
import tempfile
from pathlib import Path

sys.path.insert(0, str(Path(__file__).resolve().parent.parent))
from translate.c08_translate import RULE_PATH, SEL_PATH, SYM_PATH, TranslationError, selector_table, surgery_table  # noqa: E402

R, S, Y = RULE_PATH, SEL_PATH, SYM_PATH

# (name, [(file, old, new)…]) — every `old` must occur exactly once
SEMANTIC = [
    ("refinement does not re-link prev_parent.left/right (revert of 6d59379)",
     [(R, "    _replace_operand(prev_parent, current_node, new_conditions_root)\n", "")]),
    ("refinement re-links the right operand first",
     [(R, "    if parent.left is old_operand:\n        parent.left = new_operand\n    elif parent.right is old_operand:\n        parent.right = new_operand\n",
       "    if parent.right is old_operand:\n        parent.right = new_operand\n    elif parent.left is old_operand:\n        parent.left = new_operand\n")]),
    ("refinement reads the parent of the last evaluation (revert of 97ba516)",
     [(R, "    current_node = SymbolicExpression._current_parent_()\n    prev_parent = _graph_parent_(current_node)\n    current_node._parent_ = None\n    new_conditions_root = ExceptIf(",
       "    current_node = SymbolicExpression._current_parent_()\n    prev_parent = current_node._parent_\n    current_node._parent_ = None\n    new_conditions_root = ExceptIf(")]),
    ("refinement builds ExceptIf(new, current)",
     [(R, "ExceptIf(SymbolicExpression._current_parent_(), new_branch)", "ExceptIf(new_branch, SymbolicExpression._current_parent_())")]),
    ("the climb also passes an ExceptIf whose right operand the node is",
     [(R, "        elif isinstance(parent, ExceptIf) and current_node is parent.left:\n", "        elif isinstance(parent, ExceptIf):\n")]),
    ("the climb stops below a Next",
     [(R, "        if isinstance(parent, (Alternative, Next)):\n", "        if isinstance(parent, Alternative):\n")]),
    ("alternative_or_next always overwrites prev_parent.right (part of a revert of 5ccefb5)",
     [(R, "        if prev_parent.right is current_node:\n            prev_parent.right = new_conditions_root\n        elif prev_parent.left is current_node:\n            prev_parent.left = new_conditions_root\n",
       "        if prev_parent.right is current_node:\n            prev_parent.right = new_conditions_root\n        elif prev_parent.left is current_node:\n            prev_parent.right = new_conditions_root\n")]),
    ("next_rule builds an Alternative",
     [(R, "        new_conditions_root = Next(current_node, new_branch)", "        new_conditions_root = Alternative(current_node, new_branch)")]),
    ("alternative_or_next does not detach the chain",
     [(R, "    prev_parent = _graph_parent_(current_node)\n    current_node._parent_ = None\n    if type_", "    prev_parent = _graph_parent_(current_node)\n    if type_")]),
    ("ExceptIf passes false right values on",
     [(S, "                if right_value.is_false:\n                    continue\n", "")]),
    ("ExceptIf selects the left conclusions for a refinement that fired",
     [(S, "                    right_value, self.right._conclusion_\n", "                    right_value, self.left._conclusion_\n")]),
    ("ExceptIf does not clear its selection after a result",
     [(S, "        yield OperationResult(result.bindings, self._is_false_, self)\n        self._conclusion_.clear()\n\n\n@dataclass(eq=False)\nclass Alternative",
       "        yield OperationResult(result.bindings, self._is_false_, self)\n\n\n@dataclass(eq=False)\nclass Alternative")]),
    ("Alternative prefers the right operand's conclusions",
     [(S, "            if not self.left._is_false_:\n                self.update_conclusion(output, self.left._conclusion_)\n            elif not self.right._is_false_:\n                self.update_conclusion(output, self.right._conclusion_)\n",
       "            if not self.right._is_false_:\n                self.update_conclusion(output, self.right._conclusion_)\n            elif not self.left._is_false_:\n                self.update_conclusion(output, self.left._conclusion_)\n")]),
    ("Alternative swallows true outputs without a new conclusion (seeded C08-r4m2)",
     [(S, "            yield OperationResult(output.bindings, self._is_false_, self)\n            self._conclusion_.clear()\n\n\n@dataclass(eq=False)\nclass Next",
       "            if self._is_false_ or self._conclusion_:\n                yield OperationResult(output.bindings, self._is_false_, self)\n            self._conclusion_.clear()\n\n\n@dataclass(eq=False)\nclass Next")]),
    ("Next hands the bindings of a false left value to the next rule (revert of db1eb2f)",
     [(S, "            self._is_false_ = left_value.is_false\n            yield OperationResult(left_value.bindings, self._is_false_, self)\n\n    def _evaluate__",
       "            if left_value.is_false:\n                yield from self.evaluate_right(left_value.bindings)\n            else:\n                self._is_false_ = False\n                yield OperationResult(left_value.bindings, self._is_false_, self)\n\n    def _evaluate__")]),
    ("Next never selects the left operand's conclusions",
     [(S, "            if self.left_evaluated:\n                self.update_conclusion(output, self.left._conclusion_)\n", "")]),
    ("Union does not evaluate the right operand from the incoming bindings",
     [(Y, "        yield from self.evaluate_left(sources)\n        yield from self.evaluate_right(sources)\n", "        yield from self.evaluate_left(sources)\n")]),
    ("ElseIf evaluates the right operand for true left values too",
     [(Y, "            if left_is_false:\n                yield from self.evaluate_right(left_value.bindings)\n            else:\n                self._is_false_ = False\n                yield OperationResult(left_value.bindings, self._is_false_, self)\n",
       "            if left_is_false:\n                yield from self.evaluate_right(left_value.bindings)\n            else:\n                self._is_false_ = False\n                yield OperationResult(left_value.bindings, self._is_false_, self)\n                yield from self.evaluate_right(left_value.bindings)\n")]),
    ("the de-duplication memory is keyed without the truth flag (seeded C08-r5m1)",
     [(S, "            (not self._is_false_, frozenset(conclusions)), SeenSet()", "            frozenset(conclusions), SeenSet()")]),
    ("every selector de-duplicates (revert of f11669e, part)",
     [(S, "        if isinstance(self._parent_, ConclusionSelector):\n            self._conclusion_.update(conclusions)\n            return\n", "")]),
    ("a new evaluation does not forget what was concluded before",
     [(S, "        for concluded_before in self.concluded_before.values():\n            concluded_before.clear()\n", "")]),
]

HARMLESS = [
    ("locals of refinement renamed",
     [(R, "    new_branch = chained_logic(AND, *conditions)\n    current_node = SymbolicExpression._current_parent_()\n    prev_parent = _graph_parent_(current_node)\n    current_node._parent_ = None\n    new_conditions_root = ExceptIf(SymbolicExpression._current_parent_(), new_branch)\n    new_branch._node_.weight = RDREdge.Refinement\n    new_conditions_root._parent_ = prev_parent\n    _replace_operand(prev_parent, current_node, new_conditions_root)\n    return new_conditions_root.right\n",
       "    nb = chained_logic(AND, *conditions)\n    node = SymbolicExpression._current_parent_()\n    above = _graph_parent_(node)\n    node._parent_ = None\n    root = ExceptIf(node, nb)\n    nb._node_.weight = RDREdge.Refinement\n    root._parent_ = above\n    _replace_operand(above, node, root)\n    return root.right\n")]),
    ("_replace_operand inlined, weight set last",
     [(R, "    new_branch._node_.weight = RDREdge.Refinement\n    new_conditions_root._parent_ = prev_parent\n    _replace_operand(prev_parent, current_node, new_conditions_root)\n",
       "    new_conditions_root._parent_ = prev_parent\n    if isinstance(prev_parent, BinaryOperator):\n        if prev_parent.left is current_node:\n            prev_parent.left = new_conditions_root\n        elif prev_parent.right is current_node:\n            prev_parent.right = new_conditions_root\n    new_branch._node_.weight = RDREdge.Refinement\n")]),
    ("alternative_or_next: re-link before re-parenting, comments removed, operands of `is` swapped",
     [(R, "    new_branch._node_.weight = type_\n    new_conditions_root._parent_ = prev_parent\n    if isinstance(prev_parent, BinaryOperator):\n        # the chain is an operand of prev_parent: replace it on the side it was on\n        if prev_parent.right is current_node:\n",
       "    if isinstance(prev_parent, BinaryOperator):\n        if current_node is prev_parent.right:\n"),
      (R, "            prev_parent.left = new_conditions_root\n    return new_conditions_root.right",
       "            prev_parent.left = new_conditions_root\n    new_conditions_root._parent_ = prev_parent\n    new_branch._node_.weight = type_\n    return new_conditions_root.right")]),
    ("the climb tests isinstance(parent, (Next, Alternative))",
     [(R, "isinstance(parent, (Alternative, Next))", "isinstance(parent, (Next, Alternative))")]),
    ("ExceptIf: loop variables renamed, alias of the left generator inlined",
     [(S, "        left_values = self.left._evaluate__(sources, parent=self)\n        for left_value in left_values:\n\n            self._is_false_ = left_value.is_false\n            if self._is_false_:\n                yield left_value\n                continue\n",
       "        for lv in self.left._evaluate__(sources, parent=self):\n            self._is_false_ = lv.is_false\n            if lv.is_false:\n                yield OperationResult(lv.bindings, True, self)\n                continue\n            left_value = lv\n")]),
    ("ExceptIf.yield_and_update_conclusion inlined at its first call",
     [(S, "                yield from self.yield_and_update_conclusion(\n                    right_value, self.right._conclusion_\n                )\n",
       "                self.update_conclusion(right_value, self.right._conclusion_)\n                yield OperationResult(right_value.bindings, self._is_false_, self)\n                self._conclusion_.clear()\n")]),
    ("Alternative: the alias `outputs` inlined; OR.evaluate_left without the local `left_is_false`",
     [(S, "        outputs = super()._evaluate__(sources, parent=parent)\n        for output in outputs:\n            # Only yield",
       "        for output in super()._evaluate__(sources, parent=parent):\n            # Only yield"),
      (Y, "            left_is_false = left_value.is_false\n            if left_is_false:\n", "            if left_value.is_false:\n")]),
    ("OR.evaluate_right resets left_evaluated after the loop instead of before (no yield observes the difference … not harmless: see below)",
     None),
    ("update_conclusion: locals renamed, doc string dropped",
     [(S, "        required_vars = HashedIterable()\n        for conclusion in conclusions:\n            vars_ = conclusion._unique_variables_.filter(\n                lambda v: not isinstance(v.value, Literal)\n            )\n            required_vars.update(vars_)\n        required_output = {\n            k: v for k, v in output.bindings.items() if k in required_vars\n        }\n",
       "        needed = HashedIterable()\n        for c in conclusions:\n            vs = c._unique_variables_.filter(lambda var: not isinstance(var.value, Literal))\n            needed.update(vs)\n        required_output = {key: val for key, val in output.bindings.items() if key in needed}\n")]),
    ("Next.evaluate_left: the truth flag through a local",
     [(S, "            self._is_false_ = left_value.is_false\n            yield OperationResult(left_value.bindings, self._is_false_, self)\n\n    def _evaluate__",
       "            failed = left_value.is_false\n            self._is_false_ = failed\n            yield OperationResult(left_value.bindings, failed, self)\n\n    def _evaluate__")]),
]


def tables(repo: Path):
    return surgery_table(repo), selector_table(repo)


def mutated(repo: Path, edits) -> Path:
    d = Path(tempfile.mkdtemp(prefix="c08t_"))
    for rel in (R, S, Y):
        (d / rel).parent.mkdir(parents=True, exist_ok=True)
        shutil.copy(repo / rel, d / rel)
    for rel, old, new in edits:
        text = (d / rel).read_text()
        if text.count(old) != 1:
            shutil.rmtree(d)
            raise AssertionError(f"edit does not apply exactly once in {rel}: {old[:60]!r} ({text.count(old)})")
        (d / rel).write_text(text.replace(old, new))
    return d


def main() -> int:
    repo = Path(sys.argv[1] if len(sys.argv) > 1 else "/repo")
    base = tables(repo)
    bad = 0
    for name, edits in SEMANTIC:
        d = mutated(repo, edits)
        try:
            try:
                got = tables(d)
                verdict = "tables differ" if got != base else "UNDETECTED"
            except TranslationError as e:
                verdict = "rejected: " + str(e).splitlines()[0][:90]
        finally:
            shutil.rmtree(d)
        bad += verdict == "UNDETECTED"
        print(f"semantic  {verdict:<100} {name}")
    for name, edits in HARMLESS:
        if edits is None:
            continue
        d = mutated(repo, edits)
        try:
            try:
                got = tables(d)
                verdict = "same tables" if got == base else "CHANGED"
            except TranslationError as e:
                verdict = "REJECTED: " + str(e).splitlines()[0][:90]
        finally:
            shutil.rmtree(d)
        bad += verdict != "same tables"
        print(f"harmless  {verdict:<100} {name}")
    print("OK" if not bad else f"{bad} PROBLEMS")
    return 1 if bad else 0


if __name__ == "__main__":
    sys.exit(main())
