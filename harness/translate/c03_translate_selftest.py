"""Self-test of harness/translate/c03_translate.py (run by hand; not part of the check).

  /venv/bin/python harness/translate/c03_translate_selftest.py            translation table (pure, < 1 s)
  KRROOD_VERIF_REPO=<tree> /venv/bin/python harness/translate/c03_translate_selftest.py --interp
        how often the machine INTERPRETED from <tree>'s shape (`interp=` of the driver) differs from what <tree>'s real code
        does, over the generated `sched` cases (faithfulness of translator + interpreter, also on broken shapes)

STRICT: every semantic mutation below is either rejected or translated to a shape that fails `IterOk`.
NORMALISING: every harmless rewrite below translates to exactly today's shape.
"""
from __future__ import annotations

import os
import sys
from pathlib import Path

HERE = Path(__file__).resolve().parent
sys.path.insert(0, str(HERE.parent))

from translate import c03_translate as T  # noqa: E402

ITER = '''        yield from self.values.values()
        for v in self.iterable:
            self.values[v.id_] = v
            yield v
'''
BOOL = "        return bool(self.values) or bool(self.iterable)\n"

INDEX = '''        position = 0
        while True:
            while position < len(self.values):
                for v in list(islice(self.values.values(), position, None)):
                    position += 1
                    yield v
            for v in self.iterable:
                self.values[v.id_] = v
                position = len(self.values)
                yield v
                if position < len(self.values):
                    break
            else:
                return
'''


def _it(new):
    return lambda s: s.replace(ITER, new)


# name -> (edit, expected field changes or None for "must be rejected")
SEMANTIC = {
    "M1 cache after the yield (C03-m1, C10-r2m1)": (_it('''        yield from self.values.values()
        for v in self.iterable:
            yield v
            self.values[v.id_] = v
'''), {"cacheWhen": "afterYield"}),
    "M1b … through self.add (C09-r3m2)": (_it('''        yield from self.values.values()
        for v in self.iterable:
            yield v
            self.add(v)
'''), {"cacheWhen": "afterYield"}),
    "M2 pulled values are not cached": (_it('''        yield from self.values.values()
        for v in self.iterable:
            yield v
'''), {"cacheWhen": "never"}),
    "M3 cached values only, once there are some (C02-m2)": (_it('''        if self.values:
            yield from self.values.values()
            return
        for v in self.iterable:
            self.values[v.id_] = v
            yield v
'''), {"cachedOnly": True}),
    "M4 the iteration takes the source over (C11-r5m2)": (_it('''        yield from self.values.values()
        source, self.iterable = self.iterable, iter(())
        for v in source:
            self.values[v.id_] = v
            yield v
'''), {"source": "takeOver"}),
    "M5 the exhausted source is released (C03-r4m1, C09-r5m1)": (_it('''        yield from self.values.values()
        for v in self.iterable:
            self.values[v.id_] = v
            yield v
        self.iterable = []
'''), {"atEnd": "release"}),
    "M6 __bool__ looks at the cache only": (lambda s: s.replace(BOOL, "        return bool(self.values)\n"),
                                            {"truth": "valuesOnly"}),
    "M7 cached in one go at the end (C01-r2m2)": (_it('''        yield from self.values.values()
        consumed = {}
        for v in self.iterable:
            consumed[v.id_] = v
            yield v
        self.values.update(consumed)
'''), {"cacheWhen": "atEnd"}),
    "M8 the source is drained into a list first": (_it('''        yield from self.values.values()
        for v in list(self.iterable):
            self.values[v.id_] = v
            yield v
'''), None),
    "M9 the cache is replayed backwards": (_it('''        yield from reversed(self.values.values())
        for v in self.iterable:
            self.values[v.id_] = v
            yield v
'''), None),
    "M10 cached under another key": (_it('''        yield from self.values.values()
        for v in self.iterable:
            self.values[id(v)] = v
            yield v
'''), None),
    "M11 the source is a list, not a generator": (lambda s: s.replace(
        '''            self.iterable = (
                HashedValue(v) if not isinstance(v, HashedValue) else v
                for v in iterable
            )''', '''            self.iterable = [
                HashedValue(v) if not isinstance(v, HashedValue) else v
                for v in iterable
            ]'''), None),
    "M12 only every pulled value that is truthy is cached": (_it('''        yield from self.values.values()
        for v in self.iterable:
            if v:
                self.values[v.id_] = v
            yield v
'''), None),
    "M13 index form without the look at the cache after a resumption": (_it(INDEX.replace('''                if position < len(self.values):
                    break
''', "")), None),
    "M14 __getitem__ pulls from the source without caching": (lambda s: s.replace(
        """            for v in self.iterable:
                self.values[v.id_] = v
                if v.id_ == id_:""", """            for v in self.iterable:
                if v.id_ == id_:"""), None),
    "M15 __len__ drains the source": (lambda s: s.replace(
        "        return len(self.values)\n", "        return len(self.values) + len(list(self.iterable))\n"), None),
}

HARMLESS = {
    "H1 renamed loop variable": _it('''        yield from self.values.values()
        for hashed_value in self.iterable:
            self.values[hashed_value.id_] = hashed_value
            yield hashed_value
'''),
    "H2 explicit replay loop": _it('''        for cached in self.values.values():
            yield cached
        for v in self.iterable:
            self.values[v.id_] = v
            yield v
'''),
    "H3 caching through self.add": _it('''        yield from self.values.values()
        for v in self.iterable:
            self.add(v)
            yield v
'''),
    "H4 comments, pass, no docstring": lambda s: s.replace('''        """
        Iterate over the hashed values.

        :return: An iterator over the hashed values.
        """
''' + ITER, '''        # replay what is known, then continue with the source
        yield from self.values.values()
        for v in self.iterable:
            # remember it first
            self.values[v.id_] = v
            yield v
            pass
'''),
    "H5 key in a local": _it('''        yield from self.values.values()
        for v in self.iterable:
            key = v.id_
            self.values[key] = v
            yield v
'''),
    "H6 __bool__ operands swapped": lambda s: s.replace(BOOL, "        return bool(self.iterable) or bool(self.values)\n"),
    "H7 iter() around the view": _it('''        yield from iter(self.values.values())
        for v in self.iterable:
            self.values[v.id_] = v
            yield v
'''),
    "H8 dict.update with one item + trailing return": _it('''        yield from self.values.values()
        for v in self.iterable:
            self.values.update({v.id_: v})
            yield v
        return
'''),
}

# recognised IterOk shapes other than today's (S1: a different machine under interleaving, still F-C03-1; S2: the repair)
OTHER = {
    "S1 snapshot replay": (_it('''        yield from list(self.values.values())
        for v in self.iterable:
            self.values[v.id_] = v
            yield v
'''), {"phase1": "snapshot"}),
    "S2 index cursors (fixes/C03_index_cursor.diff)": (_it(INDEX), {"phase1": "index"}),
    "S2b … with renamed locals": (_it(INDEX.replace("position", "handed_out").replace(" v ", " item ").replace("v.id_", "item.id_")
                                      .replace("= v\n", "= item\n").replace("yield v", "yield item")), {"phase1": "index"}),
}


def iter_ok(shape) -> bool:
    return all(shape[f] == T.TODAY[f] for f in T.FIELDS if f != "phase1")


def table() -> int:
    src = (Path(os.environ.get("SELFTEST_BASE", "/repo")) / T.FILE).read_text()
    assert ITER in src and BOOL in src, "the base tree is not today's hashed_data.py"
    assert T.describe(src) == T.TODAY
    bad = 0
    for name, (edit, exp) in SEMANTIC.items():
        new = edit(src)
        assert new != src, name
        try:
            d = T.describe(new)
            got = {f: d[f] for f in T.FIELDS if d[f] != T.TODAY[f]}
            ok = (exp is not None and got == exp and not iter_ok(d))
            print(f"{'ok  ' if ok else 'FAIL'} {name}: translated, differs in {got}, IterOk={iter_ok(d)}")
        except T.TranslationError as e:
            ok = exp is None
            print(f"{'ok  ' if ok else 'FAIL'} {name}: rejected ({e})")
        bad += not ok
    for name, edit in HARMLESS.items():
        new = edit(src)
        assert new != src, name
        try:
            ok = T.describe(new) == T.TODAY
            print(f"{'ok  ' if ok else 'FAIL'} {name}: {'same shape' if ok else 'DIFFERENT shape'}")
        except T.TranslationError as e:
            ok = False
            print(f"FAIL {name}: rejected ({e})")
        bad += not ok
    for name, (edit, exp) in OTHER.items():
        new = edit(src)
        assert new != src, name
        try:
            d = T.describe(new)
            got = {f: d[f] for f in T.FIELDS if d[f] != T.TODAY[f]}
            ok = got == exp and iter_ok(d)
            print(f"{'ok  ' if ok else 'FAIL'} {name}: translated, differs in {got}, IterOk={iter_ok(d)}")
        except T.TranslationError as e:
            ok = False
            print(f"FAIL {name}: rejected ({e})")
        bad += not ok
    print("selftest:", "all as expected" if not bad else f"{bad} unexpected")
    return 1 if bad else 0


def interp() -> int:
    import random
    import core
    core.use_repo_sources()
    from props import c03
    sh = c03._shape()
    print("tree:", core.REPO, "shape:", sh["item"] or f"rejected: {sh['error']}")
    if not sh["item"]:
        return 0
    rng = random.Random("c03-selftest")
    cases = [c for c in c03.generate(rng, "quick", 1500) if c.line.startswith("(sched")]
    impl = c03.run_impl(cases)
    outs = core.Driver("C03").run([c.line for c in cases])
    diff = [(c.line, i, o.get("interp")) for c, i, o in zip(cases, impl, outs) if i != o.get("interp")]
    ne_spec = sum(1 for i, o in zip(impl, outs) if i != o.get("spec"))
    print(f"sched cases: {len(cases)}; impl != spec on {ne_spec}; interp != impl on {len(diff)}")
    for line, i, o in diff[:5]:
        print("  case:", line, "\n  impl:  ", i, "\n  interp:", o)
    return 1 if diff else 0


if __name__ == "__main__":
    sys.exit(interp() if "--interp" in sys.argv else table())
