"""Translator (Python AST -> Lean 4) for the DECISION STRUCTURE of the desugaring in
`src/krrood/entity_query_language/match.py` — the second tie of C11 between the model and the code.

`Match._resolve` / `AttributeAssignment` turn a pattern into conditions by a handful of Boolean decisions. The
translator reads them off the CURRENT source as a first-order table (Model/MatchTable.lean, `Table`) and emits

    def Translated.table : Table := { … }
    theorem C11_table_translated_eq_model : Translated.table = Match.table := by decide
    theorem C11_table_translated_ok       : TableOk Translated.table        := by decide
    theorem C11_translated_meets_property : (C11_equiv_of_tableOk for Translated.table)

which the Lean kernel re-checks on every run. `desugar_eq_interp` (Props/C11T.lean) proves, once and unbounded, that the
table interpreter run on any `TableOk` table builds the very query the hand-written model `desugar Quirks.now` builds.

How a decision becomes rows: the Boolean expression (or the `if/elif/else` chain, with local aliases inlined) is
EVALUATED on every valuation of its atoms by a small abstract interpreter with Python's short-circuit semantics; the
rows are the truth table. So the table is a normal form: any rewriting that computes the same function of the atoms
(unrolling into early returns, De Morgan, reordering independent tests, renamed locals, extracted temporaries,
comments, docstrings) yields the same rows, and any change of the function changes some row. Rows of valuations that
cannot occur hold `false` (same class but not subclasses of each other; no kwargs but conditions).

  function                                                  field(s)           atoms
  entity_matching / entity_selection                        dispatch           argument is None | a class | truthy | falsy
  AttributeAssignment.is_an_unresolved_match                unresolved         isinstance(v, Match); v.variable
  AttributeAssignment.is_iterable_value                     iterVal            isinstance(v, Match); is_iterable(v); v.variable._is_iterable_
  AttributeAssignment.infer_condition_between_…             infer, exWrap      attr iterable; value iterable; isinstance(v, Match); v.universal; v.existential
  AttributeAssignment.resolve                               flatten,           attr iterable; not v.kwargs; is_type_filter_needed;
                                                            unconstrained,     not v.conditions; v.type_
                                                            emitHasType
  AttributeAssignment.is_type_filter_needed                 typeFilter         attr type; v.type_; same class; issubclass both ways
  Match._attribute_owner_type_                              owner              isinstance(type_, type); isinstance(variable type, type); issubclass
  Match._update_selected_variables                          selUp              (two recognised shapes: recursive to the root / direct parent)

STRICT: an atom evaluated where the real expression would raise (`issubclass` on `None`, `.universal` of a plain value),
an unknown expression, statement or effect, a `resolve` whose effects are not `_resolve(node, parent)`, optional
`conditions.append(HasType(SAME node, v.type_))`, `conditions.extend(v.conditions)` in this order, or a decision that
depends on an atom it must not depend on -> `TranslationError`. The functions that are glue (`Match._resolve`,
`_update_fields`, `expression`, `Select._resolve`, `assigned_variable`, `attr`, `match…`/`select…`, `__call__`) are
compared with their pinned text after normalisation (docstrings dropped, locals renamed in order of first binding,
a local used once in the next statement inlined); any other change there -> `TranslationError`. A rejected or changed
translation is never by itself a violation: the check then searches for a concrete failing input.
"""
from __future__ import annotations

import ast
import copy
import itertools
from pathlib import Path
from typing import Any, Callable, Dict, List, Optional, Tuple


class TranslationError(Exception):
    pass


# ------------------------------------------------------------------------------------------------ normalisation

def _strip_doc(body: List[ast.stmt]) -> List[ast.stmt]:
    return [s for s in body if not (isinstance(s, ast.Pass) or (isinstance(s, ast.Expr) and isinstance(s.value, ast.Constant)))]


class _Rename(ast.NodeTransformer):
    def __init__(self, keep):
        self.keep = set(keep)
        self.map: Dict[str, str] = {}

    def _n(self, name: str) -> str:
        if name in self.keep:
            return name
        if name not in self.map:
            self.map[name] = f"_v{len(self.map)}"
        return self.map[name]

    def visit_Name(self, node: ast.Name):
        if isinstance(node.ctx, ast.Store) or node.id in self.map:
            return ast.copy_location(ast.Name(self._n(node.id), node.ctx), node)
        return node

    def visit_arg(self, node: ast.arg):
        node.annotation = None
        return node


def _loads(stmts, name: str) -> int:
    return sum(1 for s in stmts for n in ast.walk(s) if isinstance(n, ast.Name) and n.id == name and isinstance(n.ctx, ast.Load))


class _Subst(ast.NodeTransformer):
    def __init__(self, name, value):
        self.name, self.value = name, value

    def visit_Name(self, node):
        if node.id == self.name and isinstance(node.ctx, ast.Load):
            return copy.deepcopy(self.value)
        return node


def _inline_once(body: List[ast.stmt]) -> List[ast.stmt]:
    """`x = e; S(x)` with x used exactly once, in the next statement (not a loop / try), and nowhere later"""
    out: List[ast.stmt] = []
    i = 0
    body = list(body)
    while i < len(body):
        s = body[i]
        for f in ("body", "orelse"):
            if hasattr(s, f) and isinstance(getattr(s, f), list) and not isinstance(s, (ast.FunctionDef, ast.ClassDef)):
                setattr(s, f, _inline_once(getattr(s, f)))
        if (isinstance(s, ast.Assign) and len(s.targets) == 1 and isinstance(s.targets[0], ast.Name)
                and i + 1 < len(body) and isinstance(body[i + 1], (ast.Expr, ast.Return, ast.Assign))
                and _loads([body[i + 1]], s.targets[0].id) == 1 and _loads(body[i + 2:], s.targets[0].id) == 0):
            body[i + 1] = ast.fix_missing_locations(_Subst(s.targets[0].id, s.value).visit(body[i + 1]))
            i += 1
            continue
        out.append(s)
        i += 1
    return out


def _canon(fn: ast.FunctionDef) -> str:
    fn = copy.deepcopy(fn)
    fn.returns = None
    fn.body = _inline_once(_strip_doc(fn.body))
    for n in ast.walk(fn):
        if hasattr(n, "body") and isinstance(getattr(n, "body"), list) and n is not fn:
            n.body = _strip_doc(n.body) or [ast.Pass()]
    params = [a.arg for a in fn.args.args + fn.args.kwonlyargs] + ([fn.args.kwarg.arg] if fn.args.kwarg else [])
    _Rename(params).visit(fn)
    for n in ast.walk(fn):
        if isinstance(n, ast.AnnAssign):
            n.annotation = ast.Constant(None)
    return ast.unparse(ast.fix_missing_locations(fn))


# the glue functions as pinned (compared after normalisation)
PINNED = '''
class Match:
    def __call__(self, **kwargs):
        self.kwargs = kwargs
        return self

    def _resolve(self, variable=None, parent=None):
        self._update_fields(variable, parent)
        for attr_name, attr_assigned_value in self.kwargs.items():
            attr_assignment = AttributeAssignment(
                attr_name, self.variable, attr_assigned_value, self._attribute_owner_type_)
            if isinstance(attr_assigned_value, Select):
                self._update_selected_variables(attr_assignment.attr)
                attr_assigned_value._var_ = attr_assignment.attr
            if attr_assignment.is_an_unresolved_match:
                attr_assignment.resolve(self)
                self.conditions.extend(attr_assignment.conditions)
            else:
                condition = attr_assignment.infer_condition_between_attribute_and_assigned_value()
                self.conditions.append(condition)

    def _update_fields(self, variable=None, parent=None):
        if variable is not None:
            self.variable = variable
        elif self.variable is None:
            self.variable = let(self.type_, self.domain)
        self.parent = parent
        if self.is_selected:
            self._update_selected_variables(self.variable)
        if not self.type_:
            self.type_ = self.variable._type_

    @cached_property
    def expression(self):
        self._resolve()
        if len(self.selected_variables) > 1:
            return set_of(self.selected_variables, *self.conditions)
        else:
            if not self.selected_variables:
                self.selected_variables.append(self.variable)
            return entity(self.selected_variables[0], *self.conditions)

class AttributeAssignment:
    @cached_property
    def assigned_variable(self):
        return self.assigned_value.variable if isinstance(self.assigned_value, Match) else self.assigned_value

    @cached_property
    def attr(self):
        if self.owner_type is None or self.owner_type is self.variable._type_:
            attr: Attribute = getattr(self.variable, self.attr_name)
        else:
            attr = Attribute(self.variable, self.attr_name, self.owner_type)
        if not attr._wrapped_field_:
            raise NoneWrappedFieldError(self.owner_type or self.variable._type_, self.attr_name)
        return attr

class Select:
    def _resolve(self, variable=None, parent=None):
        super()._resolve(variable, parent)
        variable = variable or self.variable
        if not self._var_:
            self._var_ = variable

def match(type_=None):
    return entity_matching(type_, None)

def match_any(type_=None):
    match_ = match(type_)
    match_.existential = True
    return match_

def match_all(type_=None):
    match_ = match(type_)
    match_.universal = True
    return match_

def select(type_=None):
    return entity_selection(type_, None)

def select_any(type_=None):
    select_ = select(type_)
    select_.existential = True
    return select_

def select_all(type_=None):
    select_ = select(type_)
    select_.universal = True
    return select_
'''

SEL_ROOT = '''
def _update_selected_variables(self, variable):
    if self.parent:
        self.parent._update_selected_variables(variable)
    elif hash(variable) not in map(hash, self.selected_variables):
        self.selected_variables.append(variable)
'''
SEL_PARENT = '''
def _update_selected_variables(self, variable):
    root = self.parent if self.parent else self
    if hash(variable) not in map(hash, root.selected_variables):
        root.selected_variables.append(variable)
'''


def _functions(tree: ast.Module) -> Dict[str, ast.FunctionDef]:
    out: Dict[str, ast.FunctionDef] = {}
    for n in tree.body:
        if isinstance(n, ast.FunctionDef):
            out[n.name] = n
        elif isinstance(n, ast.ClassDef):
            for m in n.body:
                if isinstance(m, ast.FunctionDef):
                    key = f"{n.name}.{m.name}"
                    if key in out:
                        raise TranslationError(f"{key} defined twice")
                    out[key] = m
    return out


def _decorators(fn: ast.FunctionDef) -> List[str]:
    return [ast.unparse(d) for d in fn.decorator_list]


# ------------------------------------------------------------------------------------------------ abstract evaluation

class Poison(Exception):
    """the real expression would raise here (or is not defined for this valuation)"""


class _Eval:
    """evaluates tests over atoms given by the canonical text of sub-expressions; local aliases are inlined"""

    def __init__(self, atoms: Dict[str, Callable[[Dict[str, bool]], bool]], val: Dict[str, bool],
                 token: Optional[Callable[[ast.expr, "_Eval"], Any]] = None):
        self.atoms, self.val, self.token = atoms, val, token
        self.env: Dict[str, Any] = {}

    def text(self, e: ast.expr) -> str:
        e = copy.deepcopy(e)

        class S(ast.NodeTransformer):
            def visit_Name(s, node):  # noqa: N805
                v = self.env.get(node.id)
                if isinstance(node.ctx, ast.Load) and isinstance(v, ast.AST):
                    return copy.deepcopy(v)
                return node
        return ast.unparse(ast.fix_missing_locations(S().visit(e)))

    def truth(self, e: ast.expr) -> bool:
        v = self.value(e)
        if isinstance(v, bool):
            return v
        raise TranslationError(f"not a Boolean decision: {ast.unparse(e)}")

    def value(self, e: ast.expr) -> Any:
        if isinstance(e, ast.Constant) and (e.value is True or e.value is False):
            return e.value
        if isinstance(e, ast.BoolOp):
            if isinstance(e.op, ast.And):
                return all(self.truth(v) for v in e.values)  # generator: short-circuit
            return any(self.truth(v) for v in e.values)
        if isinstance(e, ast.UnaryOp) and isinstance(e.op, ast.Not):
            return not self.truth(e.operand)
        if isinstance(e, ast.IfExp):
            return self.value(e.body) if self.truth(e.test) else self.value(e.orelse)
        if isinstance(e, ast.Name) and e.id in self.env and not isinstance(self.env[e.id], ast.AST):
            return self.env[e.id]
        if isinstance(e, ast.Compare) and len(e.ops) == 1 and isinstance(e.ops[0], (ast.Is, ast.IsNot, ast.Eq, ast.NotEq)):
            a, b = sorted([self.text(e.left), self.text(e.comparators[0])])
            key = f"{a} is {b}"
            if key in self.atoms:
                r = self.atoms[key](self.val)
                return r if isinstance(e.ops[0], (ast.Is, ast.Eq)) else not r
        t = self.text(e)
        if t in self.atoms:
            return self.atoms[t](self.val)
        if self.token is not None:
            tok = self.token(e, self)
            if tok is not None:
                return tok
        raise TranslationError(f"unsupported expression: {t}")

    def assign(self, s: ast.Assign):
        if len(s.targets) != 1 or not isinstance(s.targets[0], ast.Name):
            raise TranslationError(f"unsupported assignment: {ast.unparse(s)}")
        name, v = s.targets[0].id, s.value
        if isinstance(v, (ast.Name, ast.Attribute)) and self.text(v) not in self.atoms and not (
                isinstance(v, ast.Name) and v.id in self.env and not isinstance(self.env[v.id], ast.AST)):
            self.env[name] = ast.parse(self.text(v), mode="eval").body  # a plain alias: inlined (never evaluated here)
            return
        if isinstance(v, (ast.Name, ast.Attribute)) and self.text(v) in self.atoms:
            # alias of an atom: keep it symbolic so that `x is y` and truthiness both work
            self.env[name] = ast.parse(self.text(v), mode="eval").body
            return
        self.env[name] = self.value(v)

    def run(self, body: List[ast.stmt]) -> Any:
        """returns the returned value, or `_Eval.FALLTHROUGH`"""
        for s in _strip_doc(body):
            if isinstance(s, ast.Assign):
                self.assign(s)
            elif isinstance(s, ast.AnnAssign) and s.value is not None and isinstance(s.target, ast.Name):
                self.assign(ast.Assign([s.target], s.value))
            elif isinstance(s, ast.If):
                r = self.run(s.body) if self.truth(s.test) else self.run(s.orelse)
                if r is not _Eval.FALLTHROUGH:
                    return r
            elif isinstance(s, ast.Return):
                if s.value is None:
                    raise TranslationError("bare return")
                return self.value(s.value)
            elif isinstance(s, ast.Expr) and self.token is not None:
                tok = self.token(s.value, self)
                if tok is None:
                    raise TranslationError(f"unsupported statement: {ast.unparse(s)}")
            else:
                raise TranslationError(f"unsupported statement: {ast.unparse(s)}")
        return _Eval.FALLTHROUGH

    FALLTHROUGH = object()


def _valuations(names: List[str]):
    for bits in itertools.product([False, True], repeat=len(names)):
        yield dict(zip(names, bits))


def _need(cond: bool, what: str):
    if not cond:
        raise Poison(what)


def _rows(fn: ast.FunctionDef, names: List[str], atoms, token=None, post=None) -> List[Any]:
    rows = []
    for val in _valuations(names):
        ev = _Eval(atoms, val, token)
        try:
            r = ev.run(fn.body)
        except Poison as p:
            raise TranslationError(f"{fn.name}: for {val} the source evaluates an expression that raises ({p})")
        if r is _Eval.FALLTHROUGH:
            raise TranslationError(f"{fn.name}: no value returned for {val}")
        rows.append(post(r, val, ev) if post else r)
    return rows


def _bool_rows(fn, names, atoms) -> List[bool]:
    rows = _rows(fn, names, atoms)
    if not all(isinstance(r, bool) for r in rows):
        raise TranslationError(f"{fn.name} does not return a Boolean decision")
    return rows


# ------------------------------------------------------------------------------------------------ the decisions

V = "self.assigned_value"


def _is_match(v):
    return v["isMatch"]


def t_unresolved(fn) -> List[bool]:
    def has_var(v):
        _need(v["isMatch"], "`.variable` of a value that is not a Match")
        return v["hasVar"]
    return _bool_rows(fn, ["isMatch", "hasVar"], {f"isinstance({V}, Match)": _is_match, f"{V}.variable": has_var})


def t_iter_val(fn) -> List[bool]:
    def var_iter(v):
        _need(v["isMatch"], "`.variable` of a value that is not a Match")
        return v["varIter"]

    def py_iter(v):
        return v["pyIter"]

    def own_iter(v):
        raise Poison("`._is_iterable_` of a value that is not a variable")
    return _bool_rows(fn, ["isMatch", "pyIter", "varIter"], {
        f"isinstance({V}, CanBehaveLikeAVariable)": lambda v: False,
        f"isinstance({V}, Match)": _is_match, f"is_iterable({V})": py_iter,
        f"{V}.variable._is_iterable_": var_iter, f"{V}._is_iterable_": own_iter})


COMPARATORS = {
    "contains(self.attr, self.assigned_variable)": "litIn",
    "in_(self.attr, self.assigned_variable)": "inLit",
    "contains(self.assigned_variable, flatten(self.attr))": "inLitFlat",
    "self.attr == self.assigned_variable": "eq",
}


def t_infer(fn) -> Tuple[List[str], List[bool]]:
    def flag(name):
        def f(v):
            _need(v["isMatch"], f"`.{name}` of a value that is not a Match")
            return v[name]
        return f

    def token(e, ev):
        t = ev.text(e)
        if t in COMPARATORS:
            return ("cmp", COMPARATORS[t])
        if isinstance(e, ast.Call) and ast.unparse(e.func) == "exists" and len(e.args) == 2 and not e.keywords \
                and ev.text(e.args[0]) == "self.attr":
            inner = ev.value(e.args[1])
            if isinstance(inner, tuple) and inner[0] == "cmp":
                return ("ex", inner[1])
        return None
    names = ["attrIter", "valIter", "isMatch", "universal", "existential"]
    atoms = {"self.attr._is_iterable_": lambda v: v["attrIter"], "self.is_iterable_value": lambda v: v["valIter"],
             f"isinstance({V}, Match)": _is_match, f"{V}.universal": flag("universal"),
             f"{V}.existential": flag("existential")}
    rows = _rows(fn, names, atoms, token)
    infer: Dict[tuple, str] = {}
    wrap: Dict[tuple, bool] = {}
    for val, r in zip(_valuations(names), rows):
        if not (isinstance(r, tuple) and r[0] in ("cmp", "ex")):
            raise TranslationError(f"infer_condition… returns something that is not a comparator / exists for {val}")
        k1 = (val["attrIter"], val["valIter"], val["isMatch"], val["universal"])
        k2 = (val["isMatch"], val["existential"])
        if infer.setdefault(k1, r[1]) != r[1]:
            raise TranslationError("the comparator depends on the existential flag")
        if wrap.setdefault(k2, r[0] == "ex") != (r[0] == "ex"):
            raise TranslationError("the `exists` wrapper depends on more than (is a Match, existential)")
    return ([infer[k] for k in itertools.product([False, True], repeat=4)],
            [wrap[k] for k in itertools.product([False, True], repeat=2)])


def t_type_filter(fn) -> List[bool]:
    A, M = "self.attr._type_", f"{V}.type_"

    def sub(which):
        def f(v):
            _need(v["A"] and v["M"], "issubclass on a type that is None")
            return v[which]
        return f
    names = ["A", "M", "same", "subMA", "subAM"]
    rows = _bool_rows(fn, names, {A: lambda v: v["A"], M: lambda v: v["M"],
                                  " is ".join(sorted([A, M])): lambda v: v["same"],
                                  f"issubclass({M}, {A})": sub("subMA"), f"issubclass({A}, {M})": sub("subAM")})
    return [False if (v["same"] and not (v["subMA"] and v["subAM"])) else r for v, r in zip(_valuations(names), rows)]


def t_owner(fn) -> List[bool]:
    T, VT = "self.type_", "self.variable._type_"

    def sub(v):
        _need(v["t1"] and v["t2"], "issubclass on something that is not a class")
        return v["sub"]

    def token(e, ev):
        t = ev.text(e)
        return ("ret", True) if t == T else ("ret", False) if t == VT else None
    rows = _rows(fn, ["t1", "t2", "sub"], {f"isinstance({T}, type)": lambda v: v["t1"],
                                          f"isinstance({VT}, type)": lambda v: v["t2"],
                                          f"issubclass({T}, {VT})": sub}, token)
    if not all(isinstance(r, tuple) and r[0] == "ret" for r in rows):
        raise TranslationError("_attribute_owner_type_ returns something else than the matched / the variable's type")
    return [r[1] for r in rows]


def t_dispatch(fn, cls_name: str) -> List[str]:
    kinds = [("none", dict(isNone=True, isType=False, truthy=False)), ("class", dict(isNone=False, isType=True, truthy=True)),
             ("truthy", dict(isNone=False, isType=False, truthy=True)), ("falsy", dict(isNone=False, isType=False, truthy=False))]
    if [a.arg for a in fn.args.args] != ["type_", "domain"]:
        raise TranslationError(f"{fn.name}: signature changed")

    def token(e, ev):
        t = ev.text(e)
        return {f"{cls_name}(type_, domain=domain)": ("d", "unresolved"),
                f"{cls_name}(type_, domain=domain, variable=Literal(type_))": ("d", "overLiteral"),
                f"{cls_name}(type_._type_, domain=domain, variable=type_)": ("d", "overVariable")}.get(t)
    atoms = {"isinstance(type_, CanBehaveLikeAVariable)": lambda v: v["isVar"], "None is type_": lambda v: v["isNone"],
             "isinstance(type_, type)": lambda v: v["isType"], "type_": lambda v: v["truthy"]}
    out = []
    for _k, val in kinds:
        r = _Eval(atoms, dict(val, isVar=False), token).run(fn.body)
        if not (isinstance(r, tuple) and r[0] == "d" and r[1] in ("unresolved", "overLiteral")):
            raise TranslationError(f"{fn.name}: unexpected result for a {_k} argument")
        out.append(r[1])
    r = _Eval(atoms, dict(isVar=True, isNone=False, isType=False, truthy=True), token).run(fn.body)
    if r != ("d", "overVariable"):
        raise TranslationError(f"{fn.name}: a variable argument is no longer matched over that variable")
    return out


def t_resolve(fn) -> Tuple[List[bool], List[bool], List[bool]]:
    """abstract execution of `AttributeAssignment.resolve`: effects per valuation"""
    if [a.arg for a in fn.args.args] != ["self", "parent_match"]:
        raise TranslationError("resolve: signature changed")
    names = ["attrIter", "kwEmpty", "need", "condsEmpty", "typeTruthy"]
    results = {}
    for val in _valuations(names):
        events: List[tuple] = []
        fresh = itertools.count()

        def token(e, ev, events=events, fresh=fresh):
            t = ev.text(e)
            if t == "self.attr":
                return ("node", "attr")
            if t == "flatten(self.attr)":
                return ("node", f"flat{next(fresh)}")
            if isinstance(e, ast.Call) and not e.keywords:
                f = ev.text(e.func)
                if f == f"{V}._resolve" and len(e.args) == 2 and ev.text(e.args[1]) == "parent_match":
                    n = ev.value(e.args[0])
                    if isinstance(n, tuple) and n[0] == "node":
                        events.append(("resolve", n[1]))
                        return ("effect",)
                if f == "self.conditions.append" and len(e.args) == 1:
                    h = e.args[0]
                    if (isinstance(h, ast.Call) and ast.unparse(h.func) == "HasType" and len(h.args) == 2
                            and not h.keywords and ev.text(h.args[1]) == f"{V}.type_"):
                        n = ev.value(h.args[0])
                        if isinstance(n, tuple) and n[0] == "node":
                            events.append(("hasType", n[1]))
                            return ("effect",)
                if f == "self.conditions.extend" and len(e.args) == 1 and ev.text(e.args[0]) == f"{V}.conditions":
                    events.append(("extend",))
                    return ("effect",)
            return None

        def conds(v, events=events):
            _need(any(x[0] == "resolve" for x in events), "the conditions of the nested match are read before it is resolved")
            return not v["condsEmpty"]
        atoms = {"self.attr._is_iterable_": lambda v: v["attrIter"], f"{V}.kwargs": lambda v: not v["kwEmpty"],
                 "self.is_type_filter_needed": lambda v: v["need"], f"{V}.conditions": conds,
                 f"{V}.type_": lambda v: v["typeTruthy"]}
        ev = _Eval(atoms, val, token)
        try:
            r = ev.run(fn.body)
        except Poison as p:
            raise TranslationError(f"resolve: {p}")
        if r is not _Eval.FALLTHROUGH:
            raise TranslationError("resolve returns a value")
        kinds = [x[0] for x in events]
        if kinds not in (["resolve", "extend"], ["resolve", "hasType", "extend"]):
            raise TranslationError(f"resolve: unexpected effects {kinds} for {val}")
        node = events[0][1]
        if len(events) == 3 and events[1][1] != node:
            raise TranslationError("resolve: the type filter is put on another node than the nested match's variable")
        results[tuple(val[n] for n in names)] = (node != "attr", len(events) == 3)
    B = [False, True]
    flatten = []
    for a, k, n in itertools.product(B, B, B):
        vs = {results[(a, k, n, c, t)][0] for c in B for t in B}
        if len(vs) != 1:
            raise TranslationError("resolve: flattening depends on what is only known after the nested match is resolved")
        flatten.append(vs.pop())
    possible = [(a, k, n, c, t) for a, k, n, c, t in itertools.product(B, B, B, B, B) if not (k and not c)]
    # E(a,k,n,c,t) = emit(n, U(a,c,k,t)),  U := E at need = False
    U = {(a, c, k, t): results[(a, k, False, c, t)][1] for a, k, n, c, t in possible}
    unconstrained = [U.get((a, c, k, t), False) for a, c, k, t in itertools.product(B, B, B, B)]
    emit: Dict[tuple, bool] = {}
    for a, k, n, c, t in possible:
        key = (n, U[(a, c, k, t)])
        if emit.setdefault(key, results[(a, k, n, c, t)][1]) != results[(a, k, n, c, t)][1]:
            raise TranslationError("resolve: the type-filter decision is not a function of (filter needed, element unconstrained)")
    return flatten, unconstrained, [emit.get((n, u), True) for n, u in itertools.product(B, B)]


def table_of(source: str) -> Dict[str, Any]:
    tree = ast.parse(source)
    fns = _functions(tree)
    pinned = _functions(ast.parse(PINNED))

    def get(name, decos=None):
        if name not in fns:
            raise TranslationError(f"{name} not found")
        if decos is not None and _decorators(fns[name]) not in decos:
            raise TranslationError(f"{name}: decorators changed to {_decorators(fns[name])}")
        return fns[name]
    prop = [["property"], ["cached_property"]]
    for name, ref in pinned.items():
        fn = get(name, [_decorators(ref)])
        if _canon(fn) != _canon(ref):
            raise TranslationError(f"{name} changed:\n{_canon(fn)}")
    upd = _canon(get("Match._update_selected_variables", [[]]))
    if upd == _canon(ast.parse(SEL_ROOT).body[0]):
        sel_up = "root"
    elif upd == _canon(ast.parse(SEL_PARENT).body[0]):
        sel_up = "parent"
    else:
        raise TranslationError(f"Match._update_selected_variables changed:\n{upd}")
    if "Select._update_selected_variables" in fns or "Select._update_fields" in fns or "Select.expression" in fns:
        raise TranslationError("Select overrides part of the desugaring")
    for c in tree.body:
        if isinstance(c, ast.ClassDef) and c.name == "Select" and [ast.unparse(b) for b in c.bases] != ["Match[T]", "Selectable[T]"]:
            raise TranslationError("bases of Select changed")
    d1 = t_dispatch(get("entity_matching", [[]]), "Match")
    d2 = t_dispatch(get("entity_selection", [[]]), "Select")
    if d1 != d2:
        raise TranslationError("entity_matching and entity_selection dispatch differently")
    infer, ex_wrap = t_infer(get("AttributeAssignment.infer_condition_between_attribute_and_assigned_value", [[]]))
    flatten, unconstrained, emit = t_resolve(get("AttributeAssignment.resolve", [[]]))
    return {
        "dispatch": d1,
        "unresolved": t_unresolved(get("AttributeAssignment.is_an_unresolved_match", prop)),
        "iterVal": t_iter_val(get("AttributeAssignment.is_iterable_value", prop)),
        "infer": infer, "exWrap": ex_wrap, "flatten": flatten,
        "typeFilter": t_type_filter(get("AttributeAssignment.is_type_filter_needed", prop)),
        "unconstrained": unconstrained, "emitHasType": emit,
        "owner": t_owner(get("Match._attribute_owner_type_", prop)),
        "selUp": sel_up,
    }


# ------------------------------------------------------------------------------------------------ Lean

def _l(xs) -> str:
    def one(x):
        return ("true" if x else "false") if isinstance(x, bool) else "." + x
    return "[" + ", ".join(one(x) for x in xs) + "]"


def lean_of(t: Dict[str, Any]) -> str:
    fields = "\n".join(f"  {k} := {_l(t[k])}" for k in
                       ["dispatch", "unresolved", "iterVal", "infer", "exWrap", "flatten", "typeFilter", "unconstrained",
                        "emitHasType", "owner"])
    return f"""import KrroodVerif.Props.C11T
/-! GENERATED by harness/translate/c11_translate.py from src/krrood/entity_query_language/match.py — do not edit -/
namespace KrroodVerif.Match.Translated
open KrroodVerif.Eql KrroodVerif.Match

/-- the decision table read off the current source of `match.py` -/
def table : Table where
{fields}
  selUp := .{t['selUp']}

/-- the decisions of the current source are those of the model (`desugar_eq_interp_table`: the interpreter run on the
model's table IS the hand-written `desugar Quirks.now` that all C11 theorems are about) -/
theorem C11_table_translated_eq_model : table = Match.table := by decide

/-- every row the interpreter can reach holds the decision the proofs rely on -/
theorem C11_table_translated_ok : TableOk table := by decide

/-- hence the property, on the fragment of `C11_equiv_partial`, for the desugaring run on the regenerated table -/
theorem C11_translated_meets_property (w : World) (s : Schema) (dom : List Val) (T : Nat) (rootSel : Bool)
    (as : Assigns) (hinh : schemaInheritsB s w.subclass = true) (hconf : conformsB w s = true)
    (hwf : (Pat.mk (some T) rootSel as).wf s w.subclass = true)
    (hclean : triggers w s (.mk (some T) rootSel as) = []) (hnosel : as.nSel = 0) :
    ∃ rows, runWith table w Quirks.now s dom (.mk (some T) rootSel as) = some rows ∧
      ∀ r, r ∈ rows ↔ ∃ x ∈ dom, r = [x] ∧ matchesPat w (.mk (some T) rootSel as) x = true :=
  C11_equiv_of_tableOk table C11_table_translated_ok w s dom T rootSel as hinh hconf hwf hclean hnosel
end KrroodVerif.Match.Translated
"""


def translate(source: str) -> str:
    return lean_of(table_of(source))


def generate(repo: Path) -> str:
    return translate((Path(repo) / "src/krrood/entity_query_language/match.py").read_text())


if __name__ == "__main__":
    import sys
    print(generate(Path(sys.argv[1] if len(sys.argv) > 1 else "/repo")))
