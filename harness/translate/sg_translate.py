"""Translator (Python AST -> Lean 4 tables) for the short registry methods of `SymbolGraph`
(`src/krrood/entity_query_language/symbol_graph.py`: `add_node`, `remove_node`, `remove_dead_instances`,
`get_instances_of_type`, `get_wrapped_instance` + `ensure_wrapped_instance`, `clear`) and `recursive_subclasses`
(`src/krrood/utils.py`) — the second tie between M-SG (`Model/SymbolGraph.lean`) and the code, shared by C13, C14, C20.

Each method becomes a list of container operations (`Instr`, `Model/SymbolGraphTable.lean`): one instruction per Python
statement / loop header / filter. `Props/C13Table.lean` proves once that the interpreters run on the hand-written table
`SG.table` are the model functions; the check regenerates the table from the CURRENT source on every run and the kernel
re-checks `Translated.table = SG.table`.

STRICT: every statement of a translated body must have one of the shapes below (docstrings and `pass` are skipped);
anything else, a missing / duplicated / decorated function or a changed parameter list -> `TranslationError` (the check
then reports the obligation as broken and searches for a concrete failing input).

NORMALISING (each the identity for every input): parameter, local and loop-variable names (statements are recognised
by shape and by the ROLE of the variables); comments, docstrings, line breaks; a local alias of a pure expression
(`index = w.index`, `subs = cls.__subclasses__()`, `subclasses = a + b`) is inlined; statements of `add_node` /
`remove_node` that touch different containers are emitted in a canonical order — except that the purge of the relation
index reads the graph's edges and therefore stays before/after `remove_node(index)` as in the source; the never-read
`w._symbol_graph_ = self` is dropped; `in_edges + out_edges` in either order; generator expression or explicit loops in
`get_instances_of_type`; `if c: continue` or `if not c:` around the rest of a loop body.
NOT normalised on purpose: the order of the two parts of `recursive_subclasses` and of `[type_] + recursive_subclasses(..)`
— it is the order in which a lazily consumed evaluation walks the classes, observable through F-C13-3 (found by an
end-to-end run of a rewrite first believed harmless: notes/build_reports/c13_build.md).
"""
from __future__ import annotations

import ast
import copy
from pathlib import Path
from typing import Dict, List, Optional

SG_PATH = "src/krrood/entity_query_language/symbol_graph.py"
UTILS_PATH = "src/krrood/utils.py"
FIELDS = ["addNode", "removeNode", "sweep", "getInstances", "ensure", "clear", "recSubs"]


class TranslationError(Exception):
    pass


def _u(n: ast.AST) -> str:
    return ast.unparse(n)


def _skippable(s: ast.stmt) -> bool:
    return isinstance(s, ast.Pass) or (isinstance(s, ast.Expr) and isinstance(s.value, ast.Constant))


class _Ren(ast.NodeTransformer):
    def __init__(self, table: Dict[str, ast.AST]):
        self.table = table

    def visit_Name(self, node: ast.Name):
        if node.id in self.table and isinstance(node.ctx, ast.Load):
            return copy.deepcopy(self.table[node.id])
        return node


def _subst(node: ast.AST, table: Dict[str, ast.AST]) -> ast.AST:
    return ast.fix_missing_locations(_Ren(table).visit(copy.deepcopy(node))) if table else node


def _names(table: Dict[str, str]) -> Dict[str, ast.AST]:
    return {k: ast.Name(id=v, ctx=ast.Load()) for k, v in table.items()}


def _function(body: List[ast.stmt], name: str, params: int, where: str) -> ast.FunctionDef:
    fns = [f for f in body if isinstance(f, (ast.FunctionDef, ast.AsyncFunctionDef)) and f.name == name]
    if len(fns) != 1 or not isinstance(fns[0], ast.FunctionDef):
        raise TranslationError(f"{where}{name}: not found, defined twice or async")
    fn = fns[0]
    a = fn.args
    if fn.decorator_list or len(a.args) != params or a.vararg or a.kwarg or a.kwonlyargs or a.posonlyargs or a.defaults:
        raise TranslationError(f"{where}{name}: decorators or parameter list changed: ({_u(a)})")
    return fn


def _canon(fn: ast.FunctionDef, roles: List[str]) -> List[ast.stmt]:
    """body without docstrings/pass, parameters renamed to their roles"""
    table = _names({a.arg: r for a, r in zip(fn.args.args, roles)})
    out = [_subst(s, table) for s in fn.body if not _skippable(s)]
    for s in out:
        for n in ast.walk(s):
            if isinstance(n, ast.Name) and isinstance(n.ctx, ast.Store) and n.id in roles:
                raise TranslationError(f"{fn.name}: parameter {n.id} is re-bound")
            if isinstance(n, (ast.Global, ast.Nonlocal, ast.Lambda, ast.FunctionDef, ast.ClassDef, ast.Try, ast.With)):
                raise TranslationError(f"{fn.name}: unsupported construct {type(n).__name__}")
    return out


def _inline_aliases(fname: str, stmts: List[ast.stmt], pure) -> List[ast.stmt]:
    """drop `x = <pure expression>` (x assigned once, never a parameter) and substitute it afterwards"""
    table: Dict[str, ast.AST] = {}
    out = []
    for s in stmts:
        s = _subst(s, table)
        if isinstance(s, ast.Assign) and len(s.targets) == 1 and isinstance(s.targets[0], ast.Name) and pure(s.value):
            name = s.targets[0].id
            if name in table:
                raise TranslationError(f"{fname}: local {name} assigned twice")
            table[name] = s.value
            continue
        for n in ast.walk(s):
            if isinstance(n, ast.Name) and isinstance(n.ctx, ast.Store) and n.id in table:
                raise TranslationError(f"{fname}: local {n.id} assigned twice")
        out.append(s)
    return out


def _attr_chain(e: ast.AST) -> bool:
    return isinstance(e, ast.Name) or (isinstance(e, ast.Attribute) and _attr_chain(e.value))


def _key(fname: str, e: ast.AST) -> str:
    k = {"id(W.instance)": ".idOfInstance", "W.instance_id": ".storedId"}.get(_u(e))
    if k is None:
        raise TranslationError(f"{fname}: unsupported _instance_index key {_u(e)}")
    return k


def _order(fname: str, ops: List[str], rank: List[str], conflicts) -> List[str]:
    heads = [o.split()[0] for o in ops]
    if len(set(heads)) != len(heads):
        raise TranslationError(f"{fname}: a container operation occurs twice: {ops}")
    out, rest = [], list(ops)
    while rest:
        ok = [o for i, o in enumerate(rest)
              if not any((p.split()[0], o.split()[0]) in conflicts or (o.split()[0], p.split()[0]) in conflicts for p in rest[:i])]
        nxt = min(ok, key=lambda o: rank.index(o.split()[0]))
        out.append(nxt)
        rest.remove(nxt)
    return out


# ------------------------------------------------------------------------------------------------- add_node
def _add_node(fn) -> List[str]:
    ops = []
    for s in _canon(fn, ["self", "W"]):
        t = _u(s)
        if t == "W.index = self._instance_graph.add_node(W)":
            ops.append(".graphAddNode")
        elif t == "W._symbol_graph_ = self":
            continue
        elif (isinstance(s, ast.Assign) and len(s.targets) == 1 and isinstance(s.targets[0], ast.Subscript)
              and _u(s.targets[0].value) == "self._instance_index" and _u(s.value) == "W"):
            ops.append(".indexSet " + _key("add_node", s.targets[0].slice))
        elif t == "self._class_to_wrapped_instances[W.instance_type].append(W)":
            ops.append(".classAppend")
        else:
            raise TranslationError(f"add_node: unsupported statement: {t}")
    return _order("add_node", ops, [".graphAddNode", ".indexSet", ".classAppend"], set())



# ---------------------------------------------------------------------------------------------- the relation-index key
_REL_KEY = {"form": "R.wrapped_field"}


def _relation_key_form(cb) -> str:
    """Under which key `add_relation`, `relation_exists` and `remove_node` file a relation in `_relation_index`: the
    relation's own wrapped field (`R.wrapped_field`) or the field of the descriptor that manages it
    (`self._indexed_field(R)`, whose body is pinned below). The model has ONE field per descriptor, which both forms denote
    for the universes of the correspondence; what matters — and what is checked here — is that all three sites use the
    SAME key (a purge under another key than the one the relation was filed under leaves index entries behind: seeded
    change C14-r6m2)."""
    import re
    forms = set()
    for name in ("add_relation", "relation_exists"):
        fns = [f for f in cb if isinstance(f, ast.FunctionDef) and f.name == name]
        if len(fns) != 1:
            raise TranslationError(f"SymbolGraph.{name} not found (or defined twice)")
        rel = fns[0].args.args[1].arg
        text = " ".join(_u(st) for st in fns[0].body if not _skippable(st))
        found = set(re.findall(r"self\._relation_index(?:\.get|\.setdefault)?[\[(]\s*(self\._indexed_field\(" + rel + r"\)|" + rel + r"\.wrapped_field)", text))
        found = {f.replace(rel, "R") for f in found}
        if len(found) != 1:
            raise TranslationError(f"{name}: the key of _relation_index is not recognised: {sorted(found)}")
        forms |= found
    if len(forms) != 1:
        raise TranslationError(f"add_relation / relation_exists file a relation under different keys: {sorted(forms)}")
    form = forms.pop()
    if form == "self._indexed_field(R)":
        fns = [f for f in cb if isinstance(f, ast.FunctionDef) and f.name == "_indexed_field"]
        if len(fns) != 1:
            raise TranslationError("_indexed_field not found")
        body = [_u(st) for st in fns[0].body if not _skippable(st)]
        r = fns[0].args.args[-1].arg
        want = [f"descriptor = {r}.wrapped_field.property_descriptor",
                f"if descriptor is None:\n    return {r}.wrapped_field", "return descriptor.wrapped_field"]
        if body != want:
            raise TranslationError(f"_indexed_field changed: {body}")
    return form

# ---------------------------------------------------------------------------------------------- remove_node
def _edges_operand(e: ast.AST) -> Optional[str]:
    if isinstance(e, ast.Call) and _u(e.func) == "list" and len(e.args) == 1 and not e.keywords:
        e = e.args[0]
    return {"self._instance_graph.in_edges(W.index)": "in", "self._instance_graph.out_edges(W.index)": "out"}.get(_u(e))


def _remove_node(fn) -> List[str]:
    stmts = _inline_aliases("remove_node", _canon(fn, ["self", "W"]), _attr_chain)
    ops = []
    for s in stmts:
        t = _u(s)
        if isinstance(s, ast.If) and not s.orelse and len(s.body) == 1 and isinstance(s.body[0], ast.Delete):
            d = s.body[0]
            if not (len(d.targets) == 1 and isinstance(d.targets[0], ast.Subscript) and _u(d.targets[0].value) == "self._instance_index"):
                raise TranslationError(f"remove_node: unsupported deletion: {t}")
            k = d.targets[0].slice
            tests = {f"self._instance_index.get({_u(k)}) is W": ".indexDelIfSame", f"self._instance_index.get({_u(k)}, None) is W": ".indexDelIfSame",
                     f"{_u(k)} in self._instance_index": ".indexPop"}
            if _u(s.test) not in tests:
                raise TranslationError(f"remove_node: unsupported guard of the index deletion: {_u(s.test)}")
            ops.append(tests[_u(s.test)] + " " + _key("remove_node", k))
        elif (isinstance(s, ast.Expr) and isinstance(s.value, ast.Call) and _u(s.value.func) == "self._instance_index.pop"
              and len(s.value.args) == 2 and _u(s.value.args[1]) == "None" and not s.value.keywords):
            ops.append(".indexPop " + _key("remove_node", s.value.args[0]))
        elif t == "self._class_to_wrapped_instances[W.instance_type].remove(W)":
            ops.append(".classRemove")
        elif t == "self._instance_graph.remove_node(W.index)":
            ops.append(".graphRemoveNode")
        elif isinstance(s, ast.For):
            tg = s.target
            if s.orelse or not (isinstance(tg, ast.Tuple) and len(tg.elts) == 3 and all(isinstance(x, ast.Name) for x in tg.elts)):
                raise TranslationError(f"remove_node: unsupported loop: {_u(tg)}")
            parts = [s.iter.left, s.iter.right] if isinstance(s.iter, ast.BinOp) and isinstance(s.iter.op, ast.Add) else [s.iter]
            kinds = [_edges_operand(p) for p in parts]
            if None in kinds or len(set(kinds)) != len(kinds):
                raise TranslationError(f"remove_node: unsupported edge list: {_u(s.iter)}")
            body = [_subst(b, _names({x.id: r for x, r in zip(tg.elts, ("_s", "_t", "_r"))})) for b in s.body if not _skippable(b)]
            key = _REL_KEY["form"].replace("R", "_r")
            if [_u(b) for b in body] != [f"self._relation_index.get({key}, set()).discard((_s, _t))"]:
                raise TranslationError(f"remove_node: unsupported body of the purge loop: {[_u(b) for b in body]}")
            ops.append(f".relDiscardIncident {'true' if 'in' in kinds else 'false'} {'true' if 'out' in kinds else 'false'}")
        else:
            raise TranslationError(f"remove_node: unsupported statement: {t}")
    if sum(o.startswith(".index") for o in ops) > 1:
        raise TranslationError("remove_node: the instance index is edited twice")
    ops = [o.replace(".indexPop", ".indexDel_Pop").replace(".indexDelIfSame", ".indexDel_IfSame") for o in ops]
    rank = [".indexDel_IfSame", ".indexDel_Pop", ".classRemove", ".relDiscardIncident", ".graphRemoveNode"]
    out = _order("remove_node", ops, rank, {(".relDiscardIncident", ".graphRemoveNode")})
    return [o.replace(".indexDel_Pop", ".indexPop").replace(".indexDel_IfSame", ".indexDelIfSame") for o in out]


# -------------------------------------------------------------------------------------- loops with a liveness filter
def _liveness(test: ast.AST, inst: List[str]) -> Optional[str]:
    """`.dead` / `.alive` for `<instance> is None` / `is not None`"""
    if (isinstance(test, ast.Compare) and len(test.ops) == 1 and _u(test.comparators[0]) == "None" and _u(test.left) in inst):
        if isinstance(test.ops[0], ast.Is):
            return ".dead"
        if isinstance(test.ops[0], ast.IsNot):
            return ".alive"
    return None


def _flip(l: str) -> str:
    return ".alive" if l == ".dead" else ".dead"


def _guarded(fname: str, body: List[ast.stmt], inst: List[str]):
    """(`onlyIf` liveness or None, the guarded rest) for `if c: <rest>` / `if not-c: continue; <rest>` / `<rest>`"""
    body = [b for b in body if not _skippable(b)]
    if body and isinstance(body[0], ast.If):
        s = body[0]
        l = _liveness(s.test, inst)
        if l is None or s.orelse:
            raise TranslationError(f"{fname}: unsupported condition: {_u(s.test)}")
        inner = [b for b in s.body if not _skippable(b)]
        if len(inner) == 1 and isinstance(inner[0], ast.Continue):
            return _flip(l), body[1:]
        if len(body) != 1:
            raise TranslationError(f"{fname}: statements after the guarded block")
        return l, inner
    return None, body


def _sweep(fn) -> List[str]:
    body = _canon(fn, ["self"])
    if len(body) != 1 or not isinstance(body[0], ast.For):
        raise TranslationError("remove_dead_instances: expected a single loop")
    f = body[0]
    if f.orelse or not isinstance(f.target, ast.Name) or _u(f.iter) != "self._instance_graph.nodes()":
        raise TranslationError(f"remove_dead_instances: unsupported loop: for {_u(f.target)} in {_u(f.iter)}")
    n = f.target.id
    l, rest = _guarded("remove_dead_instances", f.body, [f"{n}.instance"])
    if [_u(r) for r in rest] != [f"self.remove_node({n})"]:
        raise TranslationError(f"remove_dead_instances: unsupported loop body: {[_u(r) for r in rest]}")
    return [".forEachGraphNode"] + ([f".onlyIf {l}"] if l else []) + [".callRemoveNode"]


# ------------------------------------------------------------------------------------ get_instances_of_type
def _cls_source(e: ast.AST) -> str:
    s = {"[T]": ".selfOnly", "recursive_subclasses(T)": ".subsOnly", "[T] + recursive_subclasses(T)": ".selfThenSubs",
         "recursive_subclasses(T) + [T]": ".subsThenSelf"}.get(_u(e))
    if s is None:
        raise TranslationError(f"get_instances_of_type: unsupported class list: {_u(e)}")
    return s


def _wrapped_source(e: ast.AST, c: str) -> str:
    direct = f"self._class_to_wrapped_instances[{c}]"
    if _u(e) == direct:
        return "false"
    if _u(e) in (f"list({direct})", f"tuple({direct})", f"{direct}[:]", f"{direct}.copy()"):
        return "true"
    raise TranslationError(f"get_instances_of_type: unsupported list of wrappers: {_u(e)}")


def _get_instances(fn) -> List[str]:
    body = _canon(fn, ["self", "T"])
    if len(body) != 1:
        raise TranslationError("get_instances_of_type: expected one statement")
    s = body[0]
    if isinstance(s, ast.Expr) and isinstance(s.value, ast.YieldFrom) and isinstance(s.value.value, ast.GeneratorExp):
        ge = s.value.value
        g = ge.generators
        if len(g) != 2 or any(x.is_async or not isinstance(x.target, ast.Name) for x in g) or g[0].ifs or len(g[1].ifs) > 1:
            raise TranslationError(f"get_instances_of_type: unsupported generator expression: {_u(ge)}")
        c, w = g[0].target.id, g[1].target.id
        src, cp = _cls_source(g[0].iter), _wrapped_source(g[1].iter, c)
        inst, kept = [f"{w}.instance"], None
        if g[1].ifs:
            test = copy.deepcopy(g[1].ifs[0])
            if isinstance(test, ast.Compare) and isinstance(test.left, ast.NamedExpr) and _u(test.left.value) == f"{w}.instance":
                inst.append(test.left.target.id)
                test.left = test.left.value
            kept = _liveness(test, [f"{w}.instance"])
            if kept is None:
                raise TranslationError(f"get_instances_of_type: unsupported filter: {_u(g[1].ifs[0])}")
        if _u(ge.elt) not in inst:
            raise TranslationError(f"get_instances_of_type: yields {_u(ge.elt)}, not the wrapper's instance")
    elif isinstance(s, ast.For) and not s.orelse and isinstance(s.target, ast.Name):
        c = s.target.id
        src = _cls_source(s.iter)
        inner = [b for b in s.body if not _skippable(b)]
        if len(inner) != 1 or not isinstance(inner[0], ast.For) or inner[0].orelse or not isinstance(inner[0].target, ast.Name):
            raise TranslationError("get_instances_of_type: expected a loop over the wrappers inside the loop over the classes")
        w = inner[0].target.id
        cp = _wrapped_source(inner[0].iter, c)
        rest = _inline_aliases("get_instances_of_type", [b for b in inner[0].body if not _skippable(b)],
                               lambda e: _u(e) == f"{w}.instance")
        kept, rest = _guarded("get_instances_of_type", rest, [f"{w}.instance"])
        if [_u(r) for r in rest] != [f"yield {w}.instance"]:
            raise TranslationError(f"get_instances_of_type: unsupported loop body: {[_u(r) for r in rest]}")
    else:
        raise TranslationError(f"get_instances_of_type: unsupported statement: {_u(s)}")
    # the wrappers of liveness `kept` are yielded = the others are skipped
    flt = _flip(kept) if kept else None
    return [f".forEachClassIn {src}", f".forEachWrappedIn {cp}"] + ([f".skipIf {flt}"] if flt else []) + [".yieldInstance"]


# ------------------------------------------------------------------------------ ensure_wrapped_instance, clear
def _ensure(cls_body) -> List[str]:
    gw = _canon(_function(cls_body, "get_wrapped_instance", 2, "SymbolGraph."), ["self", "X"])
    if gw and _u(gw[0]) == "if isinstance(X, WrappedInstance):\n    return X":
        gw = gw[1:]
    if [_u(s) for s in gw] not in (["return self._instance_index.get(id(X), None)"], ["return self._instance_index.get(id(X))"]):
        raise TranslationError(f"get_wrapped_instance: unsupported body: {[_u(s) for s in gw]}")
    ai = _canon(_function(cls_body, "add_instance", 2, "SymbolGraph."), ["self", "W"])
    adders = ["self.add_node(_w)"] + (["self.add_instance(_w)"] if [_u(s) for s in ai] == ["self.add_node(W)"] else [])
    body = _canon(_function(cls_body, "ensure_wrapped_instance", 2, "SymbolGraph."), ["self", "X"])
    if not body or not (isinstance(body[0], ast.Assign) and len(body[0].targets) == 1 and isinstance(body[0].targets[0], ast.Name)
                        and _u(body[0].value) == "self.get_wrapped_instance(X)"):
        raise TranslationError("ensure_wrapped_instance: does not start with the lookup of the wrapper")
    local = body[0].targets[0].id
    body = [_subst(s, _names({local: "_w"})) for s in body]
    for s in body:
        for n in ast.walk(s):
            if isinstance(n, ast.Name) and isinstance(n.ctx, ast.Store) and n.id == local:
                n.id = "_w"
    texts = [_u(s) for s in body[1:]]

    def block(ts):
        return len(ts) == 2 and ts[0] == "_w = WrappedInstance(X)" and ts[1] in adders

    if len(texts) == 2 and isinstance(body[1], ast.If) and not body[1].orelse and _u(body[1].test) == "_w is None" \
            and block([_u(b) for b in body[1].body if not _skippable(b)]) and texts[1] == "return _w":
        return [".lookupIndex .idOfInstance", ".ifMissing 2", ".wrapNew", ".callAddNode", ".returnWrapper"]
    if len(texts) == 3 and block(texts[:2]) and texts[2] == "return _w":
        return [".lookupIndex .idOfInstance", ".wrapNew", ".callAddNode", ".returnWrapper"]
    raise TranslationError(f"ensure_wrapped_instance: unsupported body: {texts}")


def _clear(fn) -> List[str]:
    body = [_u(s) for s in _canon(fn, ["self"])]
    if body in (["SingletonMeta.clear_instance(type(self))"], ["SingletonMeta.clear_instance(self.__class__)"]):
        return [".resetSingleton"]
    raise TranslationError(f"clear: unsupported body: {body}")


# ------------------------------------------------------------------------------------- recursive_subclasses
def _rec_subs(fn) -> List[str]:
    def pure(e):
        return all(isinstance(n, (ast.Name, ast.Attribute, ast.Call, ast.BinOp, ast.Add, ast.ListComp, ast.comprehension,
                                  ast.Load, ast.Store, ast.List)) for n in ast.walk(e))
    body = _inline_aliases("recursive_subclasses", _canon(fn, ["C"]), pure)
    if len(body) != 1 or not isinstance(body[0], ast.Return) or body[0].value is None:
        raise TranslationError(f"recursive_subclasses: unsupported body: {[_u(s) for s in body]}")
    e, dedup = body[0].value, False
    if (isinstance(e, ast.Call) and _u(e.func) == "list" and len(e.args) == 1 and not e.keywords and isinstance(e.args[0], ast.Call)
            and _u(e.args[0].func) == "dict.fromkeys" and len(e.args[0].args) == 1 and not e.args[0].keywords):
        e, dedup = e.args[0].args[0], True

    def parts(x):
        return parts(x.left) + parts(x.right) if isinstance(x, ast.BinOp) and isinstance(x.op, ast.Add) else [x]

    ops = []
    for p in parts(e):
        if _u(p) == "C.__subclasses__()":
            ops.append(".directSubclasses")
            continue
        if isinstance(p, ast.ListComp) and len(p.generators) == 2:
            g1, g2 = p.generators
            if (not g1.ifs and not g2.ifs and not g1.is_async and not g2.is_async and isinstance(g1.target, ast.Name)
                    and isinstance(g2.target, ast.Name) and _u(g1.iter) == "C.__subclasses__()"
                    and _u(g2.iter) == f"recursive_subclasses({g1.target.id})" and _u(p.elt) == g2.target.id):
                ops.append(".recurseOverDirect")
                continue
        raise TranslationError(f"recursive_subclasses: unsupported part of the result: {_u(p)}")
    if len(set(ops)) != len(ops):
        raise TranslationError(f"recursive_subclasses: a part of the result occurs twice: {ops}")
    # the ORDER of the parts is kept: it is the order in which a lazily consumed evaluation walks the classes, which is
    # observable (which late instances a suspended evaluation still meets, F-C13-3)
    return ops + ([".dedupKeepFirst"] if dedup else [])


# ------------------------------------------------------------------------------------------------- driver
def tables_of(symbol_graph_source: str, utils_source: str) -> Dict[str, List[str]]:
    tree = ast.parse(symbol_graph_source)
    classes = [c for c in tree.body if isinstance(c, ast.ClassDef) and c.name == "SymbolGraph"]
    if len(classes) != 1:
        raise TranslationError("class SymbolGraph not found (or defined twice)")
    cb = classes[0].body
    wi = [c for c in tree.body if isinstance(c, ast.ClassDef) and c.name == "WrappedInstance"]
    if len(wi) != 1:
        raise TranslationError("class WrappedInstance not found")
    # `w.instance` is the weak reference's referent, `instance_id` / `instance_type` are taken when the wrapper is made
    inst = _function(wi[0].body, "__post_init__", 2, "WrappedInstance.")
    want = {"self.instance_reference = weakref.ref(X)", "self.instance_type = type(X)", "self.instance_id = id(X)"}
    if {_u(s) for s in _canon(inst, ["self", "X"])} != want:
        raise TranslationError("WrappedInstance.__post_init__ changed")
    props = [f for f in wi[0].body if isinstance(f, ast.FunctionDef) and f.name == "instance"]
    if len(props) != 1 or [_u(d) for d in props[0].decorator_list] != ["property"] or \
            [_u(s) for s in props[0].body if not _skippable(s)] != ["return self.instance_reference()"]:
        raise TranslationError("WrappedInstance.instance is no longer the weak reference's referent")
    utils = ast.parse(utils_source)
    _REL_KEY["form"] = _relation_key_form(cb)
    return {
        "addNode": _add_node(_function(cb, "add_node", 2, "SymbolGraph.")),
        "removeNode": _remove_node(_function(cb, "remove_node", 2, "SymbolGraph.")),
        "sweep": _sweep(_function(cb, "remove_dead_instances", 1, "SymbolGraph.")),
        "getInstances": _get_instances(_function(cb, "get_instances_of_type", 2, "SymbolGraph.")),
        "ensure": _ensure(cb),
        "clear": _clear(_function(cb, "clear", 1, "SymbolGraph.")),
        "recSubs": _rec_subs(_function(utils.body, "recursive_subclasses", 1, "utils.")),
    }


def lean_table(tables: Dict[str, List[str]]) -> str:
    return "def table : Table where\n" + "".join(f"  {k} := [{', '.join(tables[k])}]\n" for k in FIELDS)


def generate_tables(repo: Path) -> Dict[str, List[str]]:
    return tables_of((Path(repo) / SG_PATH).read_text(), (Path(repo) / UTILS_PATH).read_text())


if __name__ == "__main__":
    import sys
    print(lean_table(generate_tables(Path(sys.argv[1] if len(sys.argv) > 1 else "/repo"))))
