"""Self-test of harness/translate/c01_translate.py on text-level edits of the CURRENT symbolic.py:
semantic mutations of the evaluation methods must change the table (or be rejected); harmless rewrites must not.
Run: cd harness && /venv/bin/python -m translate.c01_translate_selftest [/repo]"""
from __future__ import annotations

import sys
from pathlib import Path

from translate import c01_translate as T


def sub(src: str, old: str, new: str, count: int = 1) -> str:
    assert old in src, f"pattern not in source: {old[:60]!r}"
    return src.replace(old, new, count)


SEMANTIC = {
    "comparator keeps FALSE operand results": lambda s: sub(s, "lambda v: v.is_true, first_operand", "lambda v: v.is_false, first_operand"),
    "Not does not flip": lambda s: sub(s, "self._is_false_ = v.is_true", "self._is_false_ = v.is_false"),
    "ElseIf evaluates only the right operand": lambda s: sub(
        s, '        self._eval_parent_ = parent\n        yield from self.evaluate_left(sources)\n\n\n@dataclass(eq=False, repr=False)\nclass QuantifiedConditional',
        '        self._eval_parent_ = parent\n        yield from self.evaluate_right(sources)\n\n\n@dataclass(eq=False, repr=False)\nclass QuantifiedConditional'),
    "Exists yields false results": lambda s: sub(s, "yield OperationResult(val.bindings, False, self)", "yield OperationResult(val.bindings, True, self)"),
    "bound falsy value is false everywhere (F-C01-3 back)": lambda s: sub(s, "sources, is_condition and not bool(sources[self._id_]), self", "sources, not bool(sources[self._id_]), self"),
    "attribute truth inverted": lambda s: sub(s, "self._is_false_ = not bool(current_value)", "self._is_false_ = bool(current_value)"),
    "ForAll merges the candidate over the universal value": lambda s: sub(s, "{**sol, **var_val.bindings}", "{**var_val.bindings, **sol}"),
    "An overrides _evaluate__ (dispatch)": lambda s: sub(
        s, '    """Quantifier that yields all matching results one by one."""\n\n    ...',
        '    """Quantifier that yields all matching results one by one."""\n\n    def _evaluate__(self, sources=None, parent=None):\n        yield from list(super()._evaluate__(sources, parent))[:1]'),
    "comparator default operand order swapped": lambda s: sub(s, "            return self.right, self.left\n        else:\n            return self.left, self.right", "            return self.left, self.right\n        else:\n            return self.right, self.left"),
    "AND yields the left bindings for a true right result": lambda s: sub(s, "yield OperationResult(right_value.bindings, self._is_false_, self)\n\n\n@dataclass(eq=False, repr=False)\nclass OR", "yield OperationResult(left_value.bindings, self._is_false_, self)\n\n\n@dataclass(eq=False, repr=False)\nclass OR"),
    "descriptor keeps false rows": lambda s: sub(s, "                lambda v: v.is_true, self._child_._evaluate__(sources, parent=self)", "                lambda v: True, self._child_._evaluate__(sources, parent=self)"),
    "unsupported statement (while) is rejected": lambda s: sub(s, "        seen_var_values = []\n", "        seen_var_values = []\n        while False:\n            pass\n"),
}

HARMLESS = {
    "rename a local": lambda s: s.replace("left_values", "lvs"),
    "rename a lambda parameter": lambda s: sub(s, "lambda v: v.is_true, first_operand", "lambda val_: val_.is_true, first_operand"),
    "swap the independent prologue assignments": lambda s: s.replace(
        "        sources = sources or {}\n        self._eval_parent_ = parent\n", "        self._eval_parent_ = parent\n        sources = sources or {}\n"),
    "comments and docstring": lambda s: sub(sub(s, '        Compares the left and right symbolic variables using the "operation".', "        Compare."),
                                             "        seen_var_values = []\n", "        # values already answered with\n        seen_var_values = []\n"),
    "elif after return becomes if": lambda s: sub(s, "        elif not left_has_the and right_has_the:", "        if not left_has_the and right_has_the:"),
    "filter(lambda) becomes a generator expression": lambda s: sub(
        s, "            yield from filter(\n                lambda v: v.is_true, self._child_._evaluate__(sources, parent=self)\n            )",
        "            yield from (\n                r for r in self._child_._evaluate__(sources, parent=self) if r.is_true\n            )"),
    "type annotation on a local": lambda s: sub(s, "        seen_var_values = []\n", "        seen_var_values: List[Any] = []\n"),
    "explicit else after a returning branch": lambda s: sub(
        s, "            yield OperationResult(sources, self._is_false_, self)\n            return\n\n        first_operand, second_operand = self.get_first_second_operands(sources)\n",
        "            yield OperationResult(sources, self._is_false_, self)\n            return\n        first_operand, second_operand = self.get_first_second_operands(sources)\n"),
}


def main() -> int:
    repo = Path(sys.argv[1]) if len(sys.argv) > 1 else Path("/repo")
    src = (repo / T.SYMBOLIC).read_text()
    base = T.table(src)
    bad = 0
    for name, f in SEMANTIC.items():
        try:
            t = T.table(f(src))
            d = T.diff(t, base)
            ok = bool(d)
            print(("caught   " if ok else "MISSED   ") + name + (": " + ", ".join(d) if d else ""))
        except T.TranslationError as e:
            ok = True
            print("rejected " + name + f": {e}")
        bad += 0 if ok else 1
    for name, f in HARMLESS.items():
        try:
            t = T.table(f(src))
            d = T.diff(t, base)
        except T.TranslationError as e:
            d = [f"rejected: {e}"]
        print(("same     " if not d else "CHANGED  ") + name + (": " + ", ".join(d) if d else ""))
        bad += 1 if d else 0
    print("selftest", "OK" if not bad else f"FAILED ({bad})")
    return 1 if bad else 0


if __name__ == "__main__":
    sys.exit(main())
