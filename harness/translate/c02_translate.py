"""Translator (Python AST -> Lean 4) for the CONSTRUCTION-TIME REWRITES of the entity query language (C01 / C02).

From the CURRENT `symbolic.py` and `entity.py` it regenerates a first-order description (`Eql.RewriteTable`,
`lean/KrroodVerif/Model/EqlRewrites.lean`) of

* `optimize_or`      which variables of the two operands are compared (with / without the `Literal` filter), by which test
                     (set equality | subset | list equality | constant) and the node returned in either case;
* `chained_logic`    how n-ary `and_` / `or_` are nested (left | right | reversed);
* `and_`, `or_`      the operator handed to `chained_logic`;  `&`, `|`: the operator `__and__` / `__or__` apply;
* `not_`             `operand._invert_()` or `Not(operand)`;
* `exists`, `for_all` the class constructed;  `contains`, `in_`: the operand order of the `Comparator`;
* `_invert_`         as resolved along the MRO (C3 linearisation of the class statements) of `Comparator`, the term
                     classes, `AND`, `ElseIf`, `Union`, `Not`, `Exists`, `ForAll`: wrap in `Not` | the operand |
                     a binary node over (inverted) operands | a quantifier over the (inverted) body | the comparison with
                     the operation a class-level map gives.

The generated Lean file states two obligations the kernel re-checks on every run (both `by decide` on the finite table):
`C02_rewrites_translated_eq_model : Translated.rewrites = Eql.rewrites` (the table the proofs about `build` are about —
`buildWith_rewrites_eq_build`) and `C02_rewrites_translated_ok : RewritesOk Translated.rewrites = true` (the hypothesis of
`satE_buildWith`, `rewritesOk_or_equal_vars`, `buildWith_eq_build_of_notOnAtoms`, `C02_multiplicity_okTable`).

STRICT: every statement shape that is not listed below raises `TranslationError` (the check then searches for a concrete
failing input through the correspondence). NORMALISING: local names, docstrings, comments, `else:` after a `return`,
keyword vs positional arguments, `x.issubset(y)` vs `x <= y`, `a != b` with swapped branches, the `if … is None`
vs `if … in map` spelling of the operation lookup and the order of independent statements do not change the output.
"""
from __future__ import annotations

import ast
from pathlib import Path
from typing import Dict, List, Optional, Tuple

SYMBOLIC = "src/krrood/entity_query_language/symbolic.py"
ENTITY = "src/krrood/entity_query_language/entity.py"


class TranslationError(Exception):
    pass


# ------------------------------------------------------------------------------------------------ helpers


def _body(fn: ast.FunctionDef) -> List[ast.stmt]:
    """statements without docstring / bare string expressions / `pass`"""
    out = []
    for s in fn.body:
        if isinstance(s, ast.Expr) and isinstance(s.value, ast.Constant) and isinstance(s.value.value, str):
            continue
        if isinstance(s, ast.Pass):
            continue
        out.append(s)
    return out


def _flat_if(stmts: List[ast.stmt]) -> List[ast.stmt]:
    """`if c: return A` + `else: return B`  ==  `if c: return A` ; `return B`"""
    if stmts and isinstance(stmts[-1], ast.If) and stmts[-1].orelse:
        last = stmts[-1]
        if _always_returns(last.body):
            return stmts[:-1] + [ast.If(test=last.test, body=last.body, orelse=[])] + _flat_if(list(last.orelse))
    return stmts


def _always_returns(body: List[ast.stmt]) -> bool:
    return bool(body) and isinstance(body[-1], (ast.Return, ast.Raise))


def _functions(tree: ast.Module) -> Dict[str, ast.FunctionDef]:
    return {s.name: s for s in tree.body if isinstance(s, ast.FunctionDef)}


def _classes(tree: ast.Module) -> Dict[str, ast.ClassDef]:
    return {s.name: s for s in tree.body if isinstance(s, ast.ClassDef)}


def _params(fn: ast.FunctionDef) -> List[str]:
    a = fn.args
    if a.posonlyargs or a.kwonlyargs or a.kwarg:
        raise TranslationError(f"{fn.name}: unsupported parameter kinds")
    return [x.arg for x in a.args]


def _call_args(call: ast.Call, names: List[str]) -> List[ast.expr]:
    """positional + keyword arguments of a call, ordered by the parameter names `names`"""
    if any(isinstance(a, ast.Starred) for a in call.args) or any(k.arg is None for k in call.keywords):
        raise TranslationError(f"unsupported call arguments: {ast.unparse(call)}")
    out: List[Optional[ast.expr]] = list(call.args) + [None] * (len(names) - len(call.args))
    if len(call.args) > len(names):
        raise TranslationError(f"too many arguments: {ast.unparse(call)}")
    for k in call.keywords:
        if k.arg not in names:
            raise TranslationError(f"unknown keyword {k.arg}: {ast.unparse(call)}")
        i = names.index(k.arg)
        if out[i] is not None:
            raise TranslationError(f"duplicate argument: {ast.unparse(call)}")
        out[i] = k.value
    if any(o is None for o in out):
        raise TranslationError(f"missing argument: {ast.unparse(call)}")
    return out  # type: ignore[return-value]


def _is_name(e: ast.AST, n: str) -> bool:
    return isinstance(e, ast.Name) and e.id == n


# ------------------------------------------------------------------------------------------------ optimize_or

OR_NODES = {"ElseIf": ".elseIf", "Union": ".union", "AND": ".and"}


def _is_literal_filter_pred(var: str, e: ast.expr) -> bool:
    """`not isinstance(<var>.value, Literal)` (also `not isinstance(<var>, Literal)` is NOT accepted: the elements are
    hashed wrappers)"""
    return (isinstance(e, ast.UnaryOp) and isinstance(e.op, ast.Not) and isinstance(e.operand, ast.Call)
            and _is_name(e.operand.func, "isinstance") and len(e.operand.args) == 2 and not e.operand.keywords
            and ast.unparse(e.operand.args[0]) == f"{var}.value" and _is_name(e.operand.args[1], "Literal"))


class _VarExpr:
    """abstract value of an expression denoting a collection of an operand's variables"""

    def __init__(self, side: str, drop_lit: bool, kind: str):
        self.side, self.drop_lit, self.kind = side, drop_lit, kind  # kind: 'coll' | 'set' | 'list'


def _var_expr(e: ast.expr, env: Dict[str, _VarExpr], sides: Tuple[str, str]) -> _VarExpr:
    if isinstance(e, ast.Name):
        if e.id in env:
            return env[e.id]
        raise TranslationError(f"optimize_or: unknown name {e.id}")
    if isinstance(e, ast.Attribute):
        if e.attr == "_unique_variables_" and isinstance(e.value, ast.Name) and e.value.id in sides:
            return _VarExpr("L" if e.value.id == sides[0] else "R", False, "coll")
        if e.attr == "unwrapped_values":
            v = _var_expr(e.value, env, sides)
            if v.kind != "coll":
                raise TranslationError(f"optimize_or: unsupported {ast.unparse(e)}")
            return v
        raise TranslationError(f"optimize_or: unsupported attribute {ast.unparse(e)}")
    if isinstance(e, ast.Call):
        f = e.func
        if isinstance(f, ast.Attribute) and f.attr == "filter" and len(e.args) == 1 and not e.keywords:
            lam = e.args[0]
            if (isinstance(lam, ast.Lambda) and len(lam.args.args) == 1
                    and _is_literal_filter_pred(lam.args.args[0].arg, lam.body)):
                v = _var_expr(f.value, env, sides)
                if v.kind != "coll":
                    raise TranslationError(f"optimize_or: unsupported {ast.unparse(e)}")
                return _VarExpr(v.side, True, "coll")
            raise TranslationError(f"optimize_or: unsupported filter {ast.unparse(e)}")
        if isinstance(f, ast.Name) and f.id in ("set", "frozenset") and len(e.args) == 1 and not e.keywords:
            v = _var_expr(e.args[0], env, sides)
            return _VarExpr(v.side, v.drop_lit, "set")
        if isinstance(f, ast.Name) and f.id in ("list", "tuple") and len(e.args) == 1 and not e.keywords:
            v = _var_expr(e.args[0], env, sides)
            if v.kind == "set":
                raise TranslationError(f"optimize_or: list of a set has no defined order: {ast.unparse(e)}")
            return _VarExpr(v.side, v.drop_lit, "list")
        raise TranslationError(f"optimize_or: unsupported call {ast.unparse(e)}")
    if isinstance(e, (ast.ListComp, ast.SetComp)) and len(e.generators) == 1:
        g = e.generators[0]
        if not isinstance(g.target, ast.Name) or g.is_async:
            raise TranslationError(f"optimize_or: unsupported comprehension {ast.unparse(e)}")
        x = g.target.id
        v = _var_expr(g.iter, env, sides)
        drop = v.drop_lit
        for cond in g.ifs:
            if _is_literal_filter_pred(x, cond):
                drop = True
            else:
                raise TranslationError(f"optimize_or: unsupported comprehension filter {ast.unparse(cond)}")
        elt = ast.unparse(e.elt)
        if elt not in (x, f"{x}.id_", f"{x}.value", f"{x}.value._id_", f"{x}.value.id_", f"id({x}.value)"):
            raise TranslationError(f"optimize_or: unsupported comprehension element {elt}")
        if isinstance(e, ast.SetComp):
            return _VarExpr(v.side, drop, "set")
        if v.kind == "set":
            raise TranslationError(f"optimize_or: list over a set has no defined order: {ast.unparse(e)}")
        return _VarExpr(v.side, drop, "list")
    raise TranslationError(f"optimize_or: unsupported expression {ast.unparse(e)}")


def _or_test(e: ast.expr, env, sides) -> Tuple[str, bool, bool, bool]:
    """-> (VarTest, dropLitL, dropLitR, negated)"""
    if isinstance(e, ast.UnaryOp) and isinstance(e.op, ast.Not):
        t, dl, dr, neg = _or_test(e.operand, env, sides)
        return t, dl, dr, not neg
    if isinstance(e, ast.Constant) and isinstance(e.value, bool):
        return (".always" if e.value else ".never"), True, True, False
    a = b = None
    op = None
    if isinstance(e, ast.Compare) and len(e.ops) == 1:
        a, b = _var_expr(e.left, env, sides), _var_expr(e.comparators[0], env, sides)
        op = {ast.Eq: "eq", ast.NotEq: "ne", ast.LtE: "sub", ast.GtE: "sup"}.get(type(e.ops[0]))
    elif (isinstance(e, ast.Call) and isinstance(e.func, ast.Attribute) and e.func.attr in ("issubset", "issuperset")
          and len(e.args) == 1 and not e.keywords):
        a = _var_expr(e.func.value, env, sides)
        b0 = _var_expr(e.args[0], env, sides)
        if a.kind != "set":
            raise TranslationError(f"optimize_or: {e.func.attr} on a non-set: {ast.unparse(e)}")
        b = _VarExpr(b0.side, b0.drop_lit, "set")  # the argument of issubset/issuperset may be any iterable
        op = "sub" if e.func.attr == "issubset" else "sup"
    if a is None or b is None or op is None:
        raise TranslationError(f"optimize_or: unsupported test {ast.unparse(e)}")
    if {a.side, b.side} != {"L", "R"}:
        raise TranslationError(f"optimize_or: the test does not compare the two operands: {ast.unparse(e)}")
    if a.kind != b.kind or a.kind == "coll":
        raise TranslationError(f"optimize_or: compares a {a.kind} with a {b.kind}: {ast.unparse(e)}")
    dl, dr = (a.drop_lit, b.drop_lit) if a.side == "L" else (b.drop_lit, a.drop_lit)
    if op in ("eq", "ne"):
        return (".setEq" if a.kind == "set" else ".listEq"), dl, dr, op == "ne"
    if a.kind != "set":
        raise TranslationError(f"optimize_or: ordering comparison of lists: {ast.unparse(e)}")
    a_sub_b = op == "sub"
    left_sub_right = a_sub_b == (a.side == "L")
    return (".subsetLR" if left_sub_right else ".subsetRL"), dl, dr, False


def _or_node(e: Optional[ast.expr], sides) -> str:
    if (isinstance(e, ast.Call) and isinstance(e.func, ast.Name) and e.func.id in OR_NODES):
        args = _call_args(e, ["left", "right"])
        if _is_name(args[0], sides[0]) and _is_name(args[1], sides[1]):
            return OR_NODES[e.func.id]
    raise TranslationError(f"optimize_or: unsupported result {ast.unparse(e) if e is not None else None}")


def translate_optimize_or(fn: ast.FunctionDef) -> Dict[str, str]:
    ps = _params(fn)
    if len(ps) != 2:
        raise TranslationError("optimize_or: signature changed")
    sides = (ps[0], ps[1])
    env: Dict[str, _VarExpr] = {}
    stmts = _flat_if(_body(fn))
    i = 0
    while i < len(stmts) and isinstance(stmts[i], ast.Assign):
        s = stmts[i]
        if len(s.targets) != 1 or not isinstance(s.targets[0], ast.Name):
            raise TranslationError(f"optimize_or: unsupported assignment {ast.unparse(s)}")
        env[s.targets[0].id] = _var_expr(s.value, env, sides)
        i += 1
    rest = stmts[i:]
    if len(rest) == 1 and isinstance(rest[0], ast.Return):
        r = rest[0].value
        if isinstance(r, ast.IfExp):
            test, then, els = r.test, _or_node(r.body, sides), _or_node(r.orelse, sides)
        else:
            n = _or_node(r, sides)
            return dict(dropLitL="true", dropLitR="true", test=".always", thenNode=n, elseNode=n)
    elif (len(rest) == 2 and isinstance(rest[0], ast.If) and not rest[0].orelse and len(rest[0].body) == 1
          and isinstance(rest[0].body[0], ast.Return) and isinstance(rest[1], ast.Return)):
        test, then, els = rest[0].test, _or_node(rest[0].body[0].value, sides), _or_node(rest[1].value, sides)
    else:
        raise TranslationError("optimize_or: unsupported statement shape: " + "; ".join(ast.unparse(s)[:80] for s in rest))
    t, dl, dr, neg = _or_test(test, env, sides)
    if neg:
        then, els = els, then
    b = lambda x: "true" if x else "false"
    return dict(dropLitL=b(dl), dropLitR=b(dr), test=t, thenNode=then, elseNode=els)


# ------------------------------------------------------------------------------------------------ chained_logic


def translate_chained_logic(fn: ast.FunctionDef) -> str:
    ps = _params(fn)
    if len(ps) != 1 or fn.args.vararg is None:
        raise TranslationError("chained_logic: signature changed")
    op, conds = ps[0], fn.args.vararg.arg
    stmts = _body(fn)
    # functools.reduce(operator, conditions)
    if len(stmts) == 1 and isinstance(stmts[0], ast.Return) and isinstance(stmts[0].value, ast.Call):
        c = stmts[0].value
        if ast.unparse(c.func) in ("reduce", "functools.reduce") and len(c.args) == 2 and not c.keywords \
                and _is_name(c.args[0], op) and _is_name(c.args[1], conds):
            return ".leftNested"
        raise TranslationError(f"chained_logic: unsupported {ast.unparse(c)}")
    if not (len(stmts) == 3 and isinstance(stmts[0], ast.Assign) and isinstance(stmts[1], ast.For)
            and isinstance(stmts[2], ast.Return)):
        raise TranslationError("chained_logic: unsupported statement shape")
    init, loop, ret = stmts
    if not (len(init.targets) == 1 and isinstance(init.targets[0], ast.Name)
            and isinstance(init.value, ast.Constant) and init.value.value is None):
        raise TranslationError(f"chained_logic: unsupported initialisation {ast.unparse(init)}")
    acc = init.targets[0].id
    if not _is_name(ret.value, acc) or loop.orelse or not isinstance(loop.target, ast.Name):
        raise TranslationError("chained_logic: unsupported loop / result")
    x = loop.target.id
    if _is_name(loop.iter, conds):
        rev = False
    elif (isinstance(loop.iter, ast.Call) and _is_name(loop.iter.func, "reversed") and len(loop.iter.args) == 1
          and _is_name(loop.iter.args[0], conds)):
        rev = True
    else:
        raise TranslationError(f"chained_logic: unsupported iteration {ast.unparse(loop.iter)}")
    body = list(loop.body)
    # `if acc is None: acc = x; continue` + `acc = op(..)`   |   `if acc is None: acc = x  else: acc = op(..)`
    if not (body and isinstance(body[0], ast.If)):
        raise TranslationError("chained_logic: unsupported loop body")
    first = body[0]
    t = first.test
    if not (isinstance(t, ast.Compare) and len(t.ops) == 1 and isinstance(t.ops[0], ast.Is) and _is_name(t.left, acc)
            and isinstance(t.comparators[0], ast.Constant) and t.comparators[0].value is None):
        raise TranslationError(f"chained_logic: unsupported test {ast.unparse(t)}")
    fb = list(first.body)
    if fb and isinstance(fb[-1], ast.Continue):
        fb = fb[:-1]
        step = body[1:]
        if first.orelse:
            raise TranslationError("chained_logic: unsupported loop body")
    else:
        step = list(first.orelse)
        if len(body) != 1:
            raise TranslationError("chained_logic: unsupported loop body")
    if not (len(fb) == 1 and isinstance(fb[0], ast.Assign) and len(fb[0].targets) == 1
            and _is_name(fb[0].targets[0], acc) and _is_name(fb[0].value, x)):
        raise TranslationError("chained_logic: unsupported first-element branch")
    if not (len(step) == 1 and isinstance(step[0], ast.Assign) and len(step[0].targets) == 1
            and _is_name(step[0].targets[0], acc) and isinstance(step[0].value, ast.Call)
            and _is_name(step[0].value.func, op) and len(step[0].value.args) == 2 and not step[0].value.keywords):
        raise TranslationError("chained_logic: unsupported step")
    a, b = step[0].value.args
    if _is_name(a, acc) and _is_name(b, x):
        acc_first = True
    elif _is_name(a, x) and _is_name(b, acc):
        acc_first = False
    else:
        raise TranslationError(f"chained_logic: unsupported step {ast.unparse(step[0])}")
    if not rev and acc_first:
        return ".leftNested"
    if not rev and not acc_first:
        return ".reversedNested"
    if rev and not acc_first:
        return ".rightNested"
    raise TranslationError("chained_logic: reversed iteration with the accumulator first is not describable")


# ------------------------------------------------------------------------------------------------ entity.py

BIN_OPS = {"AND": ".and", "ElseIf": ".elseIf", "Union": ".union", "optimize_or": ".optOr"}
QUANT = {"Exists": ".exists_", "ForAll": ".forAll"}


def entity_imports(tree: ast.Module) -> Dict[str, str]:
    """local name in entity.py -> name in symbolic.py, for `from .symbolic import X [as Y]` at module level (a name that
    is bound in any other way — `typing.Union`! — does not denote the symbolic class)"""
    out: Dict[str, str] = {}
    other: set = set()
    for s in tree.body:
        if isinstance(s, ast.ImportFrom):
            for a in s.names:
                local = a.asname or a.name
                if s.level == 1 and s.module == "symbolic":
                    out[local] = a.name
                else:
                    other.add(local)
        elif isinstance(s, ast.Import):
            for a in s.names:
                other.add((a.asname or a.name).split(".")[0])
    # a later import of the same local name from elsewhere shadows the symbolic one: keep only unambiguous names
    return {k: v for k, v in out.items() if k not in other}


_IMPORTS: Dict[str, str] = {}
_OPERATOR_IS_MODULE = True


def _sym(e: ast.AST) -> Optional[str]:
    """the symbolic.py name a Name node of entity.py denotes"""
    return _IMPORTS.get(e.id) if isinstance(e, ast.Name) else None


def _single_return(fn: ast.FunctionDef, what: str) -> ast.expr:
    stmts = _body(fn)
    if len(stmts) == 1 and isinstance(stmts[0], ast.Return) and stmts[0].value is not None:
        return stmts[0].value
    raise TranslationError(f"{what}: expected a single return statement")


def translate_chain_user(fn: ast.FunctionDef) -> str:
    """`and_` / `or_`: `return chained_logic(OP, *conditions)`"""
    if fn.args.args or fn.args.vararg is None:
        raise TranslationError(f"{fn.name}: signature changed")
    r = _single_return(fn, fn.name)
    if (isinstance(r, ast.Call) and _sym(r.func) == "chained_logic" and len(r.args) == 2 and not r.keywords
            and _sym(r.args[0]) in BIN_OPS and isinstance(r.args[1], ast.Starred)
            and _is_name(r.args[1].value, fn.args.vararg.arg)):
        return BIN_OPS[_sym(r.args[0])]
    raise TranslationError(f"{fn.name}: unsupported {ast.unparse(r)}")


def translate_not(fn: ast.FunctionDef) -> str:
    ps = _params(fn)
    if len(ps) != 1:
        raise TranslationError("not_: signature changed")
    x = ps[0]
    stmts = _body(fn)
    # optional: `if not isinstance(x, SymbolicExpression): x = Literal(x)`
    if len(stmts) == 2 and isinstance(stmts[0], ast.If) and not stmts[0].orelse:
        g = stmts[0]
        if (ast.unparse(g.test) == f"not isinstance({x}, SymbolicExpression)" and len(g.body) == 1
                and ast.unparse(g.body[0]) == f"{x} = Literal({x})" and _IMPORTS.get("Literal") == "Literal"
                and _IMPORTS.get("SymbolicExpression") == "SymbolicExpression"):
            stmts = stmts[1:]
    if len(stmts) == 1 and isinstance(stmts[0], ast.Return) and stmts[0].value is not None:
        r = stmts[0].value
        if ast.unparse(r) == f"{x}._invert_()":
            return "true"
        if isinstance(r, ast.Call) and _sym(r.func) == "Not":
            a = _call_args(r, ["_child_"])
            if _is_name(a[0], x):
                return "false"
    raise TranslationError("not_: unsupported body")


def translate_quantifier_fn(fn: ast.FunctionDef) -> str:
    ps = _params(fn)
    if len(ps) != 2:
        raise TranslationError(f"{fn.name}: signature changed")
    r = _single_return(fn, fn.name)
    if isinstance(r, ast.Call) and _sym(r.func) in QUANT:
        args = _call_args(r, ["left", "right"])
        if _is_name(args[0], ps[0]) and _is_name(args[1], ps[1]):
            return QUANT[_sym(r.func)]
    raise TranslationError(f"{fn.name}: unsupported {ast.unparse(r)}")


def _comparator_call(r: ast.expr, what: str) -> Optional[List[ast.expr]]:
    if isinstance(r, ast.Call) and _sym(r.func) == "Comparator":
        args = _call_args(r, ["left", "right", "operation"])
        if ast.unparse(args[2]) != "operator.contains" or not _OPERATOR_IS_MODULE:
            raise TranslationError(f"{what}: operation is {ast.unparse(args[2])}")
        return args[:2]
    return None


def translate_membership(fns: Dict[str, ast.FunctionDef]) -> Tuple[str, str]:
    """-> (containsSwapped, inSwapped): is the Comparator's FIRST operand the item (swapped) or the container"""
    def direct(name: str, depth: int = 0) -> Tuple[str, str]:
        """the names of the parameters of `name` that become (first operand, second operand)"""
        fn = fns.get(name)
        if fn is None:
            raise TranslationError(f"{name} not found")
        ps = _params(fn)
        if len(ps) != 2:
            raise TranslationError(f"{name}: signature changed")
        r = _single_return(fn, name)
        args = _comparator_call(r, name)
        if args is None:
            other = {"contains": "in_", "in_": "contains"}[name]
            if depth == 0 and isinstance(r, ast.Call) and _is_name(r.func, other):
                ops = fns.get(other)
                if ops is None:
                    raise TranslationError(f"{other} not found")
                a = _call_args(r, _params(ops))
                sub = dict(zip(_params(ops), a))
                f1, f2 = direct(other, 1)
                args = [sub[f1], sub[f2]]
            else:
                raise TranslationError(f"{name}: unsupported {ast.unparse(r)}")
        if not (isinstance(args[0], ast.Name) and isinstance(args[1], ast.Name) and {args[0].id, args[1].id} == set(ps)):
            raise TranslationError(f"{name}: unsupported operands {ast.unparse(r)}")
        return args[0].id, args[1].id

    b = lambda x: "true" if x else "false"
    c_ps = _params(fns["contains"]) if "contains" in fns else None
    i_ps = _params(fns["in_"]) if "in_" in fns else None
    if c_ps is None or i_ps is None:
        raise TranslationError("contains / in_ not found")
    # `contains(container, item)`: parameter 0 is the container; `in_(item, container)`: parameter 1 is the container
    c_first, _ = direct("contains")
    i_first, _ = direct("in_")
    return b(c_first != c_ps[0]), b(i_first != i_ps[1])


# ------------------------------------------------------------------------------------------------ _invert_


def _base_name(b: ast.expr) -> Optional[str]:
    if isinstance(b, ast.Name):
        return b.id
    if isinstance(b, ast.Subscript) and isinstance(b.value, ast.Name):
        return b.value.id
    if isinstance(b, ast.Attribute):
        return b.attr
    return None


def mro(name: str, classes: Dict[str, ast.ClassDef]) -> List[str]:
    """C3 linearisation over the classes defined in the module (external bases — ABC, Generic — carry no `_invert_`)"""
    def lin(n: str, seen: Tuple[str, ...]) -> List[str]:
        if n in seen:
            raise TranslationError(f"cyclic class hierarchy at {n}")
        c = classes[n]
        bases = [b for b in (_base_name(x) for x in c.bases) if b in classes]
        seqs = [lin(b, seen + (n,)) for b in bases] + [list(bases)]
        out = [n]
        while any(seqs):
            seqs = [s for s in seqs if s]
            for s in seqs:
                h = s[0]
                if not any(h in t[1:] for t in seqs):
                    break
            else:
                raise TranslationError(f"inconsistent class hierarchy at {n}")
            out.append(h)
            seqs = [[y for y in s if y != h] if s and s[0] == h else s for s in seqs]
            seqs = [s for s in seqs if s]
        return out
    if name not in classes:
        raise TranslationError(f"class {name} not found")
    return lin(name, ())


def _defines_invert(c: ast.ClassDef) -> Optional[ast.FunctionDef]:
    found = None
    for s in c.body:
        if isinstance(s, ast.FunctionDef) and s.name == "_invert_":
            if s.decorator_list:
                raise TranslationError(f"{c.name}._invert_ is decorated")
            found = s
        elif isinstance(s, (ast.Assign, ast.AnnAssign)):
            ts = s.targets if isinstance(s, ast.Assign) else [s.target]
            if any(_is_name(t, "_invert_") for t in ts):
                raise TranslationError(f"{c.name}._invert_ is assigned, not defined")
        elif isinstance(s, ast.AsyncFunctionDef) and s.name == "_invert_":
            raise TranslationError(f"{c.name}._invert_ is async")
    return found


OPS = {"operator.eq": ".cmp .eq", "operator.ne": ".cmp .ne", "operator.lt": ".cmp .lt", "operator.le": ".cmp .le",
       "operator.gt": ".cmp .gt", "operator.ge": ".cmp .ge", "operator.contains": ".contains",
       "not_contains": ".notContains"}

BINARY = ("AND", "ElseIf", "Union")
QUANTS = ("Exists", "ForAll")
TERMS = ("Variable", "Literal", "Attribute", "Index", "Call", "Flatten")


def _class_dict(cls: str, attr: str, classes) -> List[Tuple[str, str]]:
    """a class-level `attr = {operator.x: operator.y, …}` found along the MRO of `cls`"""
    for n in mro(cls, classes):
        for s in classes[n].body:
            tgt = val = None
            if isinstance(s, ast.Assign) and len(s.targets) == 1:
                tgt, val = s.targets[0], s.value
            elif isinstance(s, ast.AnnAssign):
                tgt, val = s.target, s.value
            if tgt is not None and _is_name(tgt, attr):
                if not isinstance(val, ast.Dict):
                    raise TranslationError(f"{n}.{attr} is not a dict literal")
                out = []
                for k, v in zip(val.keys, val.values):
                    ks, vs = (ast.unparse(k) if k is not None else "**"), ast.unparse(v)
                    if ks not in OPS or vs not in OPS:
                        raise TranslationError(f"{n}.{attr}: unknown operation {ks}: {vs}")
                    if ks in [a for a, _ in out]:
                        raise TranslationError(f"{n}.{attr}: duplicate key {ks}")
                    out.append((ks, vs))
                return out
    raise TranslationError(f"{cls}.{attr} not found")


def _rule_from(cls: str, start: int, classes) -> str:
    """the InvRule of `cls`, `_invert_` looked up from position `start` of its MRO"""
    order = mro(cls, classes)
    for pos in range(start, len(order)):
        fn = _defines_invert(classes[order[pos]])
        if fn is not None:
            return _invert_body(cls, pos, fn, classes)
    raise TranslationError(f"{cls}: no _invert_ along the MRO")


def _arg(e: ast.expr, cls: str) -> Optional[str]:
    src = ast.unparse(e)
    table = {"self.left": ".left", "self.right": ".right", "self.left._invert_()": ".leftInv",
             "self.right._invert_()": ".rightInv"}
    if cls in QUANTS:
        table = {}
    return table.get(src)


def _invert_body(cls: str, pos: int, fn: ast.FunctionDef, classes) -> str:
    if _params(fn) != ["self"] or fn.args.vararg is not None:
        raise TranslationError(f"{cls}._invert_: signature changed")
    stmts = _flat_if(_body(fn))
    where = f"{cls}._invert_ (defined in {mro(cls, classes)[pos]})"
    if len(stmts) == 1 and isinstance(stmts[0], ast.Return) and stmts[0].value is not None:
        r = stmts[0].value
        src = ast.unparse(r)
        if src in ("Not(self)", "Not(_child_=self)"):
            return ".wrapNot"
        if src == "super()._invert_()":
            return _rule_from(cls, pos + 1, classes)
        if cls == "Not" and src == "self._child_":
            return ".operand false"
        if cls == "Not" and src == "self._child_._invert_()":
            return ".operand true"
        if isinstance(r, ast.Call) and isinstance(r.func, ast.Name):
            f = r.func.id
            if cls in BINARY and f in BIN_OPS:
                args = _call_args(r, ["left", "right"])
                a, b = _arg(args[0], cls), _arg(args[1], cls)
                if a and b:
                    return f".bin {BIN_OPS[f]} {a} {b}"
            if cls in QUANTS and f in QUANT:
                args = _call_args(r, ["left", "right"])
                v, c = ast.unparse(args[0]), ast.unparse(args[1])
                if v in ("self.variable", "self.left"):
                    if c in ("self.condition", "self.right"):
                        return f".quant {QUANT[f]} false"
                    if c in ("self.condition._invert_()", "self.right._invert_()"):
                        return f".quant {QUANT[f]} true"
        raise TranslationError(f"{where}: unsupported result {src}")
    if cls == "Comparator":
        return _comparator_invert(cls, pos, stmts, classes, where)
    raise TranslationError(f"{where}: unsupported statement shape")


def _comparator_invert(cls, pos, stmts, classes, where) -> str:
    """
    (a)  x = self.M.get(self.operation[, None]);  if x is None: return <fallback>;  return Comparator(self.left, self.right, x)
    (b)  if self.operation in self.M: return Comparator(self.left, self.right, self.M[self.operation]);  return <fallback>
    (c)  if self.operation not in self.M: return <fallback>;  return Comparator(self.left, self.right, self.M[self.operation])
    where <fallback> resolves to `Not(self)`
    """
    def fallback_ok(s: ast.stmt) -> bool:
        if not (isinstance(s, ast.Return) and s.value is not None):
            return False
        src = ast.unparse(s.value)
        if src in ("Not(self)", "Not(_child_=self)"):
            return True
        return src == "super()._invert_()" and _rule_from(cls, pos + 1, classes) == ".wrapNot"

    def rebuilt(s: ast.stmt, opsrc: List[str]) -> bool:
        if not (isinstance(s, ast.Return) and isinstance(s.value, ast.Call) and _is_name(s.value.func, "Comparator")):
            return False
        a = _call_args(s.value, ["left", "right", "operation"])
        return ast.unparse(a[0]) == "self.left" and ast.unparse(a[1]) == "self.right" and ast.unparse(a[2]) in opsrc

    mapname = None
    if (len(stmts) == 3 and isinstance(stmts[0], ast.Assign) and len(stmts[0].targets) == 1
            and isinstance(stmts[0].targets[0], ast.Name) and isinstance(stmts[1], ast.If) and not stmts[1].orelse
            and len(stmts[1].body) == 1):
        x = stmts[0].targets[0].id
        v = stmts[0].value
        if (isinstance(v, ast.Call) and isinstance(v.func, ast.Attribute) and v.func.attr == "get"
                and isinstance(v.func.value, ast.Attribute) and _is_name(v.func.value.value, "self")
                and not v.keywords and len(v.args) in (1, 2) and ast.unparse(v.args[0]) == "self.operation"
                and (len(v.args) == 1 or ast.unparse(v.args[1]) == "None")
                and ast.unparse(stmts[1].test) == f"{x} is None" and fallback_ok(stmts[1].body[0])
                and rebuilt(stmts[2], [x])):
            mapname = v.func.value.attr
    elif len(stmts) == 2 and isinstance(stmts[0], ast.If) and not stmts[0].orelse and len(stmts[0].body) == 1:
        t = stmts[0].test
        if (isinstance(t, ast.Compare) and len(t.ops) == 1 and ast.unparse(t.left) == "self.operation"
                and isinstance(t.comparators[0], ast.Attribute) and _is_name(t.comparators[0].value, "self")):
            m = t.comparators[0].attr
            look = [f"self.{m}[self.operation]"]
            if isinstance(t.ops[0], ast.In) and rebuilt(stmts[0].body[0], look) and fallback_ok(stmts[1]):
                mapname = m
            elif isinstance(t.ops[0], ast.NotIn) and fallback_ok(stmts[0].body[0]) and rebuilt(stmts[1], look):
                mapname = m
    if mapname is None:
        raise TranslationError(f"{where}: unsupported statement shape")
    pairs = _class_dict(cls, mapname, classes)
    return ".opTable [" + ", ".join(f"({OPS[k]}, {OPS[v]})" for k, v in pairs) + "]"


def translate_dunder(classes, name: str) -> str:
    """`SymbolicExpression.__and__` / `__or__`: `return OP(self, other)`; no other class of the hierarchy may define it"""
    for c in classes.values():
        if c.name != "SymbolicExpression" and any(
                isinstance(s, (ast.FunctionDef, ast.AsyncFunctionDef)) and s.name in (name, name.replace("__", "__r", 1))
                or isinstance(s, (ast.Assign, ast.AnnAssign)) and any(
                    _is_name(t, name) for t in (s.targets if isinstance(s, ast.Assign) else [s.target]))
                for s in c.body) and "SymbolicExpression" in mro(c.name, classes):
            raise TranslationError(f"{c.name} overrides {name}")
    base = classes.get("SymbolicExpression")
    if base is None:
        raise TranslationError("class SymbolicExpression not found")
    fns = [s for s in base.body if isinstance(s, ast.FunctionDef) and s.name == name]
    if len(fns) != 1 or fns[0].decorator_list:
        raise TranslationError(f"SymbolicExpression.{name} not found / defined twice / decorated")
    ps = _params(fns[0])
    if len(ps) != 2:
        raise TranslationError(f"SymbolicExpression.{name}: signature changed")
    r = _single_return(fns[0], name)
    if isinstance(r, ast.Call) and isinstance(r.func, ast.Name) and r.func.id in BIN_OPS:
        a = _call_args(r, ["left", "right"])
        if _is_name(a[0], ps[0]) and _is_name(a[1], ps[1]):
            return BIN_OPS[r.func.id]
    raise TranslationError(f"SymbolicExpression.{name}: unsupported {ast.unparse(r)}")


def translate_inverts(classes) -> Dict[str, str]:
    out = {}
    out["invComparator"] = _rule_from("Comparator", 0, classes)
    term_rules = {c: _rule_from(c, 0, classes) for c in TERMS}
    if len(set(term_rules.values())) != 1:
        raise TranslationError(f"the term classes do not share one _invert_: {term_rules}")
    out["invTerm"] = next(iter(term_rules.values()))
    if out["invTerm"] != ".wrapNot":
        # a term class has no operands a rule could mention: anything else is not describable
        raise TranslationError(f"term classes: _invert_ is {out['invTerm']}")
    for field, cls in (("invAnd", "AND"), ("invElseIf", "ElseIf"), ("invUnion", "Union"), ("invNot", "Not"),
                       ("invExists", "Exists"), ("invForAll", "ForAll")):
        out[field] = _rule_from(cls, 0, classes)
    return out


# ------------------------------------------------------------------------------------------------ assembly

FIELDS = ["fold", "andOp", "orOp", "ampOp", "barOp", "notInverts", "existsCtor", "forAllCtor", "containsSwapped", "inSwapped",
          "invComparator", "invTerm", "invAnd", "invElseIf", "invUnion", "invNot", "invExists", "invForAll"]

EXPECTED = {
    "orRule": dict(dropLitL="true", dropLitR="true", test=".setEq", thenNode=".elseIf", elseNode=".union"),
    "fold": ".leftNested", "andOp": ".and", "orOp": ".optOr", "ampOp": ".and", "barOp": ".optOr", "notInverts": "true", "existsCtor": ".exists_",
    "forAllCtor": ".forAll", "containsSwapped": "false", "inSwapped": "false", "invComparator": ".wrapNot",
    "invTerm": ".wrapNot", "invAnd": ".wrapNot", "invElseIf": ".wrapNot", "invUnion": ".wrapNot", "invNot": ".wrapNot",
    "invExists": ".quant .forAll true", "invForAll": ".quant .exists_ true",
}


def table(symbolic_src: str, entity_src: str) -> Dict[str, object]:
    sym, ent = ast.parse(symbolic_src), ast.parse(entity_src)
    sf, sc, ef = _functions(sym), _classes(sym), _functions(ent)
    for need in ("optimize_or", "chained_logic"):
        if need not in sf:
            raise TranslationError(f"symbolic.py: function {need} not found")
    for need in ("and_", "or_", "not_", "exists", "for_all", "contains", "in_"):
        if need not in ef:
            raise TranslationError(f"entity.py: function {need} not found")
    for name in ("and_", "or_", "not_", "exists", "for_all", "contains", "in_"):
        if ef[name].decorator_list:
            raise TranslationError(f"entity.py: {name} is decorated")
    for name in ("optimize_or", "chained_logic"):
        if sf[name].decorator_list:
            raise TranslationError(f"symbolic.py: {name} is decorated")
    # the names the bodies refer to must be the module-level definitions (no rebinding at module level)
    for tree, names, where in ((sym, ["optimize_or", "chained_logic", "Not", "AND", "ElseIf", "Union", "Exists", "ForAll",
                                      "Comparator", "not_contains", "Literal"], "symbolic.py"),
                               (ent, ["and_", "or_", "not_", "exists", "for_all", "contains", "in_"], "entity.py")):
        for s in tree.body:
            tg = []
            if isinstance(s, ast.Assign):
                tg = s.targets
            elif isinstance(s, (ast.AnnAssign, ast.AugAssign)):
                tg = [s.target]
            for t in tg:
                for n in ast.walk(t):
                    if isinstance(n, ast.Name) and n.id in names:
                        raise TranslationError(f"{where}: {n.id} is re-bound at module level")
            if isinstance(s, (ast.Import, ast.ImportFrom)):
                for a in s.names:
                    if (a.asname or a.name).split(".")[0] in names:
                        raise TranslationError(f"{where}: {a.asname or a.name} is bound by an import")
        defs = [s.name for s in tree.body if isinstance(s, (ast.FunctionDef, ast.ClassDef, ast.AsyncFunctionDef))]
        for n in names:
            if defs.count(n) > 1:
                raise TranslationError(f"{where}: {n} is defined more than once")
    global _IMPORTS, _OPERATOR_IS_MODULE
    _IMPORTS = entity_imports(ent)
    _OPERATOR_IS_MODULE = all(
        any(isinstance(s, ast.Import) and any(a.name == "operator" and a.asname is None for a in s.names) for s in tr.body)
        and not any(isinstance(s, ast.ImportFrom) and any((a.asname or a.name) == "operator" for a in s.names) for s in tr.body)
        for tr in (sym, ent))
    if not _OPERATOR_IS_MODULE:
        raise TranslationError("`operator` is not the standard module in symbolic.py / entity.py")
    t: Dict[str, object] = {}
    t["orRule"] = translate_optimize_or(sf["optimize_or"])
    t["fold"] = translate_chained_logic(sf["chained_logic"])
    t["andOp"] = translate_chain_user(ef["and_"])
    t["orOp"] = translate_chain_user(ef["or_"])
    t["ampOp"] = translate_dunder(sc, "__and__")
    t["barOp"] = translate_dunder(sc, "__or__")
    t["notInverts"] = translate_not(ef["not_"])
    t["existsCtor"] = translate_quantifier_fn(ef["exists"])
    t["forAllCtor"] = translate_quantifier_fn(ef["for_all"])
    t["containsSwapped"], t["inSwapped"] = translate_membership(ef)
    t.update(translate_inverts(sc))
    return t


def diff(t: Dict[str, object]) -> List[str]:
    out = []
    for k, v in EXPECTED.items():
        if isinstance(v, dict):
            for kk, vv in v.items():
                if t[k][kk] != vv:  # type: ignore[index]
                    out.append(f"{k}.{kk}: model {vv}, source {t[k][kk]}")  # type: ignore[index]
        elif t[k] != v:
            out.append(f"{k}: model {v}, source {t[k]}")
    return out


def render(t: Dict[str, object]) -> str:
    o = t["orRule"]
    lines = ["import KrroodVerif.Model.EqlRewrites",
             "/-! GENERATED by harness/translate/c02_translate.py from symbolic.py / entity.py — do not edit -/",
             "namespace KrroodVerif.Eql.Translated", "open KrroodVerif.Eql", "",
             "def rewrites : RewriteTable where",
             "  orRule := { dropLitL := %s, dropLitR := %s, test := %s, thenNode := %s, elseNode := %s }"
             % (o["dropLitL"], o["dropLitR"], o["test"], o["thenNode"], o["elseNode"])]  # type: ignore[index]
    for f in FIELDS:
        lines.append(f"  {f} := {t[f]}")
    lines.append(PROOFS)
    lines.append("end KrroodVerif.Eql.Translated")
    return "\n".join(lines) + "\n"


PROOFS = r'''
/-- the table regenerated from the current source is the table the model (`build` = `buildWith Eql.rewrites ∘ ofS`,
`buildWith_rewrites_eq_build`) transcribes -/
theorem C02_rewrites_translated_eq_model : Translated.rewrites = KrroodVerif.Eql.rewrites := by decide

/-- the regenerated table passes the admissibility check that `satE_buildWith` (meaning preserved for every expression),
`rewritesOk_or_equal_vars` and `C02_multiplicity_okTable` assume -/
theorem C02_rewrites_translated_ok : RewritesOk Translated.rewrites = true := by decide
'''


def generate(repo: Path) -> str:
    return render(table((repo / SYMBOLIC).read_text(), (repo / ENTITY).read_text()))


if __name__ == "__main__":
    import sys
    print(generate(Path(sys.argv[1] if len(sys.argv) > 1 else "/repo")))
