"""Translator (Python AST -> Lean 4) for the decision structure of `SubclassJSONSerializer.from_json`
(`src/krrood/adapters/json_serializer.py`) — the second tie of C19 between the model and the code.

`from_json` is, after its leaf and list cases, a straight line of *stages* (Model/Json.lean, `Stage`): one thing is
attempted, possibly inside `try … except (classes): raise Error`, or a guard `if …: raise Error` is evaluated; two
stages return. The translator walks the body statement by statement, recognises each stage by its SHAPE and by the
DATA FLOW between the local variables (not by their names), and emits

    def Translated.stageTable : StageTable := [ … ]
    theorem C19_stages_translated_eq_model : Translated.stageTable = Json.stageTable := by decide
    theorem C19_translated_meets_property  : ∀ env tag, ∃ o, interp Translated.stageTable env tag = some o ∧ …

which the Lean kernel re-checks on every run against the hand-written table, for which `resolve_eq_interp` proves
`interp stageTable = resolve Quirks.current` (the function all C19 theorems are about).

Strict: any statement shape not listed below -> `TranslationError` (the check then reports the obligation as broken,
searches for a concrete failing input, and says `no-failing-input-found` if there is none).

Recognised statements, in any order that respects the data flow (the ORDER is part of the table):
  docstring / `pass`                                             skipped
  `if isinstance(data, leaf_types): return data`                  leaf case   (must come first, verbatim)
  `if isinstance(data, list_like_classes): return [from_json(d) for d in data]`   list case (second, verbatim)
  `T = data.get(JSON_TYPE_NAME)`                                  getTag
  `if not T: raise E`                                             checkTruthy
  `if not isinstance(T, str): raise E`                            checkIsStr
  `try: M, C = T.rsplit(".", 1)  except X: raise E`               rsplit
  `try: MOD = importlib.import_module(M)  except X: raise E`      importModule
  `try: K = getattr(MOD, C)  except X: raise E`                   getattrClass
  `if not isinstance(K, type): raise E`                           checkIsType
  `if issubclass(K, SubclassJSONSerializer): [guard] return K._from_json(data, **kwargs)`
        subclassBranch, [implementsFromJson], callFromJson; guard = `if getattr(K._from_json, "__func__", None) is
        SubclassJSONSerializer._from_json.__func__: raise E` (or `K._from_json.__func__ is …`)
  `R = JSONSerializableTypeRegistry().get_deserializer(K)`        registryLookup
  `if not R: raise E`                                             checkRegistered
  `return R(data, **kwargs)`                                      callRegistry
The three try-stages may also appear without `try` (caught = []).  `raise E` is `raise Name(args) [from v]` with
`Name` one of the five documented errors and exactly the arguments the error class takes.

Normalisations (each semantically the identity for every input):
  * names of local variables and of the `as` variable of a handler; `from exc` present or not (only `__cause__`);
  * order and duplicates of the classes in an `except (A, B)` tuple; several `except` clauses raising the same error
    are merged; a class subsumed by another one listed (`ModuleNotFoundError` next to `ImportError`) is dropped;
  * comments, docstrings, blank lines, line breaks, parentheses (not in the AST);
  * a local alias `v = <name | attribute chain | constant>` is inlined wherever `v` is used afterwards; an alias of a
    call (`reg = JSONSerializableTypeRegistry()`, `ok = issubclass(K, …)`, `parts = T.rsplit(".", 1)`) is inlined only
    into the NEXT statement, only if that statement is not a `try` and the alias is used exactly once (so the call is
    evaluated at the same point, under the same handlers);
  * `return R(data, **kwargs)` may be written with the call stored in a local first (covered by the alias rule).
Nothing else is normalised: `if T is None` is not `if not T`, `split` is not `rsplit`, an `else` branch is rejected.
"""
from __future__ import annotations

import ast
import builtins
import copy
from pathlib import Path
from typing import Dict, List, Optional, Tuple


class TranslationError(Exception):
    pass


ERRORS = {  # documented error -> (Lean name, expected argument roles)
    "MissingTypeError": ("missingType", []),
    "InvalidTypeFormatError": ("invalidFormat", ["tag"]),
    "UnknownModuleError": ("unknownModule", ["module_name"]),
    "ClassNotFoundError": ("classNotFound", ["class_name", "module_name"]),
    "ClassNotDeserializableError": ("notDeserializable", ["target"]),
}

# except classes: name -> Lean ExcClass; canonical order = order of the Lean enum
EXC_ORDER = ["exception", "importError", "moduleNotFoundError", "valueError", "typeError", "attributeError",
             "notImplementedError", "runtimeError", "other"]
EXC_BY_NAME = {
    "Exception": "exception", "ImportError": "importError", "ModuleNotFoundError": "moduleNotFoundError",
    "ValueError": "valueError", "TypeError": "typeError", "AttributeError": "attributeError",
    "NotImplementedError": "notImplementedError", "RuntimeError": "runtimeError",
}
RAISED = [AttributeError, ValueError, TypeError, ImportError, ModuleNotFoundError, NotImplementedError]
# which of the primitives' exceptions a Lean ExcClass catches (mirrors `Json.catches`)
CATCH_SET = {
    "exception": set(RAISED), "importError": {ImportError, ModuleNotFoundError}, "moduleNotFoundError": {ModuleNotFoundError},
    "valueError": {ValueError}, "typeError": {TypeError}, "attributeError": {AttributeError},
    "notImplementedError": {NotImplementedError}, "runtimeError": {NotImplementedError}, "other": set(),
}


def _exc_class(e: ast.AST) -> str:
    if not isinstance(e, ast.Name):
        raise TranslationError(f"unsupported except class {ast.unparse(e)}")
    if e.id in EXC_BY_NAME:
        return EXC_BY_NAME[e.id]
    obj = getattr(builtins, e.id, None)
    if isinstance(obj, type) and issubclass(obj, Exception):
        if not any(issubclass(r, obj) for r in RAISED):
            return "other"  # a builtin exception class that catches nothing the primitives raise
    raise TranslationError(f"unsupported except class {e.id}")


def _canon_caught(classes: List[str]) -> List[str]:
    """sorted, without duplicates, without classes strictly subsumed by another listed class"""
    cs = sorted(set(classes), key=EXC_ORDER.index)
    return [c for c in cs if not any(CATCH_SET[c] < CATCH_SET[d] for d in cs)]


class _Subst(ast.NodeTransformer):
    def __init__(self, table: Dict[str, ast.AST]):
        self.table = table
        self.used: Dict[str, int] = {}

    def visit_Name(self, node: ast.Name):
        if isinstance(node.ctx, ast.Load) and node.id in self.table:
            self.used[node.id] = self.used.get(node.id, 0) + 1
            return copy.deepcopy(self.table[node.id])
        return node


def _is_safe_alias(e: ast.AST) -> bool:
    """cannot raise and has no effect: a name, a constant, an attribute chain on a name"""
    if isinstance(e, (ast.Name, ast.Constant)):
        return True
    return isinstance(e, ast.Attribute) and _is_safe_alias(e.value)


def _count_loads(stmts, name: str) -> int:
    return sum(1 for s in stmts for n in ast.walk(s) if isinstance(n, ast.Name) and n.id == name and isinstance(n.ctx, ast.Load))


class _Translator:
    def __init__(self, fn: ast.FunctionDef):
        self.fn = fn
        args = [a.arg for a in fn.args.args]
        if args != ["cls", "data"] or fn.args.kwarg is None or fn.args.vararg is not None or fn.args.kwonlyargs:
            raise TranslationError(f"from_json signature changed: {ast.unparse(fn.args)}")
        self.data = "data"
        self.kwargs = fn.args.kwarg.arg
        self.role: Dict[str, str] = {}  # role -> variable name: tag, module_name, class_name, module, target, deser
        self.stages: List[Tuple[str, List[str], Optional[str]]] = []
        self.safe: Dict[str, ast.AST] = {}

    # ------------------------------------------------------------------------------------------ helpers
    def var(self, role: str) -> str:
        if role not in self.role:
            raise TranslationError(f"statement uses the {role} before it is bound")
        return self.role[role]

    def is_var(self, e: ast.AST, role: str) -> bool:
        return isinstance(e, ast.Name) and role in self.role and e.id == self.role[role]

    def bind(self, role: str, target: ast.AST):
        if not isinstance(target, ast.Name):
            raise TranslationError(f"unsupported assignment target {ast.unparse(target)}")
        if target.id in (self.data, self.kwargs) or target.id in self.role.values():
            raise TranslationError(f"variable {target.id} is re-bound")
        self.role[role] = target.id

    def error_of(self, s: ast.stmt, handler_var: Optional[str] = None) -> str:
        if not isinstance(s, ast.Raise) or s.exc is None:
            raise TranslationError(f"expected `raise <documented error>`, found {ast.unparse(s)}")
        if s.cause is not None and not (isinstance(s.cause, ast.Name) and s.cause.id == handler_var):
            raise TranslationError(f"unsupported `from` clause in {ast.unparse(s)}")
        exc = s.exc
        if not (isinstance(exc, ast.Call) and isinstance(exc.func, ast.Name) and exc.func.id in ERRORS and not exc.keywords):
            raise TranslationError(f"not a documented error: {ast.unparse(s)}")
        lean, roles = ERRORS[exc.func.id]
        if len(exc.args) != len(roles) or not all(self.is_var(a, r) for a, r in zip(exc.args, roles)):
            raise TranslationError(f"unexpected arguments in {ast.unparse(exc)} (expected {roles})")
        return lean

    def single_raise(self, body: List[ast.stmt], handler_var: Optional[str] = None) -> str:
        body = [b for b in body if not self.skippable(b)]
        if len(body) != 1:
            raise TranslationError("a guard / handler body must be exactly one `raise`")
        return self.error_of(body[0], handler_var)

    @staticmethod
    def skippable(s: ast.stmt) -> bool:
        return isinstance(s, ast.Pass) or (isinstance(s, ast.Expr) and isinstance(s.value, ast.Constant))

    def is_data_kwargs_call(self, e: ast.AST, func_test) -> bool:
        return (isinstance(e, ast.Call) and func_test(e.func) and len(e.args) == 1 and isinstance(e.args[0], ast.Name)
                and e.args[0].id == self.data and len(e.keywords) == 1 and e.keywords[0].arg is None
                and isinstance(e.keywords[0].value, ast.Name) and e.keywords[0].value.id == self.kwargs)

    # ------------------------------------------------------------------------------------------ primitives
    def primitive(self, s: ast.stmt) -> Optional[str]:
        """an assignment that is one of the four binding primitives; binds the roles; returns the op"""
        if not (isinstance(s, ast.Assign) and len(s.targets) == 1):
            return None
        t, v = s.targets[0], s.value
        # T = data.get(JSON_TYPE_NAME)
        if (isinstance(v, ast.Call) and isinstance(v.func, ast.Attribute) and v.func.attr == "get"
                and isinstance(v.func.value, ast.Name) and v.func.value.id == self.data and len(v.args) == 1
                and not v.keywords and isinstance(v.args[0], ast.Name) and v.args[0].id == "JSON_TYPE_NAME"):
            self.bind("tag", t)
            return "getTag"
        # M, C = T.rsplit(".", 1)
        if (isinstance(v, ast.Call) and isinstance(v.func, ast.Attribute) and v.func.attr == "rsplit" and not v.keywords
                and len(v.args) == 2 and isinstance(v.args[0], ast.Constant) and v.args[0].value == "."
                and isinstance(v.args[1], ast.Constant) and v.args[1].value == 1 and type(v.args[1].value) is int
                and isinstance(t, (ast.Tuple, ast.List)) and len(t.elts) == 2):
            if not self.is_var(v.func.value, "tag"):
                self.var("tag")
                raise TranslationError(f"rsplit of something that is not the tag: {ast.unparse(s)}")
            self.bind("module_name", t.elts[0])
            self.bind("class_name", t.elts[1])
            return "rsplit"
        # MOD = importlib.import_module(M)
        if (isinstance(v, ast.Call) and ast.unparse(v.func) == "importlib.import_module" and len(v.args) == 1 and not v.keywords):
            if not self.is_var(v.args[0], "module_name"):
                self.var("module_name")
                raise TranslationError(f"import of something that is not the module name: {ast.unparse(s)}")
            self.bind("module", t)
            return "importModule"
        # K = getattr(MOD, C)
        if (isinstance(v, ast.Call) and isinstance(v.func, ast.Name) and v.func.id == "getattr" and len(v.args) == 2 and not v.keywords):
            if not (self.is_var(v.args[0], "module") and self.is_var(v.args[1], "class_name")):
                self.var("module"), self.var("class_name")
                raise TranslationError(f"unexpected getattr: {ast.unparse(s)}")
            self.bind("target", t)
            return "getattrClass"
        # R = JSONSerializableTypeRegistry().get_deserializer(K)
        if (isinstance(v, ast.Call) and ast.unparse(v.func) == "JSONSerializableTypeRegistry().get_deserializer"
                and len(v.args) == 1 and not v.keywords):
            if not self.is_var(v.args[0], "target"):
                self.var("target")
                raise TranslationError(f"registry lookup of something that is not the target class: {ast.unparse(s)}")
            self.bind("deser", t)
            return "registryLookup"
        return None

    def guard(self, test: ast.AST) -> Optional[str]:
        """`if <test>: raise` guards; test is the FIRING condition"""
        if isinstance(test, ast.UnaryOp) and isinstance(test.op, ast.Not):
            x = test.operand
            if self.is_var(x, "tag"):
                return "checkTruthy"
            if self.is_var(x, "deser"):
                return "checkRegistered"
            if (isinstance(x, ast.Call) and isinstance(x.func, ast.Name) and x.func.id == "isinstance" and len(x.args) == 2
                    and not x.keywords and isinstance(x.args[1], ast.Name)):
                if self.is_var(x.args[0], "tag") and x.args[1].id == "str":
                    return "checkIsStr"
                if self.is_var(x.args[0], "target") and x.args[1].id == "type":
                    return "checkIsType"
        return None

    def implements_guard(self, test: ast.AST) -> bool:
        k = self.var("target")
        return ast.unparse(test) in (
            f"getattr({k}._from_json, '__func__', None) is SubclassJSONSerializer._from_json.__func__",
            f"{k}._from_json.__func__ is SubclassJSONSerializer._from_json.__func__",
        )

    # ------------------------------------------------------------------------------------------ statements
    def stmt(self, s: ast.stmt):
        if self.skippable(s):
            return
        op = self.primitive(s)
        if op is not None:
            self.stages.append((op, [], None))
            return
        if isinstance(s, ast.Try):
            if s.orelse or s.finalbody or not s.handlers:
                raise TranslationError("try with else/finally or without handlers")
            body = [b for b in s.body if not self.skippable(b)]
            body = self.inline(body)
            if len(body) != 1:
                raise TranslationError(f"a try body must be exactly one primitive: {ast.unparse(s.body[0])} …")
            op = self.primitive(body[0])
            if op not in ("rsplit", "importModule", "getattrClass"):
                raise TranslationError(f"unsupported statement inside try: {ast.unparse(body[0])}")
            caught, errs = [], set()
            for h in s.handlers:
                if h.type is None:
                    raise TranslationError("bare except")
                classes = h.type.elts if isinstance(h.type, ast.Tuple) else [h.type]
                caught += [_exc_class(c) for c in classes]
                errs.add(self.single_raise(h.body, h.name))
            if len(errs) != 1:
                raise TranslationError("handlers of one try raise different errors")
            self.stages.append((op, _canon_caught(caught), errs.pop()))
            return
        if isinstance(s, ast.If):
            if s.orelse:
                raise TranslationError(f"`else`/`elif` branch: {ast.unparse(s.test)}")
            g = self.guard(s.test)
            if g is not None:
                self.stages.append((g, [], self.single_raise(s.body)))
                return
            t = s.test
            if (isinstance(t, ast.Call) and isinstance(t.func, ast.Name) and t.func.id == "issubclass" and len(t.args) == 2
                    and not t.keywords and self.is_var(t.args[0], "target")
                    and isinstance(t.args[1], ast.Name) and t.args[1].id == "SubclassJSONSerializer"):
                self.stages.append(("subclassBranch", [], None))
                body = self.inline([b for b in s.body if not self.skippable(b)])
                if not body:
                    raise TranslationError("empty serializer branch")
                for b in body[:-1]:
                    if isinstance(b, ast.If) and not b.orelse and self.implements_guard(b.test):
                        self.stages.append(("implementsFromJson", [], self.single_raise(b.body)))
                    else:
                        raise TranslationError(f"unsupported statement in the serializer branch: {ast.unparse(b)}")
                last = body[-1]
                k = self.var("target")
                if not (isinstance(last, ast.Return) and last.value is not None and self.is_data_kwargs_call(
                        last.value, lambda f: ast.unparse(f) == f"{k}._from_json")):
                    raise TranslationError(f"the serializer branch must end with `return {k}._from_json(data, **kwargs)`")
                self.stages.append(("callFromJson", [], None))
                return
            raise TranslationError(f"unsupported condition: {ast.unparse(s.test)}")
        if isinstance(s, ast.Return):
            if s.value is not None and "deser" in self.role and self.is_data_kwargs_call(
                    s.value, lambda f: isinstance(f, ast.Name) and f.id == self.role["deser"]):
                self.stages.append(("callRegistry", [], None))
                return
            raise TranslationError(f"unsupported return: {ast.unparse(s)}")
        raise TranslationError(f"unsupported statement: {ast.unparse(s)}")

    # ------------------------------------------------------------------------------------------ alias inlining
    def inline(self, body: List[ast.stmt]) -> List[ast.stmt]:
        """apply the alias rules of the module docstring to a statement list"""
        out: List[ast.stmt] = []
        pending: Optional[Tuple[str, ast.AST]] = None  # a call alias waiting for the next statement
        for idx, s in enumerate(body):
            s = copy.deepcopy(s)
            table = dict(self.safe)
            if pending is not None:
                if isinstance(s, ast.Try):
                    raise TranslationError(f"local `{pending[0]}` holds a call and is used under a later `try`")
                table[pending[0]] = pending[1]
            sub = _Subst(table)
            s = ast.fix_missing_locations(sub.visit(s))
            if pending is not None:
                if sub.used.get(pending[0], 0) != 1 or _count_loads(body[idx + 1:], pending[0]) != 0:
                    raise TranslationError(f"local `{pending[0]}` holds a call and is not used exactly once, in the next statement")
                pending = None
            if (isinstance(s, ast.Assign) and len(s.targets) == 1 and isinstance(s.targets[0], ast.Name)
                    and not self.is_primitive_shape(s)):
                name, val = s.targets[0].id, s.value
                if name in (self.data, self.kwargs) or name in self.role.values():
                    raise TranslationError(f"variable {name} is re-bound")
                if _is_safe_alias(val):
                    self.safe[name] = val
                    continue
                if isinstance(val, ast.Call):
                    pending = (name, val)
                    continue
                raise TranslationError(f"unsupported assignment: {ast.unparse(s)}")
            out.append(s)
        if pending is not None:
            raise TranslationError(f"local `{pending[0]}` is never used")
        return out

    def is_primitive_shape(self, s: ast.Assign) -> bool:
        """does the assignment look like one of the binding primitives (decided without binding anything)?"""
        v = s.value
        if not isinstance(v, ast.Call):
            return False
        f = ast.unparse(v.func)
        if f in (f"{self.data}.get", "importlib.import_module", "getattr", "JSONSerializableTypeRegistry().get_deserializer"):
            return True
        return isinstance(v.func, ast.Attribute) and v.func.attr == "rsplit" and isinstance(s.targets[0], (ast.Tuple, ast.List))

    # ------------------------------------------------------------------------------------------ driver
    def run(self) -> List[Tuple[str, List[str], Optional[str]]]:
        body = [s for s in self.fn.body if not self.skippable(s)]
        if len(body) < 2:
            raise TranslationError("from_json body too short")
        leaf, lst = body[0], body[1]
        if ast.unparse(leaf) != "if isinstance(data, leaf_types):\n    return data":
            raise TranslationError(f"leaf case changed: {ast.unparse(leaf)}")
        ok_list = (isinstance(lst, ast.If) and not lst.orelse and ast.unparse(lst.test) == "isinstance(data, list_like_classes)"
                   and len(lst.body) == 1 and isinstance(lst.body[0], ast.Return)
                   and isinstance(lst.body[0].value, ast.ListComp))
        if ok_list:
            lc = lst.body[0].value
            g = lc.generators
            ok_list = (len(g) == 1 and not g[0].ifs and not g[0].is_async and isinstance(g[0].target, ast.Name)
                       and ast.unparse(g[0].iter) == "data" and ast.unparse(lc.elt) == f"from_json({g[0].target.id})")
        if not ok_list:
            raise TranslationError(f"list case changed: {ast.unparse(lst)}")
        # tuple targets of rsplit are not plain-name assignments, so `inline` leaves them alone
        for s in self.inline(body[2:]):
            self.stmt(s)
        if not self.stages or self.stages[-1][0] != "callRegistry":
            raise TranslationError("from_json does not end with the call of the registered deserializer")
        return self.stages


def stages_of(source: str):
    tree = ast.parse(source)
    cls = next((c for c in tree.body if isinstance(c, ast.ClassDef) and c.name == "SubclassJSONSerializer"), None)
    if cls is None:
        raise TranslationError("class SubclassJSONSerializer not found")
    fns = [f for f in cls.body if isinstance(f, ast.FunctionDef) and f.name == "from_json"]
    if len(fns) != 1:
        raise TranslationError("SubclassJSONSerializer.from_json not found (or defined twice)")
    fn = fns[0]
    if [ast.unparse(d) for d in fn.decorator_list] != ["classmethod"]:
        raise TranslationError("from_json is no longer a plain classmethod")
    # the module-level from_json must still delegate to the classmethod (the list case calls it)
    mod_fn = [f for f in tree.body if isinstance(f, ast.FunctionDef) and f.name == "from_json"]
    if len(mod_fn) != 1:
        raise TranslationError("module-level from_json not found")
    mbody = [s for s in mod_fn[0].body if not _Translator.skippable(s)]
    if len(mbody) != 1 or ast.unparse(mbody[0]) != "return SubclassJSONSerializer.from_json(data, **kwargs)":
        raise TranslationError("module-level from_json no longer delegates to SubclassJSONSerializer.from_json")
    # documented errors must still be JSONSerializationError subclasses
    classes = {c.name: c for c in tree.body if isinstance(c, ast.ClassDef)}
    for name in ERRORS:
        if name not in classes or [ast.unparse(b) for b in classes[name].bases] != ["JSONSerializationError"]:
            raise TranslationError(f"{name} is no longer a direct JSONSerializationError subclass")
    return _Translator(fn).run()


def lean_of(stages) -> str:
    def stage(op, caught, err):
        c = "[" + ", ".join("." + x for x in caught) + "]"
        e = f"some .{err}" if err else "none"
        return f"⟨.{op}, {c}, {e}⟩"
    rows = ",\n    ".join(stage(*s) for s in stages)
    return f"""import KrroodVerif.Props.C19
/-! GENERATED by harness/translate/c19_translate.py from src/krrood/adapters/json_serializer.py — do not edit -/
namespace KrroodVerif.Json.Translated
open KrroodVerif.Json

/-- the stage table read off the current source of `SubclassJSONSerializer.from_json` -/
def stageTable : StageTable :=
  [ {rows} ]

/-- the decision structure of the current source is the one the model (and every C19 theorem) is about -/
theorem C19_stages_translated_eq_model : stageTable = Json.stageTable := by decide

/-- hence the property holds of the table interpreter run on the regenerated table: for every environment and every
JSON value under the tag key a documented error or the named deserialisable class, never an escaping exception -/
theorem C19_translated_meets_property (env : Env) (tag : Option Json) :
    ∃ o, interp stageTable env tag = some o ∧ (∀ x, o ≠ .escape x) ∧ (spec env tag).accepts o = true :=
  C19_of_table_eq stageTable C19_stages_translated_eq_model env tag
end KrroodVerif.Json.Translated
"""


def translate(source: str) -> str:
    return lean_of(stages_of(source))


def generate(repo: Path) -> str:
    return translate((Path(repo) / "src/krrood/adapters/json_serializer.py").read_text())


if __name__ == "__main__":
    import sys
    print(generate(Path(sys.argv[1] if len(sys.argv) > 1 else "/repo")))
