"""Translator (Python AST -> Lean 4 `ProtocolTable`) for the conversion protocol of `krrood/ormatic/dao.py` (C04/C05).

From the CURRENT source it regenerates a first-order description of both directions of the object <-> DAO conversion
(`Model/DaoProtocol.lean: ProtocolTable`): how a missing state is detected and whether the state class can be falsy, is
the memo consulted first and keyed by what, is the new node registered BEFORE or AFTER its fields are converted, is the
source kept alive by the state, the guard of single-valued relationships, de-duplication of collections, scalar
handling, when the circular fix-ups run, which list they re-assign and whether references into an alternatively mapped
node in progress are resolved again. The generated Lean file states `Translated.protocol = Dao.protocol` and
`ProtocolOk Translated.protocol` by `decide`; `Props/C04Protocol.lean` proves that `ProtocolOk t` makes the
interpretation of `t` the proved memoised copy, hence a rooted-graph isomorphism for every finite object graph.

STRICT: every function of the protocol is read either
  * by statement classification (`DataAccessObject.to_dao`, `from_dao`: each top-level statement must be one of the known
    steps; the table is computed from their ORDER), or
  * symbolically (`ToDAOState.register`, `FromDAOState.allocate_and_memoize`: which dictionary gets which key and value), or
  * by unification with the recognised shapes of that function (holes for the guard / the membership test);
anything else raises `TranslationError` (the check then searches a concrete failing input through the correspondence).
NORMALISING: unification is modulo renaming of parameters and locals, docstrings, comments, annotations (`x: T = e` is
`x = e`), the order of the dictionary stores in `register` / `allocate_and_memoize`, the order of independent steps in
`to_dao` / `from_dao`, and `state.has(self)`/`state.get(self)` versus `self in state`/`state[self]`.
"""
from __future__ import annotations

import ast
import copy
import itertools
from pathlib import Path
from typing import Dict, List, Optional, Tuple

SOURCE = "src/krrood/ormatic/dao.py"
OBLIGATIONS = [
    "KrroodVerif.Dao.Translated.C04_protocol_translated_eq_model",
    "KrroodVerif.Dao.Translated.C04_protocol_translated_ok",
    "KrroodVerif.Dao.Translated.C04_translated_roundtrip_iso",
]


class TranslationError(Exception):
    pass


# ------------------------------------------------------------------------------------------------ normal form

def _strip(fn: ast.FunctionDef) -> ast.FunctionDef:
    """docstrings away, `x: T = e` -> `x = e`, bare annotations and `...`/`pass` statements kept as they are"""
    fn = copy.deepcopy(fn)

    class T(ast.NodeTransformer):
        def visit_AnnAssign(self, node):
            self.generic_visit(node)
            if node.value is None:
                return None
            return ast.copy_location(ast.Assign(targets=[node.target], value=node.value), node)

    fn = T().visit(fn)
    for node in ast.walk(fn):
        body = getattr(node, "body", None)
        if isinstance(node, (ast.FunctionDef, ast.AsyncFunctionDef)) and body:
            if isinstance(body[0], ast.Expr) and isinstance(body[0].value, ast.Constant) and isinstance(body[0].value.value, str):
                node.body = body[1:] or [ast.Pass()]
    fn.decorator_list = [d for d in fn.decorator_list]
    return fn


def _locals(fn: ast.FunctionDef) -> set:
    names = set()
    for a in fn.args.posonlyargs + fn.args.args + fn.args.kwonlyargs:
        if a.arg not in ("self", "cls"):
            names.add(a.arg)
    for node in ast.walk(fn):
        if isinstance(node, ast.Name) and isinstance(node.ctx, (ast.Store, ast.Del)):
            names.add(node.id)
        elif isinstance(node, ast.ExceptHandler) and node.name:
            names.add(node.name)
        elif isinstance(node, ast.arg) and node.arg not in ("self", "cls"):
            names.add(node.arg)
    return names


_SKIP = {"ctx", "annotation", "returns", "type_comment", "lineno", "col_offset", "end_lineno", "end_col_offset",
         "type_params", "kind"}


class _Unifier:
    """structural equality of two ASTs modulo a one-to-one renaming of the template's local names; template names
    starting with `HOLE_` match any expression (bound consistently)"""

    def __init__(self, tlocals: set):
        self.tlocals = tlocals
        self.fwd: Dict[str, str] = {}
        self.bwd: Dict[str, str] = {}
        self.holes: Dict[str, ast.AST] = {}

    def _bind(self, t: str, a: str) -> bool:
        if t in self.fwd:
            return self.fwd[t] == a
        if a in self.bwd:
            return False
        self.fwd[t] = a
        self.bwd[a] = t
        return True

    def ident(self, t: str, a: str) -> bool:
        if t in self.tlocals:
            return self._bind(t, a)
        return t == a

    def go(self, t, a) -> bool:
        if isinstance(t, ast.Name) and t.id.startswith("HOLE_"):
            if not isinstance(a, ast.expr):
                return False
            if t.id in self.holes:
                return ast.dump(self.holes[t.id]) == ast.dump(a)
            self.holes[t.id] = a
            return True
        if type(t) is not type(a):
            return False
        if isinstance(t, ast.Name):
            return self.ident(t.id, a.id)
        if isinstance(t, ast.arg):
            return self.ident(t.arg, a.arg)
        if isinstance(t, ast.ExceptHandler):
            if (t.name is None) != (a.name is None) or (t.name is not None and not self.ident(t.name, a.name)):
                return False
        if isinstance(t, ast.keyword):
            # keyword arguments name PARAMETERS of the callee: not renamed
            if t.arg != a.arg:
                return False
            return self.go(t.value, a.value)
        for f in t._fields:
            if f in _SKIP or (isinstance(t, ast.ExceptHandler) and f == "name"):
                continue
            tv, av = getattr(t, f, None), getattr(a, f, None)
            if isinstance(tv, list):
                if not isinstance(av, list) or len(tv) != len(av):
                    return False
                for x, y in zip(tv, av):
                    if isinstance(x, ast.AST):
                        if not self.go(x, y):
                            return False
                    elif x != y:
                        return False
            elif isinstance(tv, ast.AST):
                if not isinstance(av, ast.AST) or not self.go(tv, av):
                    return False
            elif tv != av:
                return False
        return True


def _parse_fn(src: str) -> ast.FunctionDef:
    fn = ast.parse(src).body[0]
    assert isinstance(fn, ast.FunctionDef)
    return _strip(fn)


def _equiv(template_src: str, actual: ast.FunctionDef) -> Optional[_Unifier]:
    t = _parse_fn(template_src)
    u = _Unifier(_locals(t))
    if t.name != actual.name:
        return None
    if [ast.dump(d) for d in t.decorator_list] != [ast.dump(d) for d in actual.decorator_list]:
        return None
    if not u.go(t.args, actual.args):
        return None
    if len(t.body) != len(actual.body):
        return None
    for x, y in zip(t.body, actual.body):
        if not u.go(x, y):
            return None
    return u


def _match_stmt(template_src: str, stmt: ast.stmt, u: _Unifier) -> bool:
    t = ast.parse(template_src).body[0]
    saved = (dict(u.fwd), dict(u.bwd), dict(u.holes))
    if u.go(t, stmt):
        return True
    u.fwd, u.bwd, u.holes = saved
    return False


def _classify(fn: ast.FunctionDef, variants: List[Tuple[dict, str]], what: str) -> dict:
    for feats, src in variants:
        if _equiv(src, fn) is not None:
            return dict(feats)
    raise TranslationError(f"{what}: statement shape not recognised:\n{ast.unparse(fn)[:1500]}")


# ------------------------------------------------------------------------------------------------ the recognised shapes

_SINGLE = '''
def _extract_single_relationship(self, obj, relationship, state):
    value_in_obj = getattr(obj, relationship.key)
    if {GUARD}:
        setattr(self, relationship.key, None)
        return
    dao_class = get_dao_class(type(value_in_obj))
    if dao_class is None:
        raise NoDAOFoundDuringParsingError(value_in_obj, type(self), relationship)
    {TAIL}
'''
_SINGLE_TAILS = ["dao_of_value = dao_class.to_dao(value_in_obj, state=state)\n    setattr(self, relationship.key, dao_of_value)",
                 "setattr(self, relationship.key, dao_class.to_dao(value_in_obj, state=state))"]
_GUARDS = {"isNone": ["{V} is None", "{V} == None"], "truthy": ["not {V}"]}

_COLL = '''
def _extract_collection_relationship(self, obj, relationship, state):
    result = []
    value_in_obj = getattr(obj, relationship.key)
    for v in value_in_obj:
        dao_class = get_dao_class(type(v))
        if dao_class is None:
            raise NoDAOFoundDuringParsingError(v, type(self), relationship)
        {APPEND}
    setattr(self, relationship.key, result)
'''
_COLL_APPENDS = [
    ("none", "result.append(dao_class.to_dao(v, state=state))"),
    ("none", "dao_of_value = dao_class.to_dao(v, state=state)\n        result.append(dao_of_value)"),
    ("byEquality", "dao_of_value = dao_class.to_dao(v, state=state)\n        if dao_of_value not in result:\n            result.append(dao_of_value)"),
    ("byIdentity", "dao_of_value = dao_class.to_dao(v, state=state)\n        if not any(dao_of_value is y for y in result):\n            result.append(dao_of_value)"),
]

_COLUMNS = [
    ({"scalarGuard": "none"}, '''
def get_columns_from(self, obj, columns):
    for column in columns:
        if is_data_column(column):
            setattr(self, column.name, getattr(obj, column.name))
'''),
] + [({"scalarGuard": f"(some .{g})"}, f'''
def get_columns_from(self, obj, columns):
    for column in columns:
        if is_data_column(column):
            value = getattr(obj, column.name)
            if {t.format(V="value")}:
                continue
            setattr(self, column.name, value)
''') for g, ts in _GUARDS.items() for t in ts] + [({"scalarGuard": f"(some .{g})"}, f'''
def get_columns_from(self, obj, columns):
    for column in columns:
        if is_data_column(column):
            value = getattr(obj, column.name)
            if {neg.format(V="value")}:
                setattr(self, column.name, value)
''') for g, neg in (("isNone", "{V} is not None"), ("truthy", "{V}"))]

_SCALAR_KW = [
    ({"scalarGuard": "none"}, '''
def _collect_scalar_kwargs(self, mapper, argument_names):
    kwargs = {}
    for column in mapper.columns:
        if column.name in argument_names and is_data_column(column):
            kwargs[column.name] = getattr(self, column.name)
    return kwargs
'''),
] + [({"scalarGuard": f"(some .{g})"}, f'''
def _collect_scalar_kwargs(self, mapper, argument_names):
    kwargs = {{}}
    {pre}
    for column in mapper.columns:
        if column.name in argument_names and is_data_column(column):
            value = getattr(self, column.name)
            if {t.format(V="value")}{extra}:
                continue
            kwargs[column.name] = value
    return kwargs
''') for g, ts in _GUARDS.items() for t in ts
     for pre, extra in (("pass", ""), ("defaulted = HOLE_defaulted", " and column.name in defaulted"))]

_PARSE_SINGLE = '''
def parse_single(self, value):
    if {GUARD}:
        return (None, False)
    parsed = value.from_dao(state=self)
    return (parsed, parsed is self.memo.get({KEY}))
'''

_PARSE_COLL = '''
def parse_collection(self, value):
    {EMPTY}
    {INIT}
    for v in value:
        instance = v.from_dao(state=self)
        if {CIRC}:
            circular_values.append(v)
        {APPEND}
    return (type(value)(instances), circular_values)
'''
_PC_EMPTY = ["if not value:\n        return (value, [])", "pass"]
_PC_INIT = ["instances = []\n    circular_values = []", "circular_values = []\n    instances = []"]
_PC_CIRC = [("none", "instance is self.memo.get({KEY})"),
            ("byEquality", "instance is self.memo.get({KEY}) and v not in circular_values"),
            ("byIdentity", "instance is self.memo.get({KEY}) and not any(v is y for y in circular_values)")]
_PC_APPEND = [("none", "instances.append(instance)"),
              ("byEquality", "if instance not in instances:\n            instances.append(instance)"),
              ("byIdentity", "if not any(instance is y for y in instances):\n            instances.append(instance)")]

# functions that must have exactly today's shape (modulo renaming, docstrings, comments, annotations)
_PINNED = {
    ("ToDAOState", "apply_alternative_mapping_if_needed"): '''
def apply_alternative_mapping_if_needed(self, dao_cls, obj):
    if issubclass(dao_cls.original_class(), AlternativeMapping):
        return dao_cls.original_class().to_dao(obj, state=self)
    return obj
''',
    ("FromDAOState", "apply_circular_fixes"): '''
def apply_circular_fixes(self, result, circular_refs):
    for key, value in circular_refs.items():
        if isinstance(value, list):
            fixed_list = []
            for v in value:
                fixed_list.append(self.memo.get({KEY_v}))
            setattr(result, key, fixed_list)
        else:
            setattr(result, key, self.memo.get({KEY_value}))
        for v in value if isinstance(value, list) else [value]:
            if {KEY_v} in self.in_progress and isinstance(self.memo.get({KEY_v}), AlternativeMapping):
                self.deferred_fixes.setdefault({KEY_v}, []).append((result, key, value))
''',
    ("FromDAOState", "apply_deferred_fixes"): '''
def apply_deferred_fixes(self, dao_obj):
    for holder, key, value in self.deferred_fixes.pop({KEY_dao_obj}, []):
        self.apply_circular_fixes(holder, {key: value})
''',
    ("DataAccessObject", "to_dao_default"): '''
def to_dao_default(self, obj, state):
    mapper = sqlalchemy.inspection.inspect(type(self))
    self.get_columns_from(obj=obj, columns=mapper.columns)
    self.get_relationships_from(obj=obj, relationships=mapper.relationships, state=state)
''',
    ("DataAccessObject", "get_relationships_from"): '''
def get_relationships_from(self, obj, relationships, state):
    for relationship in relationships:
        if relationship.direction == MANYTOONE or (relationship.direction == ONETOMANY and not relationship.uselist):
            self._extract_single_relationship(obj=obj, relationship=relationship, state=state)
        elif relationship.direction in (ONETOMANY, MANYTOMANY):
            self._extract_collection_relationship(obj=obj, relationship=relationship, state=state)
''',
    ("DataAccessObject", "to_dao_if_subclass_of_alternative_mapping"): '''
def to_dao_if_subclass_of_alternative_mapping(self, obj, base, state):
    temp_dao = None
    if id(obj) in state.memo:
        temp_dao = state.memo[id(obj)]
        del state.memo[id(obj)]
    parent_dao = base.original_class().to_dao(obj, state)
    if temp_dao is not None:
        state.memo[id(obj)] = temp_dao
    parent_mapper = sqlalchemy.inspection.inspect(base)
    mapper = sqlalchemy.inspection.inspect(type(self))
    all_columns = mapper.columns
    columns_of_parent = parent_mapper.columns
    columns_of_this_table = [c for c in all_columns if c.name not in columns_of_parent]
    self.get_columns_from(parent_dao, columns_of_parent)
    self.get_columns_from(obj, columns_of_this_table)
    parent_column_names = {c.name for c in columns_of_parent}
    for prop in mapper.column_attrs:
        try:
            col = prop.columns[0]
        except Exception:
            continue
        if is_data_column(col) and prop.key not in parent_column_names:
            setattr(self, prop.key, getattr(obj, prop.key))
    relationships_of_parent, relationships_of_this_table = self.partition_parent_child_relationships(parent_mapper, mapper)
    self.get_relationships_from(parent_dao, relationships_of_parent, state)
    self.get_relationships_from(obj, relationships_of_this_table, state)
''',
    ("DataAccessObject", "partition_parent_child_relationships"): '''
def partition_parent_child_relationships(self, parent, child):
    all_relationships = child.relationships
    relationships_of_parent = parent.relationships
    relationship_names_of_parent = list(map(lambda x: x.key, relationships_of_parent))
    relationships_of_child = list(filter(lambda x: x.key not in relationship_names_of_parent, all_relationships))
    return (relationships_of_parent, relationships_of_child)
''',
    ("DataAccessObject", "_allocate_uninitialized_and_memoize"): '''
def _allocate_uninitialized_and_memoize(self, state):
    return state.allocate_and_memoize(self, self.original_class())
''',
    ("DataAccessObject", "_argument_names"): '''
def _argument_names(self):
    init_of_original_class = self.original_class().__init__
    return [p.name for p in inspect.signature(init_of_original_class).parameters.values()][1:]
''',
    ("DataAccessObject", "_collect_relationship_kwargs"): '''
def _collect_relationship_kwargs(self, mapper, argument_names, state):
    rel_kwargs = {}
    circular_refs = {}
    for relationship in mapper.relationships:
        if relationship.key not in argument_names:
            continue
        value = getattr(self, relationship.key)
        if relationship.direction == MANYTOONE or (relationship.direction == ONETOMANY and not relationship.uselist):
            parsed, is_circular = state.parse_single(value)
            if is_circular:
                circular_refs[relationship.key] = value
            rel_kwargs[relationship.key] = parsed
        elif relationship.direction in (ONETOMANY, MANYTOMANY):
            parsed_list, circular_list = state.parse_collection(value)
            if circular_list:
                circular_refs[relationship.key] = circular_list
            rel_kwargs[relationship.key] = parsed_list
        else:
            raise UnsupportedRelationshipError(relationship)
    return (rel_kwargs, circular_refs)
''',
    ("DataAccessObject", "_build_base_kwargs_for_alternative_parent"): '''
def _build_base_kwargs_for_alternative_parent(self, argument_names, state):
    base = self.__class__.__bases__[0]
    for candidate in self.__class__.__mro__[1:]:
        try:
            if self.uses_alternative_mapping(candidate):
                base = candidate
                break
        except Exception:
            continue
    base_kwargs = {}
    if self.uses_alternative_mapping(base):
        parent_dao = base()
        parent_mapper = sqlalchemy.inspection.inspect(base)
        for column in parent_mapper.columns:
            if is_data_column(column):
                setattr(parent_dao, column.name, getattr(self, column.name))
        for rel in parent_mapper.relationships:
            setattr(parent_dao, rel.key, getattr(self, rel.key))
        base_result = parent_dao.from_dao(state=state)
        for argument in argument_names:
            if argument not in base_kwargs and not hasattr(self, argument):
                try:
                    base_kwargs[argument] = getattr(base_result, argument)
                except AttributeError:
                    ...
    return base_kwargs
''',
    ("DataAccessObject", "_apply_circular_fixes"): '''
@classmethod
def _apply_circular_fixes(cls, result, circular_refs, state):
    state.apply_circular_fixes(result, circular_refs)
''',
    ("DataAccessObject", "uses_alternative_mapping"): '''
@classmethod
def uses_alternative_mapping(cls, class_to_check):
    return issubclass(class_to_check, DataAccessObject) and issubclass(class_to_check.original_class(), AlternativeMapping)
''',
    ("AlternativeMapping", "to_dao"): '''
@classmethod
def to_dao(cls, obj, state=None):
    {STATEINIT}
    if {KEY_obj} in state.memo:
        return state.memo[{KEY_obj}]
    elif isinstance(obj, cls):
        return obj
    else:
        result = cls.create_instance(obj)
        return result
''',
    (None, "to_dao"): '''
def to_dao(obj, state=None):
    dao_class = get_dao_class(type(obj))
    if dao_class is None:
        raise NoDAOFoundError(obj)
    {STATEINIT}
    return dao_class.to_dao(obj, state)
''',
}
_CALL_INIT = '''
@classmethod
def _call_initializer_or_assign(cls, result, init_args):
    try:
        result.__init__(**init_args)
    except TypeError as e:
        HOLE_log
        for key, val in init_args.items():
            setattr(result, key, val)
'''

_STATE_INIT = {"orIdiom": "state = state or {C}()", "isNone": "if state is None:\n        state = {C}()"}
_KEYS = {"identity": "id({V})", "equality": "{V}"}


def _fill_keys(src: str, key: str) -> str:
    import re
    return re.sub(r"\{KEY_(\w+)\}", lambda m: _KEYS[key].format(V=m.group(1)), src)


# ------------------------------------------------------------------------------------------------ symbolic readers

def _dict_stores(fn: ast.FunctionDef, what: str, allow_new: bool):
    """`register` / `allocate_and_memoize`: straight-line code of local aliases and `self.<dict>[key] = value` stores.
    Returns ({dict: (key_src, value_src)}, returned expression or None); order-free."""
    alias: Dict[str, ast.expr] = {}

    def subst(e: ast.expr) -> ast.expr:
        class S(ast.NodeTransformer):
            def visit_Name(self, node):
                if isinstance(node.ctx, ast.Load) and node.id in alias:
                    return copy.deepcopy(alias[node.id])
                return node
        return S().visit(copy.deepcopy(e))

    stores: Dict[str, Tuple[str, str]] = {}
    ret = None
    for i, st in enumerate(fn.body):
        if isinstance(st, ast.Pass):
            continue
        if isinstance(st, ast.Assign) and len(st.targets) == 1:
            tg = st.targets[0]
            if isinstance(tg, ast.Name):
                if tg.id in alias:
                    raise TranslationError(f"{what}: local {tg.id} assigned twice")
                alias[tg.id] = subst(st.value)
                continue
            if (isinstance(tg, ast.Subscript) and isinstance(tg.value, ast.Attribute)
                    and isinstance(tg.value.value, ast.Name) and tg.value.value.id == "self"):
                d = tg.value.attr
                if d in stores:
                    raise TranslationError(f"{what}: two stores into self.{d}")
                stores[d] = (ast.unparse(subst(tg.slice)), ast.unparse(subst(st.value)))
                continue
        if isinstance(st, ast.Return) and i == len(fn.body) - 1 and st.value is not None:
            ret = ast.unparse(subst(st.value))
            continue
        raise TranslationError(f"{what}: statement not recognised: {ast.unparse(st)}")
    return stores, ret


def _key_kind(key_src: str, var: str, what: str) -> str:
    if key_src == f"id({var})":
        return "identity"
    if key_src == var:
        return "equality"
    raise TranslationError(f"{what}: memo key {key_src!r} is neither id({var}) nor {var}")


def _params(fn: ast.FunctionDef) -> List[str]:
    return [a.arg for a in fn.args.args]


# ------------------------------------------------------------------------------------------------ describe

def _index(tree: ast.Module):
    classes: Dict[Optional[str], Dict[str, ast.FunctionDef]] = {None: {}}
    for node in tree.body:
        if isinstance(node, ast.FunctionDef):
            classes[None][node.name] = _strip(node)
        elif isinstance(node, ast.ClassDef):
            classes[node.name] = {n.name: _strip(n) for n in node.body if isinstance(n, ast.FunctionDef)}
    return classes


def _get(classes, cls, name) -> ast.FunctionDef:
    try:
        return classes[cls][name]
    except KeyError:
        raise TranslationError(f"{cls or 'module'}.{name} not found")


def _state_falsy(classes, cls) -> bool:
    return any(n in classes.get(cls, {}) for n in ("__len__", "__bool__"))


def _steps(fn: ast.FunctionDef, table: List[Tuple[str, List[str]]], what: str) -> Tuple[Dict[str, int], _Unifier]:
    """classify every top-level statement of `fn` as one of the steps in `table` (templates over canonical local
    names, unified consistently across the whole function); returns step -> position"""
    tl = set()
    for _, srcs in table:
        for s in srcs:
            t = ast.parse(s)
            for node in ast.walk(t):
                if isinstance(node, ast.Name) and node.id.startswith("L_"):
                    tl.add(node.id)
    u = _Unifier(tl)
    pos: Dict[str, int] = {}
    for i, st in enumerate(fn.body):
        for step, srcs in table:
            if step in pos:
                continue
            if any(_match_stmt(s, st, u) for s in srcs):
                pos[step] = i
                break
        else:
            raise TranslationError(f"{what}: step not recognised: {ast.unparse(st)[:400]}")
    return pos, u


def _need(pos, what, *steps):
    for s in steps:
        if s not in pos:
            raise TranslationError(f"{what}: step {s} is missing")


def _describe_to(classes) -> dict:
    d: dict = {}
    # -- state -------------------------------------------------------------------------------------------
    ge = _get(classes, "ToDAOState", "get_existing")
    p = _params(ge)
    if len(p) != 2 or len(ge.body) != 1 or not isinstance(ge.body[0], ast.Return):
        raise TranslationError("ToDAOState.get_existing: shape not recognised")
    r = ge.body[0].value
    if not (isinstance(r, ast.Call) and ast.unparse(r.func) == "self.memo.get" and len(r.args) == 1 and not r.keywords):
        raise TranslationError(f"ToDAOState.get_existing: {ast.unparse(r)}")
    key = _key_kind(ast.unparse(r.args[0]), p[1], "ToDAOState.get_existing")
    reg = _get(classes, "ToDAOState", "register")
    rp = _params(reg)
    if len(rp) != 3:
        raise TranslationError("ToDAOState.register: parameters")
    stores, ret = _dict_stores(reg, "ToDAOState.register", False)
    if ret is not None or "memo" not in stores:
        raise TranslationError("ToDAOState.register: no store into self.memo")
    if _key_kind(stores["memo"][0], rp[1], "ToDAOState.register") != key or stores["memo"][1] != rp[2]:
        raise TranslationError(f"ToDAOState.register: memo[{stores['memo'][0]}] = {stores['memo'][1]} does not match get_existing")
    d["memoKey"] = key
    d["keepAlive"] = any(k != "memo" and v == (f"id({rp[1]})", rp[1]) for k, v in stores.items())
    d["stateFalsy"] = _state_falsy(classes, "ToDAOState")
    # -- DataAccessObject.to_dao: order of the steps ---------------------------------------------------------
    fn = _get(classes, "DataAccessObject", "to_dao")
    table = [
        ("INIT_or", ["L_state = L_state or ToDAOState()"]),
        ("INIT_none", ["if L_state is None:\n    L_state = ToDAOState()"]),
        ("LOOKUP", ["L_existing = L_state.get_existing(L_obj)"]),
        ("HIT", ["if L_existing is not None:\n    return L_existing"]),
        ("ALTMAP", ["L_dao_obj = L_state.apply_alternative_mapping_if_needed(cls, L_obj)"]),
        ("ALTBASE0", ["L_alt_base = None"]),
        ("ALTBASE", ["for L_b in cls.__mro__[1:]:\n    try:\n        if issubclass(L_b, DataAccessObject) and issubclass(L_b.original_class(), AlternativeMapping):\n"
                     "            L_alt_base = L_b\n            break\n    except Exception:\n        continue"]),
        ("ALLOC", ["L_result = cls()"]),
        ("REGISTER", ["if L_register:\n    L_state.register(L_obj, L_result)", "L_state.register(L_obj, L_result)"]),
        ("DESCENT", ["if L_alt_base is not None:\n    L_result.to_dao_if_subclass_of_alternative_mapping(obj=L_dao_obj, base=L_alt_base, state=L_state)\n"
                     "else:\n    L_result.to_dao_default(obj=L_dao_obj, state=L_state)"]),
        ("RETURN", ["return L_result"]),
    ]
    what = "DataAccessObject.to_dao"
    pos, u = _steps(fn, table, what)
    params = _params(fn)
    if params[:3] != ["cls", u.fwd.get("L_obj"), u.fwd.get("L_state")]:
        raise TranslationError(f"{what}: parameters {params}")
    if ("INIT_or" in pos) == ("INIT_none" in pos):
        raise TranslationError(f"{what}: state initialisation not recognised")
    init = "INIT_or" if "INIT_or" in pos else "INIT_none"
    _need(pos, what, "ALTMAP", "ALTBASE0", "ALTBASE", "ALLOC", "DESCENT", "RETURN")
    if not (pos[init] == 0 and pos["RETURN"] == len(fn.body) - 1 and pos["ALTBASE0"] < pos["ALTBASE"] < pos["DESCENT"]
            and pos["ALTMAP"] < pos["DESCENT"] and pos["ALLOC"] < pos["DESCENT"]):
        raise TranslationError(f"{what}: order of steps not recognised: {sorted(pos, key=pos.get)}")
    inits = {"orIdiom" if init == "INIT_or" else "isNone"}
    if ("LOOKUP" in pos) != ("HIT" in pos):
        raise TranslationError(f"{what}: memo look-up without its test")
    d["memoFirst"] = "LOOKUP" in pos and pos["LOOKUP"] < pos["HIT"] < min(pos["ALLOC"], pos["ALTMAP"])
    if "LOOKUP" in pos and not d["memoFirst"]:
        raise TranslationError(f"{what}: memo consulted after allocation — order not recognised")
    if "REGISTER" not in pos:
        d["register"] = "never"
    elif pos["ALLOC"] < pos["REGISTER"] < pos["DESCENT"]:
        d["register"] = "before"
    elif pos["REGISTER"] > pos["DESCENT"]:
        d["register"] = "after"
    else:
        raise TranslationError(f"{what}: register before allocation")
    # -- fields -------------------------------------------------------------------------------------------
    fn = _get(classes, "DataAccessObject", "_extract_single_relationship")
    d["singleGuard"] = _classify(fn, [({"g": g}, _SINGLE.format(GUARD=t.format(V="value_in_obj"), TAIL=tail))
                                      for g, ts in _GUARDS.items() for t in ts for tail in _SINGLE_TAILS],
                                 "DataAccessObject._extract_single_relationship")["g"]
    fn = _get(classes, "DataAccessObject", "_extract_collection_relationship")
    d["collDedup"] = _classify(fn, [({"m": m}, _COLL.format(APPEND=a)) for m, a in _COLL_APPENDS],
                               "DataAccessObject._extract_collection_relationship")["m"]
    d["scalarGuard"] = _classify(_get(classes, "DataAccessObject", "get_columns_from"), _COLUMNS,
                                 "DataAccessObject.get_columns_from")["scalarGuard"]
    # -- the other entry points and helpers ------------------------------------------------------------------
    for (cls, name) in [("ToDAOState", "apply_alternative_mapping_if_needed"), ("DataAccessObject", "to_dao_default"),
                        ("DataAccessObject", "get_relationships_from"),
                        ("DataAccessObject", "to_dao_if_subclass_of_alternative_mapping"),
                        ("DataAccessObject", "partition_parent_child_relationships")]:
        _classify(_get(classes, cls, name), [({}, _fill_keys(_PINNED[(cls, name)], key))], f"{cls}.{name}")
    for (cls, name) in [("AlternativeMapping", "to_dao"), (None, "to_dao")]:
        f = _classify(_get(classes, cls, name),
                      [({"i": k}, _fill_keys(_PINNED[(cls, name)], key).replace("{STATEINIT}", s.format(C="ToDAOState")))
                       for k, s in _STATE_INIT.items()], f"{cls or 'module'}.{name}")
        inits.add(f["i"])
    d["stateInit"] = "orIdiom" if "orIdiom" in inits else "isNone"
    d["fixups"], d["fixDedup"], d["deferredFix"] = "notNeeded", "none", False
    return d


def _describe_from(classes) -> dict:
    d: dict = {}
    # -- state: membership test, read, allocation ---------------------------------------------------------------
    st = classes.get("FromDAOState", {})
    has_n = "has" if "has" in st else "__contains__"
    get_n = "get" if "get" in st else "__getitem__"
    has, get = _get(classes, "FromDAOState", has_n), _get(classes, "FromDAOState", get_n)
    keys = set()
    for fn, tmpl in ((has, "def {N}(self, o):\n    return {K} in self.memo"), (get, "def {N}(self, o):\n    return self.memo[{K}]")):
        f = _classify(fn, [({"k": k}, tmpl.format(N=fn.name, K=ks.format(V="o"))) for k, ks in _KEYS.items()],
                      f"FromDAOState.{fn.name}")
        keys.add(f["k"])
    al = _get(classes, "FromDAOState", "allocate_and_memoize")
    ap = _params(al)
    if len(ap) != 3:
        raise TranslationError("FromDAOState.allocate_and_memoize: parameters")
    stores, ret = _dict_stores(al, "FromDAOState.allocate_and_memoize", True)
    new = f"{ap[2]}.__new__({ap[2]})"
    if "memo" not in stores or stores["memo"][1] != new or ret != new:
        raise TranslationError(f"FromDAOState.allocate_and_memoize: memo entry / result is not {new}")
    keys.add(_key_kind(stores["memo"][0], ap[1], "FromDAOState.allocate_and_memoize"))
    if len(keys) != 1:
        raise TranslationError(f"FromDAOState: memo keyed inconsistently: {sorted(keys)}")
    key = keys.pop()
    kx = _KEYS[key].format(V=ap[1])
    if stores.get("in_progress") != (kx, "True"):
        raise TranslationError("FromDAOState.allocate_and_memoize: the DAO is not marked as in progress")
    d["memoKey"] = key
    d["keepAlive"] = any(k not in ("memo", "in_progress") and v == (f"id({ap[1]})", ap[1]) for k, v in stores.items())
    d["stateFalsy"] = _state_falsy(classes, "FromDAOState")
    # -- from_dao: order of the steps ---------------------------------------------------------------------------
    fn = _get(classes, "DataAccessObject", "from_dao")
    alt_final = ("if isinstance(L_result, AlternativeMapping):\n    L_result = L_result.create_from_dao()\n"
                 "    L_state.memo[{K}] = L_result\n{REST}    return L_result")
    k_self = _KEYS[key].format(V="self")
    rests_ok = ["    del L_state.in_progress[{K}]\n    L_state.apply_deferred_fixes(self)\n",
                "    L_state.apply_deferred_fixes(self)\n    del L_state.in_progress[{K}]\n"]
    rests_no = ["    del L_state.in_progress[{K}]\n"]
    table = [
        ("INIT_or", ["L_state = L_state or FromDAOState()"]),
        ("INIT_none", ["if L_state is None:\n    L_state = FromDAOState()"]),
        ("HIT", [f"if L_state.{has_n}(self):\n    return L_state.{get_n}(self)"] if has_n == "has" and get_n == "get" else
                ["if self in L_state:\n    return L_state[self]", f"if L_state.{has_n}(self):\n    return L_state.{get_n}(self)"]),
        ("ALLOC", ["L_result = self._allocate_uninitialized_and_memoize(L_state)"]),
        ("MAPPER", ["L_mapper = sqlalchemy.inspection.inspect(type(self))"]),
        ("ARGS", ["L_argument_names = self._argument_names()"]),
        ("SCALARS", ["L_kwargs = self._collect_scalar_kwargs(L_mapper, L_argument_names)"]),
        ("RELS", ["(L_rel_kwargs, L_circular_refs) = self._collect_relationship_kwargs(L_mapper, L_argument_names, L_state)"]),
        ("UPDATE", ["L_kwargs.update(L_rel_kwargs)"]),
        ("BASE", ["L_base_kwargs = self._build_base_kwargs_for_alternative_parent(L_argument_names, L_state)"]),
        ("MERGE", ["L_init_args = {**L_base_kwargs, **L_kwargs}"]),
        ("CALLINIT", ["self._call_initializer_or_assign(L_result, L_init_args)"]),
        ("FIX", ["self._apply_circular_fixes(L_result, L_circular_refs, L_state)"]),
        ("ALTFINAL_deferred", [alt_final.format(K=k_self, REST=r.format(K=k_self)) for r in rests_ok]),
        ("ALTFINAL_plain", [alt_final.format(K=k_self, REST=r.format(K=k_self)) for r in rests_no]),
        ("DONE", [f"del L_state.in_progress[{k_self}]"]),
        ("RETURN", ["return L_result"]),
    ]
    what = "DataAccessObject.from_dao"
    pos, u = _steps(fn, table, what)
    if _params(fn)[:2] != ["self", u.fwd.get("L_state")]:
        raise TranslationError(f"{what}: parameters")
    if ("INIT_or" in pos) == ("INIT_none" in pos):
        raise TranslationError(f"{what}: state initialisation not recognised")
    init = "INIT_or" if "INIT_or" in pos else "INIT_none"
    d["stateInit"] = "orIdiom" if init == "INIT_or" else "isNone"
    if ("ALTFINAL_deferred" in pos) == ("ALTFINAL_plain" in pos):
        raise TranslationError(f"{what}: finalisation of alternatively mapped objects not recognised")
    fin = "ALTFINAL_deferred" if "ALTFINAL_deferred" in pos else "ALTFINAL_plain"
    _need(pos, what, "ALLOC", "MAPPER", "ARGS", "SCALARS", "RELS", "UPDATE", "BASE", "MERGE", "CALLINIT", "DONE", "RETURN")
    n = len(fn.body)
    ok = (pos[init] == 0 and pos["RETURN"] == n - 1 and pos["DONE"] == n - 2 and pos[fin] == n - 3
          and pos["MAPPER"] < min(pos["SCALARS"], pos["RELS"]) and pos["ARGS"] < min(pos["SCALARS"], pos["RELS"], pos["BASE"])
          and max(pos["SCALARS"], pos["RELS"]) < pos["UPDATE"] < pos["MERGE"] and pos["BASE"] < pos["MERGE"] < pos["CALLINIT"]
          and pos["ALLOC"] < pos["CALLINIT"])
    if not ok:
        raise TranslationError(f"{what}: order of steps not recognised: {sorted(pos, key=pos.get)}")
    d["memoFirst"] = "HIT" in pos and pos["HIT"] < pos["ALLOC"]
    if "HIT" in pos and not d["memoFirst"]:
        raise TranslationError(f"{what}: memo consulted after allocation — order not recognised")
    descents = min(pos["RELS"], pos["BASE"])
    if pos["ALLOC"] < descents:
        d["register"] = "before"
    elif pos["ALLOC"] > max(pos["RELS"], pos["BASE"]):
        d["register"] = "after"
    else:
        raise TranslationError(f"{what}: allocation between the two descents")
    if "FIX" not in pos:
        d["fixups"] = "never"
    elif pos["RELS"] < pos["FIX"] < pos[fin]:
        d["fixups"] = "afterInit" if pos["FIX"] > pos["CALLINIT"] else "beforeInit"
    else:
        raise TranslationError(f"{what}: position of the fix-ups not recognised")
    d["deferredFix"] = fin == "ALTFINAL_deferred"
    # -- fields -------------------------------------------------------------------------------------------
    kv = _KEYS[key]
    fn = _get(classes, "FromDAOState", "parse_single")
    d["singleGuard"] = _classify(fn, [({"g": g}, _PARSE_SINGLE.format(GUARD=t.format(V="value"), KEY=kv.format(V="value")))
                                      for g, ts in _GUARDS.items() for t in ts], "FromDAOState.parse_single")["g"]
    fn = _get(classes, "FromDAOState", "parse_collection")
    f = _classify(fn, [({"c": c, "a": a}, _PARSE_COLL.format(EMPTY=e, INIT=i, CIRC=cs.format(KEY=kv.format(V="v")), APPEND=as_))
                       for e in _PC_EMPTY for i in _PC_INIT for c, cs in _PC_CIRC for a, as_ in _PC_APPEND],
                  "FromDAOState.parse_collection")
    d["collDedup"], d["fixDedup"] = f["a"], f["c"]
    d["scalarGuard"] = _classify(_get(classes, "DataAccessObject", "_collect_scalar_kwargs"), _SCALAR_KW,
                                 "DataAccessObject._collect_scalar_kwargs")["scalarGuard"]
    for (cls, name) in [("FromDAOState", "apply_circular_fixes"), ("FromDAOState", "apply_deferred_fixes"),
                        ("DataAccessObject", "_allocate_uninitialized_and_memoize"), ("DataAccessObject", "_argument_names"),
                        ("DataAccessObject", "_collect_relationship_kwargs"),
                        ("DataAccessObject", "_build_base_kwargs_for_alternative_parent"),
                        ("DataAccessObject", "_apply_circular_fixes"), ("DataAccessObject", "uses_alternative_mapping")]:
        _classify(_get(classes, cls, name), [({}, _fill_keys(_PINNED[(cls, name)], key))], f"{cls}.{name}")
    _classify(_get(classes, "DataAccessObject", "_call_initializer_or_assign"), [({}, _CALL_INIT)],
              "DataAccessObject._call_initializer_or_assign")
    return d


def describe(src: str) -> dict:
    """the protocol table of the given `dao.py` source; raises TranslationError on anything not recognised"""
    classes = _index(ast.parse(src))
    return {"toD": _describe_to(classes), "fromD": _describe_from(classes)}


# ------------------------------------------------------------------------------------------------ render

_FIELDS = ["stateInit", "stateFalsy", "memoFirst", "memoKey", "register", "keepAlive", "singleGuard", "collDedup",
           "scalarGuard", "fixups", "fixDedup", "deferredFix"]


def _lean(v) -> str:
    if isinstance(v, bool):
        return "true" if v else "false"
    if v.startswith("("):
        return v
    return "none" if v == "none_opt" else "." + v


def _dir(d: dict) -> str:
    parts = []
    for f in _FIELDS:
        v = d[f]
        if f == "scalarGuard":
            parts.append(f"{f} := {'none' if v == 'none' else v}")
        else:
            parts.append(f"{f} := {_lean(v)}")
    return "{ " + ", ".join(parts) + " }"


def render(table: dict) -> str:
    return f"""import KrroodVerif.Props.C04Protocol
/-! GENERATED by harness/translate/c04_translate.py from {SOURCE} — do not edit. -/
namespace KrroodVerif.Dao.Translated
open KrroodVerif.Dao

/-- the conversion protocol as the current source has it -/
def protocol : ProtocolTable :=
  {{ toD := {_dir(table['toD'])},
    fromD := {_dir(table['fromD'])} }}

/-- the current source has the protocol the hand-written model transcribes (up to the spelling of the state default
while the state class cannot be falsy: `ProtocolTable.canon`) -/
theorem C04_protocol_translated_eq_model : protocol.canon = Dao.protocol.canon := by decide

/-- … and that protocol has every property the isomorphism proof needs -/
theorem C04_protocol_translated_ok : ProtocolOk protocol := by decide

/-- hence the round trip the CURRENT source describes is a rooted-graph isomorphism for every finite object graph -/
theorem C04_translated_roundtrip_iso (E : Env) (unmap : Label → Option Label) (h : Heap) (roots rs' : List Nat) (st' : St)
    (hrt : RoundTrips unmap h) (hrun : roundTripWith protocol E unmap h roots = some (rs', st')) :
    Iso h roots st'.out rs' :=
  C04_protocol_iso C04_protocol_translated_ok E unmap h roots rs' st' hrt hrun

end KrroodVerif.Dao.Translated
"""


# the hand table `Dao.protocol` (Model/DaoProtocol.lean), only used to word the message about a changed translation
HAND = {
    "toD": {"stateInit": "orIdiom", "stateFalsy": False, "memoFirst": True, "memoKey": "identity", "register": "before",
            "keepAlive": True, "singleGuard": "isNone", "collDedup": "none", "scalarGuard": "none", "fixups": "notNeeded",
            "fixDedup": "none", "deferredFix": False},
    "fromD": {"stateInit": "orIdiom", "stateFalsy": False, "memoFirst": True, "memoKey": "identity", "register": "before",
              "keepAlive": True, "singleGuard": "isNone", "collDedup": "none", "scalarGuard": "none", "fixups": "afterInit",
              "fixDedup": "none", "deferredFix": True},
}


def diff_to_hand(table: dict) -> str:
    return ", ".join(f"{k}.{f}: {HAND[k][f]} -> {table[k][f]}" for k in ("toD", "fromD") for f in _FIELDS
                     if table[k][f] != HAND[k][f]) or "none"


def generate(repo: Path) -> str:
    return render(describe((Path(repo) / SOURCE).read_text()))


if __name__ == "__main__":
    import json
    import sys
    root = Path(sys.argv[1]) if len(sys.argv) > 1 else Path("/repo")
    print(json.dumps(describe((root / SOURCE).read_text()), indent=1))
