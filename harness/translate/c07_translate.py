"""Translator (Python AST -> Lean 4) for the table-like decision logic of `src/krrood/ormatic/eql_interface.py` — the
second tie of C07 between the model and the code.

What is read off the CURRENT source on every run, and what it becomes (Model/SqlTable.lean has the types):

  `OperatorMapper.map_comparison_operator`   rows `(.cmp op sides, .cmp ⟨rel, swap⟩)` of `opTable`: for each of the six
        comparison operators and each of the four operand shapes (left / right a SQL expression or a Python value) the
        SQLAlchemy construct that is returned, found by running the body symbolically
  `OperatorMapper.map_contains_operator`     rows `(.contains shape, form)` and `(.notContains, .saNot)`
  `null_safe_in`                             rows `(.member hasNone, .mem form)`
  `EQLTranslator.translate_query`            `dispatch`  (node class -> handler) + reject row `condNodeOther`
  `EQLTranslator._translate_comparator_operand`  `operandDispatch` + reject row `operandSymbolicOther`
  `EQLTranslator.translate` / `evaluate`     reject rows `selectNotEntity`, `noDaoForSelected`, `quantifierUnknown`

and the obligations the kernel re-checks:

    theorem C07_opTable_translated_eq_model    : Translated.opTable = SqlTr.opTable            := by decide
    theorem C07_dispatch_translated_eq_model   : dispatch/operandDispatch/rejects = the model's := by decide
    theorem C07_translated_table_ok            : tableOk Translated.opTable = true             := by decide
    theorem C07_translated_preserves           : … := C07_table_preserves Translated.opTable C07_translated_table_ok …

STRICT: any statement / expression shape not listed below raises `TranslationError` (the check then reports the
obligations as broken, searches for a concrete failing input through the correspondence and says
`no-failing-input-found` if there is none).

Recognised in `map_comparison_operator(self, operation, left, right)`:
  docstring; `N = operation.__name__`; `F = hasattr(left|right, "is_distinct_from")` (operand-shape flags);
  `if <op-test X>: <body>` with <op-test X> = `operation is operator.X`, `N == "X"`, `operation.__name__ == "X"` or an
  `or` of those FOR THE SAME X; `V = self.T.get(N)` / `V = T.get(N)` with `T` a class-level / module-level dict literal
  `{"x": operator.Y, …}` followed by `if V is not None: return V(left, right)` (lookup-table style);
  bodies: `if`/`elif`/`else` over the flags (`and`, `or`, `not`) ending in `return <construct>`;
  constructs: `left ⋄ right` / `right ⋄ left` (⋄ one of == != < <= > >=), `A.is_distinct_from(B)`,
  `A.is_not_distinct_from(B)` with {A, B} = {left, right}; final `raise UnsupportedOperatorError(...)`.
Recognised in `map_contains_operator`: `N = operation.__name__`; `NEG = N == "not_contains"`; one `if/elif/else` chain
  whose tests are built from `isinstance(left|right, (list, tuple, set))` and `isinstance(left|right, str)` with
  `and`/`or`/`not`, each branch `E = <construct>`; constructs `null_safe_in(A, B)`, `func.instr(A', B') > 0` with A', B' the
  operands or `literal(operand)`, `literal(A in B)`, `A.contains(B)`; last statement
  `return sa_not(E) if NEG else E`.
Recognised in `null_safe_in(column, values)`: `values = list(values)`; `L = [v for v in values if v is not None]`;
  `if <test>: return <form>` / `return <form>` with <test> = `any(v is None for v in values)` under `not`; forms
  `column.in_(values)`, `column.in_(L)`, `column.is_(None)`, `column.is_not(None)`, `or_(f, g)`, `and_(f, g)`, `sa_not(f)`.
Recognised in `translate_query` / `_translate_comparator_operand`: `if isinstance(P, Cls): [local = Ctor(...)]
  return <receiver>.method(P)`, `if isinstance(P, SymbolicExpression): raise E(...)`, `return P`, final `raise E(...)`.
Recognised in `translate`: guards `if not isinstance(self.select_like, Entity): raise E(...)` and
  `if D is None: raise E(...)` with `D = get_dao_class(self.select_like.selected_variable._type_)`; everything else in that
  method (building the statement) is not table logic and is skipped.  `evaluate`: the final `raise E(...)`.

NORMALISING (each the identity on the tables): names of locals; order of the operator branches (their tests are
mutually exclusive) and of the disjoint `isinstance` cases of `translate_query`; which of the equivalent operator tests is
used; operand order of a symmetric construct is NOT normalised (`right == left` is `⟨eq, swap⟩`) except where the swapped
row is the same SQL (`==`, `!=`, `IS [NOT] DISTINCT FROM` are symmetric: the swap flag is dropped; `right > left` becomes
`left < right`); `literal(x)` around an `instr` argument; comments, docstrings, blank lines; `elif` vs nested `if`;
`column.in_([non-None values])` in the branch where no None is among the values is `column.in_(values)`.
"""
from __future__ import annotations

import ast
from pathlib import Path
from typing import Any, Dict, List, Optional, Tuple


class TranslationError(Exception):
    pass


OPS = ["eq", "ne", "lt", "le", "gt", "ge"]
SIDES = ["colCol", "colLit", "litCol", "litLit"]  # (left_is_sql, right_is_sql)
SIDE_FLAGS = {"colCol": (True, True), "colLit": (True, False), "litCol": (False, True), "litLit": (False, False)}
CMPOP = {ast.Eq: "eq", ast.NotEq: "ne", ast.Lt: "lt", ast.LtE: "le", ast.Gt: "gt", ast.GtE: "ge"}
MIRROR = {"eq": "eq", "ne": "ne", "lt": "gt", "gt": "lt", "le": "ge", "ge": "le",
          "isDistinctFrom": "isDistinctFrom", "isNotDistinctFrom": "isNotDistinctFrom"}
ERR = {"UnsupportedQueryTypeError": "unsupportedQueryType", "UnsupportedOperatorError": "unsupportedOperator",
       "UnsupportedQuantifierError": "unsupportedQuantifier", "AttributeResolutionError": "attributeResolution",
       "MissingDAOError": "missingDAO", "DomainExtractionError": "domainExtraction",
       "EQLTranslationError": "eqlTranslationError"}
KIND = {"AND": "andNode", "OR": "orNode", "Comparator": "comparator", "Attribute": "attribute", "Literal": "literal",
        "Variable": "variable", "Not": "notNode", "Exists": "existsNode", "ForAll": "forAllNode", "Index": "index",
        "Call": "call", "Flatten": "flatten"}
KIND_ORDER = ["andNode", "orNode", "comparator", "attribute", "literal", "variable", "notNode", "existsNode", "forAllNode",
              "predicate", "index", "call", "flatten", "nestedQuery", "plainValue"]
HANDLER = {"translate_and": "translateAnd", "translate_or": "translateOr", "translate_comparator": "translateComparator",
           "translate_attribute": "translateAttribute", "extract_from_literal": "extractLiteral",
           "extract_from_variable": "extractVariable"}
SHAPES = {  # ContShape -> truth of (left coll, right coll, left str, right str)
    "leftColl": (True, False, False, False), "rightColl": (False, True, False, False),
    "strCol": (False, False, True, False), "colStr": (False, False, False, True),
    "strStr": (False, False, True, True), "colCol": (False, False, False, False)}


def _skippable(s: ast.stmt) -> bool:
    return isinstance(s, ast.Pass) or (isinstance(s, ast.Expr) and isinstance(s.value, ast.Constant))


def _body(fn: ast.FunctionDef) -> List[ast.stmt]:
    return [s for s in fn.body if not _skippable(s)]


def _params(fn: ast.FunctionDef, expected: List[str]) -> None:
    a = fn.args
    names = [x.arg for x in a.args]
    if names != expected or a.vararg or a.kwarg or a.kwonlyargs or a.posonlyargs:
        raise TranslationError(f"{fn.name}: signature changed: ({ast.unparse(a)})")


def _raise_class(s: ast.stmt) -> str:
    if not (isinstance(s, ast.Raise) and s.exc is not None and s.cause is None):
        raise TranslationError(f"expected `raise <EQLTranslationError subclass>(...)`, found: {ast.unparse(s)}")
    e = s.exc
    name = e.func.id if (isinstance(e, ast.Call) and isinstance(e.func, ast.Name)) else (e.id if isinstance(e, ast.Name) else None)
    if name not in ERR:
        raise TranslationError(f"not an EQLTranslationError subclass: {ast.unparse(s)}")
    return ERR[name]


def _is_name(e: ast.AST, n: str) -> bool:
    return isinstance(e, ast.Name) and e.id == n


def _bool_eval(e: ast.AST, atom) -> bool:
    """truth of a test built with and / or / not from atoms `atom(e) -> Optional[bool]`"""
    v = atom(e)
    if v is not None:
        return v
    if isinstance(e, ast.BoolOp):
        vals = [_bool_eval(x, atom) for x in e.values]
        return all(vals) if isinstance(e.op, ast.And) else any(vals)
    if isinstance(e, ast.UnaryOp) and isinstance(e.op, ast.Not):
        return not _bool_eval(e.operand, atom)
    raise TranslationError(f"unsupported test: {ast.unparse(e)}")


# ------------------------------------------------------------------------------------------ map_comparison_operator

class _Cmp:
    def __init__(self, cls: ast.ClassDef, module: ast.Module):
        fns = [f for f in cls.body if isinstance(f, ast.FunctionDef) and f.name == "map_comparison_operator"]
        if len(fns) != 1:
            raise TranslationError("OperatorMapper.map_comparison_operator not found")
        self.fn = fns[0]
        if self.fn.decorator_list:
            raise TranslationError("map_comparison_operator is decorated")
        _params(self.fn, ["self", "operation", "left", "right"])
        self.dicts: Dict[str, Dict[str, str]] = {}
        for scope, prefix in ((cls.body, "self."), (module.body, "")):
            for s in scope:
                tgt, val = None, None
                if isinstance(s, ast.Assign) and len(s.targets) == 1 and isinstance(s.targets[0], ast.Name):
                    tgt, val = s.targets[0].id, s.value
                elif isinstance(s, ast.AnnAssign) and isinstance(s.target, ast.Name) and s.value is not None:
                    tgt, val = s.target.id, s.value
                if tgt is None or not isinstance(val, ast.Dict):
                    continue
                d: Dict[str, str] = {}
                ok = True
                for k, v in zip(val.keys, val.values):
                    if (isinstance(k, ast.Constant) and isinstance(k.value, str) and isinstance(v, ast.Attribute)
                            and _is_name(v.value, "operator") and v.attr in OPS):
                        if k.value in d:
                            ok = False
                        d[k.value] = v.attr
                    else:
                        ok = False
                if ok:
                    self.dicts[prefix + tgt] = d
                    if prefix:
                        self.dicts["OperatorMapper." + tgt] = d
        self.name_var: Optional[str] = None
        self.flags: Dict[str, str] = {}  # local -> "left" | "right"
        self.reject: Optional[str] = None

    # -- tests
    def op_of_test(self, e: ast.AST) -> Optional[str]:
        """the operator X an op-test is about, None if `e` is not an op-test"""
        if isinstance(e, ast.BoolOp) and isinstance(e.op, ast.Or):
            xs = [self.op_of_test(v) for v in e.values]
            if any(x is None for x in xs):
                return None
            if len(set(xs)) != 1:
                raise TranslationError(f"one branch tests two different operators: {ast.unparse(e)}")
            return xs[0]
        if isinstance(e, ast.Compare) and len(e.ops) == 1:
            l, r = e.left, e.comparators[0]
            if isinstance(e.ops[0], ast.Is) and _is_name(l, "operation") and isinstance(r, ast.Attribute) \
                    and _is_name(r.value, "operator"):
                if r.attr not in OPS:
                    raise TranslationError(f"unknown operator in {ast.unparse(e)}")
                return r.attr
            if isinstance(e.ops[0], ast.Eq):
                if isinstance(l, ast.Constant):
                    l, r = r, l
                is_name = (self.name_var is not None and _is_name(l, self.name_var)) or ast.unparse(l) == "operation.__name__"
                if is_name and isinstance(r, ast.Constant) and isinstance(r.value, str):
                    if r.value not in OPS:
                        raise TranslationError(f"unknown operator name in {ast.unparse(e)}")
                    return r.value
        return None

    def flag_atom(self, sides: str):
        l, r = SIDE_FLAGS[sides]

        def atom(e: ast.AST) -> Optional[bool]:
            if isinstance(e, ast.Name) and e.id in self.flags:
                return l if self.flags[e.id] == "left" else r
            side = self.hasattr_side(e)
            if side is not None:
                return l if side == "left" else r
            return None
        return atom

    @staticmethod
    def hasattr_side(e: ast.AST) -> Optional[str]:
        if (isinstance(e, ast.Call) and _is_name(e.func, "hasattr") and len(e.args) == 2 and not e.keywords
                and isinstance(e.args[0], ast.Name) and e.args[0].id in ("left", "right")
                and isinstance(e.args[1], ast.Constant) and e.args[1].value == "is_distinct_from"):
            return e.args[0].id
        return None

    # -- constructs
    @staticmethod
    def construct(e: ast.AST) -> Tuple[str, bool]:
        def side(x):
            return x.id if isinstance(x, ast.Name) and x.id in ("left", "right") else None
        rel, a, b = None, None, None
        if isinstance(e, ast.Compare) and len(e.ops) == 1 and type(e.ops[0]) in CMPOP:
            rel, a, b = CMPOP[type(e.ops[0])], side(e.left), side(e.comparators[0])
        elif (isinstance(e, ast.Call) and isinstance(e.func, ast.Attribute) and len(e.args) == 1 and not e.keywords
              and e.func.attr in ("is_distinct_from", "is_not_distinct_from")):
            rel = "isDistinctFrom" if e.func.attr == "is_distinct_from" else "isNotDistinctFrom"
            a, b = side(e.func.value), side(e.args[0])
        if rel is None or a is None or b is None or a == b:
            raise TranslationError(f"unsupported SQL construct: {ast.unparse(e)}")
        swap = a == "right"
        if swap:  # `right ⋄ left` is `left ⋄' right` with the mirrored operator: the same SQL
            rel, swap = MIRROR[rel], False
        return rel, swap

    # -- symbolic run
    def run_block(self, stmts: List[ast.stmt], atom, env: Dict[str, Optional[str]]) -> Optional[Tuple[str, bool]]:
        """returns the construct returned, or None if the block falls through"""
        for s in stmts:
            if _skippable(s):
                continue
            if isinstance(s, ast.Return) and s.value is not None:
                v = s.value
                if (isinstance(v, ast.Call) and isinstance(v.func, ast.Name) and v.func.id in env and len(v.args) == 2
                        and not v.keywords and _is_name(v.args[0], "left") and _is_name(v.args[1], "right")):
                    if env[v.func.id] is None:
                        raise TranslationError(f"call of a missing table entry: {ast.unparse(s)}")
                    return env[v.func.id], False
                return self.construct(v)
            if isinstance(s, ast.If):
                t = s.test
                # `if V is not None:` on a table lookup
                if (isinstance(t, ast.Compare) and len(t.ops) == 1 and isinstance(t.left, ast.Name) and t.left.id in env
                        and isinstance(t.comparators[0], ast.Constant) and t.comparators[0].value is None
                        and isinstance(t.ops[0], (ast.IsNot, ast.Is))):
                    truth = (env[t.left.id] is not None) == isinstance(t.ops[0], ast.IsNot)
                else:
                    truth = _bool_eval(t, atom)
                r = self.run_block(s.body if truth else s.orelse, atom, env)
                if r is not None:
                    return r
                continue
            raise TranslationError(f"unsupported statement in an operator branch: {ast.unparse(s)}")
        return None

    def table(self) -> Dict[Tuple[str, str], Tuple[str, bool]]:
        body = _body(self.fn)
        rows: Dict[Tuple[str, str], Tuple[str, bool]] = {}
        # prelude: name variable and flags may be (re)defined anywhere at top level before use; collect them first
        for s in body:
            if isinstance(s, ast.Assign) and len(s.targets) == 1 and isinstance(s.targets[0], ast.Name):
                if ast.unparse(s.value) == "operation.__name__":
                    self.name_var = s.targets[0].id
                side = self.hasattr_side(s.value)
                if side is not None:
                    self.flags[s.targets[0].id] = side
        if not body or not isinstance(body[-1], ast.Raise):
            raise TranslationError("map_comparison_operator does not end with `raise UnsupportedOperatorError(...)`")
        self.reject = _raise_class(body[-1])
        for op in OPS:
            for sides in SIDES:
                atom0 = self.flag_atom(sides)

                def atom(e, _op=op, _a=atom0):
                    x = self.op_of_test(e)
                    if x is not None:
                        return x == _op
                    return _a(e)
                env: Dict[str, Optional[str]] = {}
                result = None
                for s in body[:-1]:
                    if isinstance(s, ast.Assign) and len(s.targets) == 1 and isinstance(s.targets[0], ast.Name):
                        tgt, v = s.targets[0].id, s.value
                        if ast.unparse(v) == "operation.__name__" or self.hasattr_side(v) is not None:
                            continue
                        # V = T.get(N)
                        if (isinstance(v, ast.Call) and isinstance(v.func, ast.Attribute) and v.func.attr == "get"
                                and len(v.args) == 1 and not v.keywords and ast.unparse(v.func.value) in self.dicts
                                and (_is_name(v.args[0], self.name_var or "") or ast.unparse(v.args[0]) == "operation.__name__")):
                            env[tgt] = self.dicts[ast.unparse(v.func.value)].get(op)
                            continue
                        raise TranslationError(f"unsupported assignment: {ast.unparse(s)}")
                    if isinstance(s, ast.If):
                        result = self.run_block([s], atom, env)
                        if result is not None:
                            break
                        continue
                    raise TranslationError(f"unsupported statement: {ast.unparse(s)}")
                if result is not None:
                    rows[(op, sides)] = result
        return rows


# ------------------------------------------------------------------------------------------ map_contains_operator

def _contains_rows(cls: ast.ClassDef) -> Dict[str, str]:
    fns = [f for f in cls.body if isinstance(f, ast.FunctionDef) and f.name == "map_contains_operator"]
    if len(fns) != 1 or fns[0].decorator_list:
        raise TranslationError("OperatorMapper.map_contains_operator not found")
    fn = fns[0]
    _params(fn, ["self", "operation", "left", "right"])
    body = _body(fn)
    name_var, neg_var = None, None
    rest = []
    for s in body:
        if isinstance(s, ast.Assign) and len(s.targets) == 1 and isinstance(s.targets[0], ast.Name):
            src = ast.unparse(s.value)
            if src == "operation.__name__":
                name_var = s.targets[0].id
                continue
            if name_var and src in (f"{name_var} == 'not_contains'", f"'not_contains' == {name_var}") \
                    or src in ("operation.__name__ == 'not_contains'",):
                neg_var = s.targets[0].id
                continue
        rest.append(s)
    if len(rest) != 2 or not isinstance(rest[0], ast.If) or not isinstance(rest[1], ast.Return):
        raise TranslationError("map_contains_operator: expected one if/elif/else chain followed by one return")
    chain, ret = rest

    def operand(e: ast.AST) -> Optional[str]:
        if isinstance(e, ast.Name) and e.id in ("left", "right"):
            return e.id
        if isinstance(e, ast.Call) and _is_name(e.func, "literal") and len(e.args) == 1 and not e.keywords:
            return operand(e.args[0])
        return None

    def construct(e: ast.AST) -> str:
        if isinstance(e, ast.Call) and _is_name(e.func, "null_safe_in") and len(e.args) == 2 and not e.keywords:
            a, b = (x.id if isinstance(x, ast.Name) else None for x in e.args)
            if {a, b} == {"left", "right"}:
                return f".nullSafeIn .{a}"
        if (isinstance(e, ast.Compare) and len(e.ops) == 1 and isinstance(e.ops[0], ast.Gt)
                and isinstance(e.comparators[0], ast.Constant) and e.comparators[0].value == 0
                and type(e.comparators[0].value) is int and isinstance(e.left, ast.Call)
                and ast.unparse(e.left.func) == "func.instr" and len(e.left.args) == 2 and not e.left.keywords):
            a, b = operand(e.left.args[0]), operand(e.left.args[1])
            if {a, b} == {"left", "right"}:
                return f".instrGt0 {'false' if a == 'left' else 'true'}"
        if (isinstance(e, ast.Call) and _is_name(e.func, "literal") and len(e.args) == 1 and not e.keywords
                and isinstance(e.args[0], ast.Compare) and len(e.args[0].ops) == 1 and isinstance(e.args[0].ops[0], ast.In)):
            a, b = e.args[0].left, e.args[0].comparators[0]
            if isinstance(a, ast.Name) and isinstance(b, ast.Name) and {a.id, b.id} == {"left", "right"}:
                return f".pyIn {'false' if b.id == 'left' else 'true'}"
        if (isinstance(e, ast.Call) and isinstance(e.func, ast.Attribute) and e.func.attr == "contains" and len(e.args) == 1
                and not e.keywords):
            a, b = operand(e.func.value), operand(e.args[0])
            if {a, b} == {"left", "right"} and isinstance(e.func.value, ast.Name):
                return f".like {'false' if a == 'left' else 'true'}"
        raise TranslationError(f"unsupported SQL construct: {ast.unparse(e)}")

    def atom_for(shape: str):
        lc, rc, ls, rs = SHAPES[shape]

        def atom(e: ast.AST) -> Optional[bool]:
            if (isinstance(e, ast.Call) and _is_name(e.func, "isinstance") and len(e.args) == 2 and not e.keywords
                    and isinstance(e.args[0], ast.Name) and e.args[0].id in ("left", "right")):
                who, what = e.args[0].id, e.args[1]
                if _is_name(what, "str"):
                    return ls if who == "left" else rs
                if isinstance(what, ast.Tuple) and all(isinstance(x, ast.Name) for x in what.elts):
                    if sorted(x.id for x in what.elts) != ["list", "set", "tuple"]:
                        raise TranslationError(f"collection test changed: {ast.unparse(e)}")
                    return lc if who == "left" else rc
                raise TranslationError(f"unsupported isinstance test: {ast.unparse(e)}")
            return None
        return atom

    expr_var: Optional[str] = None

    def run(s: ast.stmt, atom) -> str:
        nonlocal expr_var
        if isinstance(s, ast.If):
            branch = s.body if _bool_eval(s.test, atom) else s.orelse
            branch = [b for b in branch if not _skippable(b)]
            if len(branch) != 1:
                raise TranslationError("map_contains_operator: a branch must be exactly one statement")
            return run(branch[0], atom)
        if isinstance(s, ast.Assign) and len(s.targets) == 1 and isinstance(s.targets[0], ast.Name):
            if expr_var not in (None, s.targets[0].id):
                raise TranslationError("map_contains_operator: branches assign different variables")
            expr_var = s.targets[0].id
            return construct(s.value)
        raise TranslationError(f"unsupported statement: {ast.unparse(s)}")

    rows = {shape: run(chain, atom_for(shape)) for shape in SHAPES}
    ok_ret = (neg_var is not None and expr_var is not None and ret.value is not None
              and ast.unparse(ret.value) == f"sa_not({expr_var}) if {neg_var} else {expr_var}")
    if not ok_ret:
        raise TranslationError(f"map_contains_operator: unsupported return: {ast.unparse(ret)}")
    rows["__not__"] = ".saNot"
    return rows


# ------------------------------------------------------------------------------------------ null_safe_in

def _member_rows(module: ast.Module) -> Dict[bool, str]:
    fns = [f for f in module.body if isinstance(f, ast.FunctionDef) and f.name == "null_safe_in"]
    if len(fns) != 1 or fns[0].decorator_list:
        raise TranslationError("null_safe_in not found")
    fn = fns[0]
    _params(fn, ["column", "values"])
    nn_vars: set = set()

    def is_nn_list(e: ast.AST) -> bool:
        if isinstance(e, ast.Name) and e.id in nn_vars:
            return True
        if isinstance(e, ast.ListComp) and len(e.generators) == 1:
            g = e.generators[0]
            return (isinstance(g.target, ast.Name) and _is_name(e.elt, g.target.id) and _is_name(g.iter, "values")
                    and not g.is_async and len(g.ifs) == 1 and ast.unparse(g.ifs[0]) == f"{g.target.id} is not None")
        return False

    def form(e: ast.AST, has_none: bool) -> str:
        if isinstance(e, ast.Call) and not e.keywords:
            f = e.func
            if isinstance(f, ast.Attribute) and _is_name(f.value, "column") and len(e.args) == 1:
                a = e.args[0]
                if f.attr == "in_":
                    if _is_name(a, "values"):
                        return ".inAll"
                    if is_nn_list(a):
                        return ".inNonNull" if has_none else ".inAll"
                if isinstance(a, ast.Constant) and a.value is None:
                    if f.attr == "is_":
                        return ".isNull"
                    if f.attr in ("is_not", "isnot"):
                        return ".isNotNull"
            if isinstance(f, ast.Name) and f.id in ("or_", "and_") and len(e.args) == 2:
                return f"(.{f.id[:-1]} {form(e.args[0], has_none)} {form(e.args[1], has_none)})"
            if isinstance(f, ast.Name) and f.id == "sa_not" and len(e.args) == 1:
                return f"(.not {form(e.args[0], has_none)})"
        raise TranslationError(f"null_safe_in: unsupported SQL construct: {ast.unparse(e)}")

    def atom_for(has_none: bool):
        def atom(e: ast.AST) -> Optional[bool]:
            if isinstance(e, ast.Call) and _is_name(e.func, "any") and len(e.args) == 1 and not e.keywords \
                    and isinstance(e.args[0], ast.GeneratorExp) and len(e.args[0].generators) == 1:
                g = e.args[0].generators[0]
                if (isinstance(g.target, ast.Name) and _is_name(g.iter, "values") and not g.ifs and not g.is_async
                        and ast.unparse(e.args[0].elt) == f"{g.target.id} is None"):
                    return has_none
            return None
        return atom

    def run(stmts: List[ast.stmt], has_none: bool) -> Optional[str]:
        for s in stmts:
            if _skippable(s):
                continue
            if isinstance(s, ast.Assign) and len(s.targets) == 1 and isinstance(s.targets[0], ast.Name):
                t = s.targets[0].id
                if t == "values" and ast.unparse(s.value) in ("list(values)", "tuple(values)"):
                    continue
                if t not in ("values", "column") and is_nn_list(s.value):
                    nn_vars.add(t)
                    continue
                raise TranslationError(f"null_safe_in: unsupported assignment: {ast.unparse(s)}")
            if isinstance(s, ast.If):
                r = run(s.body if _bool_eval(s.test, atom_for(has_none)) else s.orelse, has_none)
                if r is not None:
                    return r
                continue
            if isinstance(s, ast.Return) and s.value is not None:
                return form(s.value, has_none)
            raise TranslationError(f"null_safe_in: unsupported statement: {ast.unparse(s)}")
        return None

    out = {}
    for h in (False, True):
        nn_vars.clear()
        r = run(_body(fn), h)
        if r is None:
            raise TranslationError("null_safe_in: a path does not return")
        out[h] = r
    return out


# ------------------------------------------------------------------------------------------ dispatch + rejects

def _method(cls: ast.ClassDef, name: str) -> ast.FunctionDef:
    fns = [f for f in cls.body if isinstance(f, ast.FunctionDef) and f.name == name]
    if len(fns) != 1 or fns[0].decorator_list:
        raise TranslationError(f"{cls.name}.{name} not found (or decorated / defined twice)")
    return fns[0]


def _dispatch_of(fn: ast.FunctionDef, param: str, sort: bool):
    """-> (list of (kind, handler) , reject class for an unmatched symbolic node or None, falls through to `return param`)"""
    _params(fn, ["self", param])
    rows: List[Tuple[str, str]] = []
    reject = None
    passthrough = False
    body = _body(fn)
    for i, s in enumerate(body):
        last = i == len(body) - 1
        if isinstance(s, ast.If) and not s.orelse:
            t = s.test
            if not (isinstance(t, ast.Call) and _is_name(t.func, "isinstance") and len(t.args) == 2 and not t.keywords
                    and _is_name(t.args[0], param) and isinstance(t.args[1], ast.Name)):
                raise TranslationError(f"{fn.name}: unsupported test: {ast.unparse(t)}")
            cname = t.args[1].id
            b = [x for x in s.body if not _skippable(x)]
            if cname == "SymbolicExpression":
                if len(b) != 1 or reject is not None:
                    raise TranslationError(f"{fn.name}: unsupported SymbolicExpression case")
                reject = _raise_class(b[0])
                continue
            if reject is not None:
                raise TranslationError(f"{fn.name}: a case after the SymbolicExpression guard is unreachable for symbolic nodes")
            if cname not in KIND:
                raise TranslationError(f"{fn.name}: unknown node class {cname}")
            # optional `local = Ctor(...)` statements, then `return <recv>.method(param)`
            locals_: set = set()
            for x in b[:-1]:
                if isinstance(x, ast.Assign) and len(x.targets) == 1 and isinstance(x.targets[0], ast.Name) \
                        and isinstance(x.value, ast.Call) and isinstance(x.value.func, ast.Name):
                    locals_.add(x.targets[0].id)
                else:
                    raise TranslationError(f"{fn.name}: unsupported statement in a case: {ast.unparse(x)}")
            r = b[-1] if b else None
            ok = (isinstance(r, ast.Return) and isinstance(r.value, ast.Call) and isinstance(r.value.func, ast.Attribute)
                  and len(r.value.args) == 1 and not r.value.keywords and _is_name(r.value.args[0], param)
                  and r.value.func.attr in HANDLER
                  and (ast.unparse(r.value.func.value) == "self" or
                       (isinstance(r.value.func.value, ast.Name) and r.value.func.value.id in locals_) or
                       (isinstance(r.value.func.value, ast.Call) and isinstance(r.value.func.value.func, ast.Name))))
            if not ok:
                raise TranslationError(f"{fn.name}: unsupported case body for {cname}")
            kind = KIND[cname]
            if kind not in [k for k, _ in rows]:  # first match wins
                rows.append((kind, HANDLER[r.value.func.attr]))
            continue
        if last and isinstance(s, ast.Raise):
            if reject is not None:
                raise TranslationError(f"{fn.name}: two rejections")
            reject = _raise_class(s)
            continue
        if last and isinstance(s, ast.Return) and s.value is not None and _is_name(s.value, param):
            passthrough = True
            continue
        raise TranslationError(f"{fn.name}: unsupported statement: {ast.unparse(s)}")
    if sort:
        rows.sort(key=lambda kh: KIND_ORDER.index(kh[0]))
    return rows, reject, passthrough


def _translate_guards(fn: ast.FunctionDef) -> List[Tuple[str, str]]:
    _params(fn, ["self"])
    out: List[Tuple[str, str]] = []
    dao_vars: set = set()
    for s in _body(fn):
        if isinstance(s, ast.Assign) and len(s.targets) == 1 and isinstance(s.targets[0], ast.Name) \
                and ast.unparse(s.value) == "get_dao_class(self.select_like.selected_variable._type_)":
            dao_vars.add(s.targets[0].id)
        has_raise = any(isinstance(n, ast.Raise) for n in ast.walk(s))
        if not has_raise:
            continue
        if not (isinstance(s, ast.If) and not s.orelse):
            raise TranslationError(f"translate: unsupported raising statement: {ast.unparse(s)}")
        b = [x for x in s.body if not _skippable(x)]
        if len(b) != 1:
            raise TranslationError("translate: a guard must be exactly one raise")
        src = ast.unparse(s.test)
        if src == "not isinstance(self.select_like, Entity)":
            out.append(("selectNotEntity", _raise_class(b[0])))
        elif isinstance(s.test, ast.Compare) and len(s.test.ops) == 1 and isinstance(s.test.ops[0], ast.Is) \
                and isinstance(s.test.left, ast.Name) and s.test.left.id in dao_vars \
                and isinstance(s.test.comparators[0], ast.Constant) and s.test.comparators[0].value is None:
            out.append(("noDaoForSelected", _raise_class(b[0])))
        else:
            raise TranslationError(f"translate: unsupported guard: {src}")
    return out


def _evaluate_reject(fn: ast.FunctionDef) -> List[Tuple[str, str]]:
    body = _body(fn)
    raises = [n for s in body for n in ast.walk(s) if isinstance(n, ast.Raise)]
    if not raises:
        return []
    if len(raises) != 1 or body[-1] is not raises[0]:
        raise TranslationError("evaluate: unsupported raise")
    return [("quantifierUnknown", _raise_class(raises[0]))]


# ------------------------------------------------------------------------------------------ driver

def tables_of(source: str) -> Dict[str, Any]:
    module = ast.parse(source)
    classes = {c.name: c for c in module.body if isinstance(c, ast.ClassDef)}
    for name in ERR:
        if name == "EQLTranslationError":
            if name not in classes or [ast.unparse(b) for b in classes[name].bases] != ["Exception"]:
                raise TranslationError("EQLTranslationError is no longer a direct Exception subclass")
        elif name not in classes or [ast.unparse(b) for b in classes[name].bases] != ["EQLTranslationError"]:
            raise TranslationError(f"{name} is no longer a direct EQLTranslationError subclass")
    for need in ("OperatorMapper", "EQLTranslator"):
        if need not in classes:
            raise TranslationError(f"class {need} not found")
    om, tr = classes["OperatorMapper"], classes["EQLTranslator"]
    cmp_ = _Cmp(om, module)
    cmp_rows = cmp_.table()
    cont = _contains_rows(om)
    mem = _member_rows(module)
    disp, rej_q, pt_q = _dispatch_of(_method(tr, "translate_query"), "query", sort=True)
    if pt_q or rej_q is None:
        raise TranslationError("translate_query no longer ends by rejecting unknown node types")
    odisp, rej_o, pt_o = _dispatch_of(_method(tr, "_translate_comparator_operand"), "operand", sort=False)
    if pt_o:
        odisp.append(("plainValue", "passThrough"))
    rejects = _translate_guards(_method(tr, "translate"))
    rejects.append(("condNodeOther", rej_q))
    if rej_o is not None:
        rejects.append(("operandSymbolicOther", rej_o))
    if cmp_.reject is not None:
        rejects.append(("operatorUnknown", cmp_.reject))
    rejects += _evaluate_reject(_method(tr, "evaluate"))
    order = ["selectNotEntity", "noDaoForSelected", "condNodeOther", "operandSymbolicOther", "operatorUnknown",
             "quantifierUnknown"]
    if len({k for k, _ in rejects}) != len(rejects):
        raise TranslationError("a rejection shape occurs twice")
    rejects.sort(key=lambda kv: order.index(kv[0]))
    return {"cmp": cmp_rows, "contains": cont, "member": mem, "dispatch": disp, "operandDispatch": odisp, "rejects": rejects}


def lean_of(t: Dict[str, Any]) -> str:
    rows: List[str] = []
    for op in OPS:
        for sides in SIDES:
            if (op, sides) in t["cmp"]:
                rel, swap = t["cmp"][(op, sides)]
                rows.append(f"(.cmp .{op} .{sides}, .cmp ⟨.{rel}, {'true' if swap else 'false'}⟩)")
    for shape in SHAPES:
        rows.append(f"(.contains .{shape}, {t['contains'][shape]})")
    rows.append(f"(.notContains, {t['contains']['__not__']})")
    for h in (False, True):
        rows.append(f"(.member {'true' if h else 'false'}, .mem {t['member'][h]})")
    tab = ",\n    ".join(rows)
    disp = ", ".join(f"(.{k}, .{h})" for k, h in t["dispatch"])
    odisp = ", ".join(f"(.{k}, .{h})" for k, h in t["operandDispatch"])
    rej = ", ".join(f"(.{k}, .{e})" for k, e in t["rejects"])
    return f"""import KrroodVerif.Props.C07Table
/-! GENERATED by harness/translate/c07_translate.py from src/krrood/ormatic/eql_interface.py — do not edit -/
namespace KrroodVerif.SqlTr.Translated
open KrroodVerif.SqlTr

/-- operator × operand shape ↦ SQLAlchemy construct, read off the current source -/
def opTable : OpTable :=
  [ {tab} ]

def dispatch : List (NodeKind × Handler) := [{disp}]
def operandDispatch : List (NodeKind × Handler) := [{odisp}]
def rejects : List (Shape × ErrClass) := [{rej}]

/-- the operator logic of the current source is the one the model (`sqlCmpV`, `sqlIn`, the `instr` atom — by
`cmpT_opTable`, `memT_opTable`, `subT_opTable`) transcribes -/
theorem C07_opTable_translated_eq_model : opTable = SqlTr.opTable := by decide

/-- the dispatch and the rejection rules of the current source are the ones the model transcribes
(`C07_dispatch_rejects`, `C07_operand_rejects`, `C07_query_rejects`) -/
theorem C07_dispatch_translated_eq_model :
    dispatch = SqlTr.dispatch ∧ operandDispatch = SqlTr.operandDispatch ∧ rejects = SqlTr.rejects := by decide

/-- every row's SQL form has the truth set of the Python operator (NULL-safe reading included) -/
theorem C07_translated_table_ok : tableOk opTable = true := by decide

/-- hence the property holds of the translation with the regenerated table, on the fragment of `C07_preserves_partial` -/
theorem C07_translated_preserves (S : Schema) (db : DB) (q : Query) (sel : Cls) (e : Expr) (s : SqlQuery)
    (hv : q.vars = [sel]) (hc : q.cond = some e) (hf : Frag e) (hg : Good db (rootsOf S db sel) e)
    (ht : translate S q = .ok s) :
    evalMem S q db = some (execSqlWith (evalSqlT opTable) S s db) :=
  C07_table_preserves opTable C07_translated_table_ok S db q sel e s hv hc hf hg ht
end KrroodVerif.SqlTr.Translated
"""


def translate(source: str) -> str:
    return lean_of(tables_of(source))


def generate(repo: Path) -> str:
    return translate((Path(repo) / "src/krrood/ormatic/eql_interface.py").read_text())


if __name__ == "__main__":
    import sys
    print(generate(Path(sys.argv[1] if len(sys.argv) > 1 else "/repo")))
