"""Self-test of the C09 loop translator (run by hand: `/venv/bin/python harness/translate/test_c09_loop_translate.py
[--check]`). Textual variants of /repo's symbolic.py:

* MUTATIONS (semantic): the per-run obligations must break (kernel rejects `ShapeOk rawShape` / `shape = Quant.shape`, or
  the translator rejects the source). With `--check` every variant is written to a scratch worktree of /repo and the
  whole C09 check is run against it: it must exit 1 with a VIOLATION (a concrete replay where the property is broken).
* REWRITES (harmless): the obligations must still be accepted, and with `--check` the check must exit 0.
"""
from __future__ import annotations

import os
import subprocess
import sys
from pathlib import Path

HERE = Path(__file__).resolve().parent
sys.path.insert(0, str(HERE.parent))
from translate import c09_loop_translate as lt  # noqa: E402

REPO = Path(os.environ.get("KRROOD_VERIF_REPO", "/repo"))
REL = "src/krrood/entity_query_language/symbolic.py"
LEAN_DIR = HERE.parent.parent / "lean"

LOOP = '''        result_count = 0
        values = self._child_._evaluate__(sources, parent=self)
        for value in values:
            result_count += 1
            self._assert_satisfaction_of_quantification_constraints_(
                result_count, done=False
            )
            if self._var_:
                value[self._id_] = value[self._var_._id_]
            yield OperationResult(value.bindings, False, self)
        self._assert_satisfaction_of_quantification_constraints_(
            result_count, done=True
        )
'''
INC = "            result_count += 1\n"
CHK = '''            self._assert_satisfaction_of_quantification_constraints_(
                result_count, done=False
            )
'''
YLD = "            yield OperationResult(value.bindings, False, self)\n"
FIN = '''        self._assert_satisfaction_of_quantification_constraints_(
            result_count, done=True
        )
'''
HANDLERS = '''        except LessThanExpectedNumberOfSolutions:
            raise NoSolutionFound(self)
        except GreaterThanExpectedNumberOfSolutions:
            raise MultipleSolutionFound(self)
'''


def sub(old, new, count=1):
    def f(src):
        assert src.count(old) >= 1, f"pattern not found: {old[:60]!r}"
        return src.replace(old, new, count)
    return f


def chain(*fs):
    def f(src):
        for g in fs:
            src = g(src)
        return src
    return f


MUTATIONS = {
    "incr-after-yield": chain(sub(INC, ""), sub(YLD, YLD + INC)),
    "check-after-yield": chain(sub(CHK, ""), sub(YLD, YLD + CHK)),
    "incremental-done-true": sub("result_count, done=False", "result_count, done=True"),
    "no-final-check": sub(FIN, ""),
    "final-done-false": sub("result_count, done=True", "result_count, done=False"),
    "init-one": sub("        result_count = 0\n", "        result_count = 1\n"),
    "step-two": sub(INC, "            result_count += 2\n"),
    "no-incremental-check": sub(CHK, ""),
    "check-count-plus-one": sub(CHK, CHK.replace("result_count, done", "result_count + 1, done")),
    "the-mapping-swapped": sub(HANDLERS, HANDLERS.replace("NoSolutionFound", "XX").replace("MultipleSolutionFound", "NoSolutionFound")
                               .replace("XX", "MultipleSolutionFound")),
    "the-default-atmost": sub("default_factory=lambda: Exactly(1)", "default_factory=lambda: AtMost(1)"),
    "the-less-unmapped": sub("        except LessThanExpectedNumberOfSolutions:\n            raise NoSolutionFound(self)\n", ""),
    "only-false-results": sub("        values = self._child_._evaluate__(sources, parent=self)\n",
                              "        values = filter(lambda r: r.is_false, self._child_._evaluate__(sources, parent=self))\n"),
    "eager-evaluate": sub("yield from map(self._process_result_, self._evaluate__())",
                          "yield from list(map(self._process_result_, self._evaluate__()))"),
    "counter-on-node": chain(sub("        result_count = 0\n", "        self._rc_ = 0\n"),
                             sub(INC, "            self._rc_ += 1\n"),
                             sub("result_count, done=False", "self._rc_, done=False"),
                             sub("result_count, done=True", "self._rc_, done=True")),
}

REWRITES = {
    "renamed-locals": chain(sub(LOOP, LOOP.replace("result_count", "seen").replace("values", "stream").replace("value", "item")
                                .replace("item[self._id_] = item[self._var_._id_]", "item[self._id_] = item[self._var_._id_]"))),
    "prologue-reordered": chain(sub("        sources = sources or {}\n        self._eval_parent_ = parent\n        if self._id_ in sources:",
                                    "        result_count: int = 0\n        self._eval_parent_ = parent\n        sources = sources or {}\n        if self._id_ in sources:"),
                                sub("        result_count = 0\n", "")),
    "plain-assignment-positional-done": chain(sub(INC, "            result_count = 1 + result_count\n"),
                                              sub("result_count, done=False", "result_count, False")),
    "check-then-increment": chain(sub(INC, ""), sub(CHK, CHK.replace("result_count, done", "result_count + 1, done") + INC)),
    "increment-after-yield-check-plus-one": chain(sub(INC, ""), sub(CHK, CHK.replace("result_count, done", "1 + result_count, done")),
                                                  sub(YLD, YLD + INC)),
    "stream-inlined-comments": chain(sub("        values = self._child_._evaluate__(sources, parent=self)\n", "        # the child\n"),
                                     sub("        for value in values:\n", "        for value in self._child_._evaluate__(sources, parent=self):  # lazily\n")),
    "helper-inlined": sub(CHK, "            if self._quantification_constraint_ is not None:\n"
                               "                self._quantification_constraint_.assert_satisfaction(result_count, self, False)\n"),
    "handlers-reordered": sub(HANDLERS, "        except GreaterThanExpectedNumberOfSolutions:\n            raise MultipleSolutionFound(self)\n"
                                        "        except LessThanExpectedNumberOfSolutions:\n            raise NoSolutionFound(self)\n"),
    "evaluate-as-loop": sub("        yield from map(self._process_result_, self._evaluate__())\n",
                            "        for raw in self._evaluate__():\n            yield self._process_result_(raw)\n"),
}


def obligations(src: str):
    """-> (accepted?, detail)"""
    try:
        d = lt.describe(src)
    except (lt.TranslationError, SyntaxError) as e:
        return False, f"rejected: {e}"
    f = LEAN_DIR / ".lake" / "audit" / f"C09LoopSelfTest_{os.getpid()}.lean"
    f.parent.mkdir(parents=True, exist_ok=True)
    f.write_text(lt.render(d))
    try:
        p = subprocess.run(["lake", "env", "lean", str(f)], cwd=str(LEAN_DIR), capture_output=True, text=True, timeout=600)
    finally:
        f.unlink()
    body = "[" + ", ".join(" ".join(map(str, e)) for e in d["raw_body"]) + "]"
    return p.returncode == 0, f"{d['counter']} init={d['init']} {d['filter']} body={body} final={d['final']} the={d['the']}"


def full_check(tag: str, src: str):
    wt = f"/tmp/wt_c09t_{tag}"
    subprocess.run(["git", "-C", "/repo", "worktree", "remove", "--force", wt], capture_output=True)
    subprocess.run(["git", "-C", "/repo", "worktree", "add", wt, "HEAD"], capture_output=True, check=True)
    try:
        (Path(wt) / REL).write_text(src)
        env = dict(os.environ, KRROOD_VERIF_REPO=wt, VERIF_SEED="0")
        p = subprocess.run(["/venv/bin/python", "harness/check.py", "C09", "--tier", "quick"], cwd=str(HERE.parent.parent),
                           capture_output=True, text=True, env=env)
        lines = [ln for ln in p.stdout.splitlines() if ln.startswith(("VIOLATION", "case :"))]
        return p.returncode, " | ".join(lines)[:260]
    finally:
        subprocess.run(["git", "-C", "/repo", "worktree", "remove", "--force", wt], capture_output=True)


def main():
    check = "--check" in sys.argv
    base = (REPO / REL).read_text()
    ok, detail = obligations(base)
    print(f"baseline: accepted={ok} {detail}")
    bad = 0 if ok else 1
    for kind, table, want in (("MUTATION", MUTATIONS, False), ("REWRITE", REWRITES, True)):
        for name, f in table.items():
            src = f(base)
            compile(src, name, "exec")
            acc, detail = obligations(src)
            line = f"{kind} {name}: obligations accepted={acc} ({detail})"
            good = acc == want
            if check:
                rc, rep = full_check(name, src)
                line += f"\n    check exit={rc} {rep}"
                good = good and (rc == 0) == want
            print(("ok   " if good else "FAIL ") + line)
            bad += 0 if good else 1
    print("self-test", "passed" if bad == 0 else f"FAILED ({bad})")
    return 1 if bad else 0


if __name__ == "__main__":
    sys.exit(main())
