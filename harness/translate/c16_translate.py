"""Translator (Python AST -> Lean 4) for the write paths of the monitored containers — the second tie of C16.

Sources: `src/krrood/ontomatic/property_descriptor/monitored_container.py` (`MonitoredContainer`, `MonitoredList`,
`MonitoredSet`) and `PropertyDescriptor.__set__` / `add_relation_to_the_graph` in `property_descriptor.py`.

Every mutator of the two container classes is a short method: it hands some elements to the recording hook
`self._on_add(...)` (directly, through the private helper `self._add_item(...)`, or by delegating to another
mutator), performs one operation of the underlying `list` / `set` (`super().…`), or is not overridden at all.  The
translator walks each method body with a tiny symbolic interpreter (values: the parameters, a snapshot
`list(param)` of one, the loop variable over one of those, the value the hook returned), collects the EVENTS
(record / store / add-item / delegate / loop) in program order, classifies the event list as one row of

    def Translated.mutatorTable : MutatorTable := [ ((.list, .append), ⟨false, .viaAddItem .arg⟩), … ]

(vocabulary: `lean/KrroodVerif/Model/MutatorTable.lean`) with one row for EVERY public mutating method of `list` and
`set` — an un-overridden one (`list.remove`, `sort`, `__imul__`, `set.discard`, …) is the explicit row `inherited` —
plus `_add_item` and the descriptor's `__set__`, and emits the obligations the kernel re-checks on every run:

    theorem C16_table_translated_total    : tableTotal mutatorTable = true                       := by decide
    theorem C16_table_translated_eq_model : normTable mutatorTable = normTable PD.mutatorTable   := by decide
    theorem C16_table_meets_property      : ∀ key isSet m s op, CRel key isSet m s → op.applicable isSet = true →
        ∃ σ', interp mutatorTable key isSet m op = some σ' ∧ CRel key isSet σ' (specStepC key isSet s op)
    theorem C16_table_run_meets_property  : the same for every SEQUENCE of operations, any length, any start

`PD.mutatorTable` is the hand-written table for which `C16_interp_eq_stepC` proves `interp = stepC … Quirks.none`,
the function `C16_full` / `C16_two_full` / `C16_relations` are about.

STRICT: any statement / expression shape outside the list below -> `TranslationError` (the check then reports the
obligation as broken, searches for a concrete failing input through the correspondence, and says
`no-failing-input-found` if there is none).  Also rejected: a container class that overrides a READ method of
`list` / `set` (`__iter__`, `__contains__`, `__len__`, …: the model assumes the builtin ones), changed bases or
class decorators, module-level statements other than imports / plain assignments / definitions (monkey patching),
a `list` / `set` API of the running interpreter with a method this file does not classify, and a changed recording
hook (`MonitoredContainer._on_add`, `PropertyDescriptor.add_relation_to_the_graph`, the scaffolding of `__set__`
around its container branch): those are PINNED — compared, after alpha-renaming of locals and stripping of
docstrings / annotations, with the templates below.

Recognised in a mutator body (parameters `self, p0[, p1]`; no decorators, defaults, *args):
  docstring / `pass`                                                skipped
  `self._on_add(V)` / `X = self._on_add(V)`                          record V (keyword arguments only if = defaults)
  `self._add_item(V)`                                               add-item V
  `self.<public mutator>(p0)` … `return self`                        delegate
  `super().<append|add|insert|__setitem__>(…)` / `list.append(self, …)`   store
  `X = list(p)` / `tuple(p)`                                        snapshot
  `for X in <p | snapshot | list(p)>: …`                             loop (no `else`)
  `[self._on_add(X) for X in p]`                                    loop of records, value = the list of results
  `if [not] isinstance(p0, slice): … else: …`                        item assignment: index vs slice
  `if not isinstance(p0, (set, frozenset)): return NotImplemented`   guard of an in-place set operator
  `return self` (required for `__iadd__` / `__ior__`), `return` / `return None` last (other methods)
In `__set__`, container branch: `V = list(value) if is_iterable(value) else [value]` | `V = make_set(value)` |
`V = list(make_set(value))` (snapshot), `attr._clear()`, `for X in <V | value | make_set(value)>:
attr._add_item(X[, inferred=False])`, `for X in list(attr._inferred_items): attr._update(X)`.

NORMALISING (each the identity for every input): names of parameters and locals; comments, docstrings, blank lines,
annotations; `tuple(p)` for `list(p)`; a snapshot taken in a statement of its own or in the loop header;
`list.append(self, x)` for `super().append(x)`; `if not isinstance(idx, slice)` with the branches swapped; the hook
result stored under a new name or the element itself stored (the hook returns its argument for a non-inferred
element) — except in `_add_item`, where the returned value must be what is stored (it is a weak reference for an
inferred element); keyword arguments spelled out with their default values.  HOW a mutator reaches the hook —
itself, via `_add_item`, via another mutator — is kept in the raw table and normalised away by `normTable` in Lean.
"""
from __future__ import annotations

import ast
import copy
from pathlib import Path
from typing import Dict, List, Optional, Tuple


class TranslationError(Exception):
    pass


MC = "src/krrood/ontomatic/property_descriptor/monitored_container.py"
PD = "src/krrood/ontomatic/property_descriptor/property_descriptor.py"

# public mutating API -> Lean `Meth`
LIST_MUT = {"append": "append", "extend": "extend", "insert": "insert", "__setitem__": "setitem",
            "__iadd__": "iadd", "__delitem__": "delitem", "__imul__": "imul", "remove": "remove", "pop": "pop",
            "clear": "clear", "sort": "sort", "reverse": "reverse"}
SET_MUT = {"add": "add", "update": "update", "__ior__": "ior", "remove": "remove", "discard": "discard",
           "pop": "pop", "clear": "clear", "__isub__": "isub", "__iand__": "iand", "__ixor__": "ixor",
           "difference_update": "differenceUpdate", "intersection_update": "intersectionUpdate",
           "symmetric_difference_update": "symmetricDifferenceUpdate"}
ORDER = {"list": ["_add_item", "append", "extend", "insert", "__setitem__", "__iadd__", "__delitem__", "__imul__",
                  "remove", "pop", "clear", "sort", "reverse"],
         "set": ["_add_item", "add", "update", "__ior__", "remove", "discard", "pop", "clear", "__isub__", "__iand__",
                 "__ixor__", "difference_update", "intersection_update", "symmetric_difference_update"]}
ARITY = {"append": 1, "extend": 1, "insert": 2, "__setitem__": 2, "__iadd__": 1, "add": 1, "update": 1, "__ior__": 1}
# everything else `list` / `set` define: reading, comparing, copying, object protocol
LIST_READ = {"__add__", "__class__", "__class_getitem__", "__contains__", "__delattr__", "__dir__", "__doc__", "__eq__",
             "__format__", "__ge__", "__getattribute__", "__getitem__", "__getstate__", "__gt__", "__hash__",
             "__init__", "__init_subclass__", "__iter__", "__le__", "__len__", "__lt__", "__mul__", "__ne__",
             "__new__", "__reduce__", "__reduce_ex__", "__repr__", "__reversed__", "__rmul__", "__setattr__",
             "__sizeof__", "__str__", "__subclasshook__", "copy", "count", "index"}
SET_READ = {"__and__", "__class__", "__class_getitem__", "__contains__", "__delattr__", "__dir__", "__doc__", "__eq__",
            "__format__", "__ge__", "__getattribute__", "__getstate__", "__gt__", "__hash__", "__init__",
            "__init_subclass__", "__iter__", "__le__", "__len__", "__lt__", "__ne__", "__new__", "__or__", "__rand__",
            "__reduce__", "__reduce_ex__", "__repr__", "__ror__", "__rsub__", "__rxor__", "__setattr__", "__sizeof__",
            "__str__", "__sub__", "__subclasshook__", "__xor__", "copy", "difference", "intersection", "isdisjoint",
            "issubset", "issuperset", "symmetric_difference", "union"}
# object-protocol names a class may define without touching the container behaviour the model relies on
INFRA = {"__init__", "__init_subclass__", "__doc__", "__class_getitem__"}
STORES = {"list": {"append": "append", "insert": "insert", "__setitem__": "setitem"}, "set": {"add": "add"}}


def check_builtin_api():
    for kind, typ, mut, read in (("list", list, LIST_MUT, LIST_READ), ("set", set, SET_MUT, SET_READ)):
        unknown = set(dir(typ)) - set(mut) - read
        if unknown:
            raise TranslationError(f"`{kind}` of this interpreter has methods the table does not classify: {sorted(unknown)}")
        missing = set(mut) - set(dir(typ))
        if missing:
            raise TranslationError(f"`{kind}` of this interpreter lacks {sorted(missing)}")


# ----------------------------------------------------------------------------------------------- pinned functions

ON_ADD_TEMPLATE = '''
def _on_add(self, value, inferred=False, add_relation_to_the_graph=True):
    if inferred:
        value = weakref.ref(value, self._remove_item)
    owner = self._owner
    if owner is not None and add_relation_to_the_graph:
        self._descriptor.add_relation_to_the_graph(owner, value, inferred=inferred)
    return value
'''
OWNER_TEMPLATE = '''
def _owner(self):
    return self._owner_ref() if self._owner_ref is not None else None
'''
ADD_REL_TEMPLATE = '''
def add_relation_to_the_graph(self, domain_value, range_value, inferred=False):
    if domain_value is not None and range_value is not None:
        for v in make_set(range_value):
            PropertyDescriptorRelation(domain_value, v, self.wrapped_field, inferred=inferred).add_to_graph()
'''
SET_TEMPLATE = '''
def __set__(self, obj, value):
    if isinstance(value, PropertyDescriptor):
        return
    attr = getattr(obj, self.private_attr_name, None)
    if self.is_iterable and not isinstance(attr, MonitoredContainer):
        attr = self._ensure_monitored_type(value, obj)
        self._bind_owner_if_container_type(attr, owner=obj)
        setattr(obj, self.private_attr_name, attr)
    if isinstance(attr, MonitoredContainer):
        pass
    else:
        setattr(obj, self.private_attr_name, value)
        self.add_relation_to_the_graph(obj, value)
'''


def _skippable(s: ast.stmt) -> bool:
    return isinstance(s, ast.Pass) or (isinstance(s, ast.Expr) and isinstance(s.value, ast.Constant)
                                      and isinstance(s.value.value, str))


def _canon(fn: ast.FunctionDef) -> str:
    """the function with docstrings and annotations stripped and non-parameter locals renamed in order of first
    assignment (parameters keep their names: callers pass them by keyword)"""
    fn = copy.deepcopy(fn)
    fn.decorator_list = []
    fn.returns = None
    params = [a.arg for a in fn.args.posonlyargs + fn.args.args + fn.args.kwonlyargs]
    for a in fn.args.posonlyargs + fn.args.args + fn.args.kwonlyargs:
        a.annotation = None
    ren: Dict[str, str] = {}

    class Strip(ast.NodeTransformer):
        def generic_visit(self, node):
            super().generic_visit(node)
            for fld in ("body", "orelse", "finalbody"):
                b = getattr(node, fld, None)
                if isinstance(b, list) and b and isinstance(b[0], ast.stmt):
                    nb = [s for s in b if not (isinstance(s, ast.Expr) and isinstance(s.value, ast.Constant)
                                               and isinstance(s.value.value, str))]
                    if fld == "body" and not nb:
                        nb = [ast.Pass()]
                    setattr(node, fld, nb)
            return node

        def visit_AnnAssign(self, node):
            self.generic_visit(node)
            if node.value is None:
                return None
            return ast.Assign(targets=[node.target], value=node.value)

    fn = Strip().visit(fn)
    stores: List[Tuple[int, int, str]] = []
    for node in ast.walk(fn):
        if isinstance(node, ast.Name) and isinstance(node.ctx, ast.Store) and node.id not in params:
            stores.append((getattr(node, "lineno", 0), getattr(node, "col_offset", 0), node.id))
    for _, _, name in sorted(stores):
        ren.setdefault(name, f"_v{len(ren)}")
    for node in ast.walk(fn):
        if isinstance(node, ast.Name) and node.id in ren:
            node.id = ren[node.id]
    fn.name = "f"
    return ast.dump(fn, include_attributes=False)


def _template(src: str) -> str:
    return _canon(ast.parse(src).body[0])


def _pin(fn: Optional[ast.FunctionDef], template: str, what: str):
    if fn is None:
        raise TranslationError(f"{what} not found")
    if _canon(fn) != _template(template):
        raise TranslationError(f"{what} is not the pinned recording hook any more (body changed)")


# ------------------------------------------------------------------------------------------------ symbolic values

class V:
    """ARG i | SNAP of ARG | ELEM of (ARG | SNAP) | RECLIST of ARG | SELF | NONE; `rec`: it is what the hook returned"""

    def __init__(self, kind, of=None, rec=False):
        self.kind, self.of, self.rec = kind, of, rec

    def base(self):
        return (self.kind, self.of.base() if isinstance(self.of, V) else self.of)

    def __repr__(self):
        return f"{self.kind}({self.of})" + ("!" if self.rec else "")


class _Method:
    def __init__(self, cls_kind: str, fn: ast.FunctionDef, api: Dict[str, str]):
        self.kind, self.fn, self.api = cls_kind, fn, api
        self.env: Dict[str, V] = {}
        self.returns_self = False
        self.guard = False
        self.extra_kw: Dict[str, str] = {}   # `_add_item` only: keyword parameter -> name

    def err(self, msg, node=None):
        where = f" in `{ast.unparse(node)}`" if node is not None else ""
        raise TranslationError(f"Monitored{self.kind.capitalize()}.{self.fn.name}: {msg}{where}")

    # -- parameters
    def bind_params(self, n_pos: int, kw_defaults: Optional[Dict[str, object]] = None):
        a = self.fn.args
        if a.vararg or a.kwarg or a.posonlyargs or a.kwonlyargs:
            self.err("unsupported parameter kinds")
        if self.fn.decorator_list:
            self.err("decorated")
        names = [x.arg for x in a.args]
        if not names or names[0] != "self":
            self.err("first parameter is not self")
        kw = kw_defaults or {}
        if len(names) != 1 + n_pos + len(kw):
            self.err(f"takes {len(names) - 1} parameters, expected {n_pos + len(kw)}")
        if len(a.defaults) != len(kw):
            self.err("unexpected default values")
        self.env["self"] = V("SELF")
        for i in range(n_pos):
            self.env[names[1 + i]] = V("ARG", i)
        for (k, dv), name, d in zip(kw.items(), names[1 + n_pos:], a.defaults):
            if name != k or not (isinstance(d, ast.Constant) and d.value is dv):
                self.err(f"keyword parameter `{name}` / its default changed (expected {k}={dv})")
            self.env[name] = V("KW", k)

    # -- expressions
    def is_self_attr(self, f, name=None):
        return (isinstance(f, ast.Attribute) and isinstance(f.value, ast.Name) and self.env.get(f.value.id) is not None
                and self.env[f.value.id].kind == "SELF" and (name is None or f.attr == name))

    def is_super_attr(self, f):
        return (isinstance(f, ast.Attribute) and isinstance(f.value, ast.Call) and isinstance(f.value.func, ast.Name)
                and f.value.func.id == "super" and not f.value.args and not f.value.keywords)

    def hook_kwargs(self, call: ast.Call, positional_extra: List[ast.expr]):
        """keyword arguments of `_on_add` / `_add_item`: defaults spelled out, or (in `_add_item`) the own parameters"""
        want = {"inferred": False, "add_relation_to_the_graph": True}
        given: Dict[str, ast.expr] = {}
        for name, e in zip(list(want), positional_extra):
            given[name] = e
        for k in call.keywords:
            if k.arg not in want or k.arg in given:
                self.err("unknown or repeated keyword argument", call)
            given[k.arg] = k.value
        passes = 0
        for name, e in given.items():
            if isinstance(e, ast.Constant) and e.value is want[name]:
                continue
            v = self.env.get(e.id) if isinstance(e, ast.Name) else None
            if v is not None and v.kind == "KW" and v.of == name:
                passes += 1
                continue
            self.err(f"`{name}` is not passed its default", call)
        if self.extra_kw is not None and self.fn.name == "_add_item" and call.func.attr == "_on_add" and passes != 2:
            self.err("`_add_item` must hand `inferred` and `add_relation_to_the_graph` on to the hook", call)

    def ev(self, e: ast.expr, events: list) -> V:
        if isinstance(e, ast.Name):
            if e.id not in self.env:
                self.err(f"unknown name `{e.id}`", e)
            return self.env[e.id]
        if isinstance(e, ast.Constant) and e.value is None:
            return V("NONE")
        if isinstance(e, ast.Call):
            f = e.func
            if isinstance(f, ast.Name) and f.id in ("list", "tuple") and len(e.args) == 1 and not e.keywords:
                v = self.ev(e.args[0], events)
                if v.kind != "ARG":
                    self.err("snapshot of something that is not a parameter", e)
                return V("SNAP", v)
            if self.is_self_attr(f, "_on_add"):
                if not e.args:
                    self.err("hook called without an element", e)
                v = self.ev(e.args[0], events)
                self.hook_kwargs(e, e.args[1:])
                if v.kind not in ("ARG", "ELEM"):
                    self.err("the hook is handed something that is not an element", e)
                events.append(("record", v))
                return V(v.kind, v.of, rec=True)
            if self.is_self_attr(f, "_add_item"):
                if self.fn.name == "_add_item":
                    self.err("recursive `_add_item`", e)
                if not e.args:
                    self.err("`_add_item` called without an element", e)
                v = self.ev(e.args[0], events)
                self.hook_kwargs(e, e.args[1:])
                if v.kind not in ("ARG", "ELEM") or v.rec:
                    self.err("`_add_item` is handed something that is not a plain element", e)
                events.append(("additem", v))
                return V("NONE")
            if self.is_self_attr(f) and f.attr in self.api:
                if len(e.args) != 1 or e.keywords:
                    self.err("delegation with other than one positional argument", e)
                v = self.ev(e.args[0], events)
                if v.kind != "ARG" or v.of != 0:
                    self.err("delegation does not pass the parameter on", e)
                events.append(("delegate", self.api[f.attr]))
                return V("NONE")
            store = None
            args = list(e.args)
            if self.is_super_attr(f):
                store = f.attr
            elif (isinstance(f, ast.Attribute) and isinstance(f.value, ast.Name) and f.value.id == self.kind
                  and args and isinstance(args[0], ast.Name) and self.env.get(args[0].id, V("?")).kind == "SELF"):
                store, args = f.attr, args[1:]      # `list.append(self, x)`
            if store is not None:
                if store not in STORES[self.kind] or e.keywords:
                    self.err(f"store operation `{store}` is outside the table vocabulary", e)
                vs = [self.ev(a, events) for a in args]
                events.append(("store", STORES[self.kind][store], vs))
                return V("NONE")
            self.err("unsupported call", e)
        if isinstance(e, ast.ListComp):
            if len(e.generators) != 1:
                self.err("nested comprehension", e)
            g = e.generators[0]
            if g.ifs or g.is_async or not isinstance(g.target, ast.Name):
                self.err("filtered comprehension", e)
            src = self.ev(g.iter, events)
            if src.kind != "ARG":
                self.err("comprehension over something that is not a parameter", e)
            saved = self.env.get(g.target.id)
            self.env[g.target.id] = V("ELEM", src)
            sub: list = []
            r = self.ev(e.elt, sub)
            if saved is None:
                del self.env[g.target.id]
            else:
                self.env[g.target.id] = saved
            if len(sub) != 1 or sub[0][0] != "record" or not (r.kind == "ELEM" and r.rec):
                self.err("comprehension is not `[self._on_add(x) for x in value]`", e)
            events.append(("loop", src, sub))
            return V("RECLIST", src)
        self.err("unsupported expression", e)

    # -- statements
    def run(self, body: List[ast.stmt], events: list, top: bool):
        body = [s for s in body if not _skippable(s)]
        for i, s in enumerate(body):
            last = top and i == len(body) - 1
            if isinstance(s, ast.Expr):
                self.ev(s.value, events)
            elif isinstance(s, ast.Assign):
                if len(s.targets) != 1 or not isinstance(s.targets[0], ast.Name):
                    self.err("unsupported assignment target", s)
                v = self.ev(s.value, events)
                if v.kind in ("NONE", "SELF", "KW"):
                    self.err("unsupported assignment", s)
                self.env[s.targets[0].id] = v
            elif isinstance(s, ast.For):
                if s.orelse or not isinstance(s.target, ast.Name):
                    self.err("unsupported loop", s)
                src = self.ev(s.iter, events)
                if src.kind not in ("ARG", "SNAP"):
                    self.err("loop over something that is not a parameter or its snapshot", s)
                saved = self.env.get(s.target.id)
                self.env[s.target.id] = V("ELEM", src)
                sub: list = []
                self.run(s.body, sub, False)
                if saved is None:
                    self.env.pop(s.target.id, None)
                else:
                    self.env[s.target.id] = saved
                events.append(("loop", src, sub))
            elif isinstance(s, ast.If):
                self.run_if(s, events, first=(top and i == 0))
            elif isinstance(s, ast.Return):
                if not last:
                    self.err("early return", s)
                if s.value is None or (isinstance(s.value, ast.Constant) and s.value.value is None):
                    continue
                v = self.ev(s.value, events)
                if v.kind != "SELF":
                    self.err("returns something other than self", s)
                self.returns_self = True
            else:
                self.err("unsupported statement", s)

    def run_if(self, s: ast.If, events: list, first: bool):
        t = s.test
        neg = False
        if isinstance(t, ast.UnaryOp) and isinstance(t.op, ast.Not):
            neg, t = True, t.operand
        if not (isinstance(t, ast.Call) and isinstance(t.func, ast.Name) and t.func.id == "isinstance"
                and len(t.args) == 2 and not t.keywords and isinstance(t.args[0], ast.Name)):
            self.err("unsupported condition", s)
        subject = self.env.get(t.args[0].id)
        if subject is None or subject.kind != "ARG" or subject.of != 0 or subject.rec:
            self.err("condition on something that is not the first parameter", s)
        cls = ast.unparse(t.args[1]).replace(" ", "")
        if cls in ("(set,frozenset)", "(frozenset,set)") and neg and first and not s.orelse:
            body = [x for x in s.body if not _skippable(x)]
            if len(body) == 1 and isinstance(body[0], ast.Return) and ast.unparse(body[0]) == "return NotImplemented":
                self.guard = True
                return
            self.err("unsupported guard body", s)
        if cls == "slice" and s.orelse:
            sl, ix = (s.orelse, s.body) if neg else (s.body, s.orelse)
            env0 = dict(self.env)
            ev_s: list = []
            self.run(sl, ev_s, False)
            env_s = self.env
            self.env = dict(env0)
            ev_i: list = []
            self.run(ix, ev_i, False)
            env_i = self.env
            # after the dispatch a name is usable if both branches bound it
            self.env = dict(env0)
            for k in set(env_s) & set(env_i):
                a, b = env_s[k], env_i[k]
                if a.base() == b.base() and a.rec == b.rec:
                    self.env[k] = a
                elif a.kind == "RECLIST" and b.kind == "ARG" and a.of.base() == b.base():
                    self.env[k] = V("DISPATCH", b, rec=b.rec)     # slice: list of results / index: the element
                else:
                    self.env[k] = V("MIXED")
            events.append(("dispatch", ev_s, ev_i))
            return
        self.err("unsupported condition", s)


# ------------------------------------------------------------------------------------------------- classification

def _order(events) -> Optional[str]:
    kinds = [e[0] for e in events]
    if kinds == ["record", "store"]:
        return "recordFirst"
    if kinds == ["store", "record"]:
        return "storeFirst"
    return None


def _classify(m: _Method) -> str:
    """event list -> Lean `MutatorSummary`"""
    name = m.fn.name
    ev: list = []
    m.run(m.fn.body, ev, True)
    g = "true" if m.guard else "false"
    inplace = name in ("__iadd__", "__ior__")
    if inplace and not m.returns_self:
        m.err("an in-place operator must `return self`")
    if not inplace and m.returns_self:
        m.err("returns self")
    if m.guard and name != "__ior__":
        m.err("set-only guard outside `__ior__`")
    two = ARITY.get(name, 1) == 2
    elem_arg = 1 if two else 0      # which parameter is the element / the iterable

    def is_arg(v, i):
        return v.kind == "ARG" and v.of == i

    def snap_of(src) -> Optional[str]:
        if src.kind == "ARG" and src.of == elem_arg:
            return "false"
        if src.kind == "SNAP" and is_arg(src.of, elem_arg):
            return "true"
        return None

    def store_ok(st, vs, elem_pred) -> bool:
        """the store gets the index parameter (if any) and the element"""
        if st in ("append", "add"):
            return len(vs) == 1 and elem_pred(vs[0])
        return two and len(vs) == 2 and is_arg(vs[0], 0) and not vs[0].rec and elem_pred(vs[1])

    # delegation
    if len(ev) == 1 and ev[0][0] == "delegate":
        if not inplace:
            m.err("delegation outside an in-place operator")
        return f"⟨{g}, .delegate .{ev[0][1]}⟩"
    # via `_add_item`
    if len(ev) == 1 and ev[0][0] == "additem" and not two and is_arg(ev[0][1], 0):
        return f"⟨{g}, .viaAddItem .arg⟩"
    if len(ev) == 1 and ev[0][0] == "loop" and not two:
        src, sub = ev[0][1], ev[0][2]
        sn = snap_of(src)
        if sn is not None and len(sub) == 1 and sub[0][0] == "additem" and sub[0][1].kind == "ELEM":
            return f"⟨{g}, .viaAddItem (.each {sn})⟩"
        o = _order(sub)
        if sn is not None and o:
            rec = next(e for e in sub if e[0] == "record")
            st = next(e for e in sub if e[0] == "store")
            if rec[1].kind == "ELEM" and st[1] in ("append", "add") and store_ok(st[1], st[2], lambda v: v.kind == "ELEM"):
                return f"⟨{g}, .direct (.each {sn}) .{st[1]} .{o}⟩"
        if sn is not None and len(sub) == 1 and sub[0][0] == "store" and sub[0][1] in ("append", "add") \
                and store_ok(sub[0][1], sub[0][2], lambda v: v.kind == "ELEM"):
            m.err("a loop of plain stores (no hook) is outside the table vocabulary")
    # direct, one element
    o = _order(ev)
    if o:
        rec = next(e for e in ev if e[0] == "record")
        st = next(e for e in ev if e[0] == "store")
        strict = name == "_add_item"
        if is_arg(rec[1], elem_arg) and store_ok(st[1], st[2], lambda v: is_arg(v, elem_arg) and (v.rec or not strict)):
            if strict and o != "recordFirst":
                m.err("`_add_item` must store what the hook returned")
            if name == "__setitem__" and st[1] != "setitem":
                m.err("item assignment stores with another operation")
            return f"⟨{g}, .direct .arg .{st[1]} .{o}⟩"
    if len(ev) == 1 and ev[0][0] == "store" and name != "_add_item":
        st = ev[0]
        if store_ok(st[1], st[2], lambda v: is_arg(v, elem_arg)):
            return f"⟨{g}, .direct .nothing .{st[1]} .recordFirst⟩"
    # item assignment with index / slice dispatch
    if name == "__setitem__" and len(ev) == 2 and ev[0][0] == "dispatch" and ev[1][0] == "store":
        ev_s, ev_i = ev[0][1], ev[0][2]
        st = ev[1]
        ok_i = len(ev_i) == 1 and ev_i[0][0] == "record" and is_arg(ev_i[0][1], 1)
        ok_s = (len(ev_s) == 1 and ev_s[0][0] == "loop" and is_arg(ev_s[0][1], 1) and len(ev_s[0][2]) == 1
                and ev_s[0][2][0][0] == "record" and ev_s[0][2][0][1].kind == "ELEM")
        if ok_i and ok_s and st[1] == "setitem" and len(st[2]) == 2 and is_arg(st[2][0], 0) and not st[2][0].rec:
            v = st[2][1]
            if v.kind == "DISPATCH" and is_arg(v.of, 1):
                return f"⟨{g}, .direct (.argOrEach true) .setitem .recordFirst⟩"
            if is_arg(v, 1) and not v.rec:
                return f"⟨{g}, .direct (.argOrEach false) .setitem .recordFirst⟩"
    m.err(f"body is outside the table vocabulary (events: {ev})")


# ------------------------------------------------------------------------------------------------------ the classes

def _methods(cls: ast.ClassDef) -> Dict[str, ast.FunctionDef]:
    out: Dict[str, ast.FunctionDef] = {}
    for s in cls.body:
        if isinstance(s, (ast.FunctionDef, ast.AsyncFunctionDef)):
            if s.name in out:
                raise TranslationError(f"{cls.name}.{s.name} defined twice")
            if isinstance(s, ast.AsyncFunctionDef):
                raise TranslationError(f"{cls.name}.{s.name} is async")
            out[s.name] = s
        elif _skippable(s):
            continue
        elif isinstance(s, (ast.Assign, ast.AnnAssign)):
            targets = s.targets if isinstance(s, ast.Assign) else [s.target]
            for t in targets:
                names = [n.id for n in ast.walk(t) if isinstance(n, ast.Name)]
                if any(n in LIST_MUT or n in SET_MUT or n in LIST_READ or n in SET_READ or n.startswith("_")
                       for n in names):
                    raise TranslationError(f"{cls.name}: class-level assignment to `{ast.unparse(t)}`")
        else:
            raise TranslationError(f"{cls.name}: unsupported class-level statement `{ast.unparse(s)[:60]}`")
    return out


def _check_module(tree: ast.Module):
    for s in tree.body:
        if isinstance(s, (ast.Import, ast.ImportFrom, ast.ClassDef, ast.FunctionDef)) or _skippable(s):
            continue
        if isinstance(s, (ast.Assign, ast.AnnAssign)):
            targets = s.targets if isinstance(s, ast.Assign) else [s.target]
            if all(isinstance(t, ast.Name) for t in targets):
                continue
        if isinstance(s, ast.If) and ast.unparse(s.test) == "TYPE_CHECKING" and all(
                isinstance(x, (ast.Import, ast.ImportFrom)) for x in s.body) and not s.orelse:
            continue
        raise TranslationError(f"module-level statement that may patch the classes: `{ast.unparse(s)[:70]}`")


def _simple_body(fn: Optional[ast.FunctionDef], expected: str, what: str):
    if fn is None:
        raise TranslationError(f"{what} not found")
    body = [s for s in fn.body if not _skippable(s)]
    if len(body) != 1 or ast.unparse(body[0]) != expected:
        raise TranslationError(f"{what} is no longer `{expected}`")


def container_rows(source: str) -> List[Tuple[str, str, str]]:
    """[(cls, Lean Meth, Lean summary)] for MonitoredList and MonitoredSet"""
    check_builtin_api()
    tree = ast.parse(source)
    _check_module(tree)
    classes = {c.name: c for c in tree.body if isinstance(c, ast.ClassDef)}
    for need in ("MonitoredContainer", "MonitoredList", "MonitoredSet"):
        if need not in classes:
            raise TranslationError(f"class {need} not found")
    base = _methods(classes["MonitoredContainer"])
    clash = (set(base) & (set(dir(list)) | set(dir(set)))) - INFRA
    if clash:
        raise TranslationError(f"MonitoredContainer defines list/set API methods (they precede the builtin ones in the "
                               f"MRO): {sorted(clash)}")
    _pin(base.get("_on_add"), ON_ADD_TEMPLATE, "MonitoredContainer._on_add")
    _pin(base.get("_owner"), OWNER_TEMPLATE, "MonitoredContainer._owner")
    if [ast.unparse(d) for d in base["_owner"].decorator_list] != ["property"]:
        raise TranslationError("MonitoredContainer._owner is no longer a property")
    rows: List[Tuple[str, str, str]] = []
    for kind, cname, api, read in (("list", "MonitoredList", LIST_MUT, LIST_READ), ("set", "MonitoredSet", SET_MUT, SET_READ)):
        cls = classes[cname]
        if [ast.unparse(b) for b in cls.bases] != ["MonitoredContainer", kind] or cls.keywords:
            raise TranslationError(f"{cname} no longer derives from (MonitoredContainer, {kind})")
        if [ast.unparse(d) for d in cls.decorator_list] not in ([], ["dataclass(init=False)"]):
            raise TranslationError(f"{cname}: class decorators changed")
        ms = _methods(cls)
        bad = (set(ms) & read) - INFRA
        if bad:
            raise TranslationError(f"{cname} overrides read methods the model takes from `{kind}`: {sorted(bad)}")
        for n in ("_on_add", "_owner", "_bind_owner", "_update"):
            if n in ms:
                raise TranslationError(f"{cname} overrides {n}")
        _simple_body(ms.get("_clear"), "self.clear()", f"{cname}._clear")
        _simple_body(ms.get("_remove_item"), "self.remove(item)", f"{cname}._remove_item")
        _simple_body(ms.get("_get_monitored_type"), f"return {kind}", f"{cname}._get_monitored_type")
        for name in ORDER[kind]:
            fn = ms.get(name)
            if name == "_add_item":
                if fn is None:
                    raise TranslationError(f"{cname}._add_item not found")
                m = _Method(kind, fn, api)
                m.bind_params(1, {"inferred": False, "add_relation_to_the_graph": True})
                rows.append((kind, "addItem", _classify(m)))
                continue
            lean = api[name]
            if fn is None:
                rows.append((kind, lean, "⟨false, .inherited⟩"))
                continue
            if name not in ARITY:
                raise TranslationError(f"{cname} overrides `{name}`: a removing / reordering mutator with a body of its "
                                       f"own is outside the table vocabulary")
            m = _Method(kind, fn, api)
            m.bind_params(ARITY[name])
            rows.append((kind, lean, _classify(m)))
    return rows


# ---------------------------------------------------------------------------------------------------- the setter

def setter_row(source: str) -> str:
    tree = ast.parse(source)
    cls = next((c for c in tree.body if isinstance(c, ast.ClassDef) and c.name == "PropertyDescriptor"), None)
    if cls is None:
        raise TranslationError("class PropertyDescriptor not found")
    ms = _methods_loose(cls)
    _pin(ms.get("add_relation_to_the_graph"), ADD_REL_TEMPLATE, "PropertyDescriptor.add_relation_to_the_graph")
    fn = ms.get("__set__")
    if fn is None:
        raise TranslationError("PropertyDescriptor.__set__ not found")
    fn2 = copy.deepcopy(fn)
    top = [s for s in fn2.body if not _skippable(s)]
    branch = top[-1] if top else None
    if not (isinstance(branch, ast.If) and ast.unparse(branch.test) == "isinstance(attr, MonitoredContainer)"):
        raise TranslationError("__set__ does not end with the `isinstance(attr, MonitoredContainer)` branch")
    body = [s for s in branch.body if not _skippable(s)]
    branch.body = [ast.Pass()]
    _pin(fn2, SET_TEMPLATE, "the scaffolding of PropertyDescriptor.__set__ around its container branch")

    snap_var: Optional[str] = None
    snap_pos = clear_pos = add_pos = keep_pos = None
    as_given: Optional[bool] = None
    loop_reads_live = False

    def value_walk(e: ast.expr) -> Optional[Tuple[bool, bool]]:
        """(as given?, is a snapshot?) of an expression that produces the elements of `value`"""
        src = ast.unparse(e)
        if src == "list(value) if is_iterable(value) else [value]":
            return True, True
        if src in ("make_set(value)", "list(make_set(value))"):
            return False, True
        if src == "value":
            return True, False
        return None

    for i, s in enumerate(body):
        src = ast.unparse(s)
        if isinstance(s, ast.Assign) and len(s.targets) == 1 and isinstance(s.targets[0], ast.Name):
            w = value_walk(s.value)
            if w is None or not w[1] or snap_pos is not None or add_pos is not None:
                raise TranslationError(f"__set__: unsupported statement `{src}`")
            snap_var, snap_pos, as_given = s.targets[0].id, i, w[0]
        elif src == "attr._clear()":
            if clear_pos is not None:
                raise TranslationError("__set__: clears twice")
            clear_pos = i
        elif isinstance(s, ast.For) and not s.orelse and isinstance(s.target, ast.Name):
            x = s.target.id
            lb = [b for b in s.body if not _skippable(b)]
            one = ast.unparse(lb[0]) if len(lb) == 1 else ""
            if one in (f"attr._add_item({x}, inferred=False)", f"attr._add_item({x})", f"attr._add_item({x}, False)"):
                if add_pos is not None:
                    raise TranslationError("__set__: two element loops")
                add_pos = i
                if isinstance(s.iter, ast.Name) and s.iter.id == snap_var:
                    pass
                else:
                    w = value_walk(s.iter)
                    if w is None or snap_pos is not None:
                        raise TranslationError(f"__set__: loop over `{ast.unparse(s.iter)}`")
                    as_given, loop_reads_live = w[0], True
            elif one == f"attr._update({x})" and ast.unparse(s.iter) == "list(attr._inferred_items)":
                if keep_pos is not None or add_pos is None:
                    raise TranslationError("__set__: the inferred elements are re-added before / twice")
                keep_pos = i
            else:
                raise TranslationError(f"__set__: unsupported loop `{src[:70]}`")
        else:
            raise TranslationError(f"__set__: unsupported statement `{src[:70]}`")
    if add_pos is None:
        raise TranslationError("__set__: the assigned elements are never added")
    if clear_pos is not None and clear_pos > add_pos:
        raise TranslationError("__set__: clears after adding")
    if loop_reads_live:
        snapshot_first = False
    else:
        snapshot_first = clear_pos is None or snap_pos < clear_pos
    b = lambda x: "true" if x else "false"
    return (f"⟨false, .setter {b(snapshot_first)} {b(bool(as_given))} {b(clear_pos is not None)} "
            f"{b(keep_pos is not None)}⟩")


def _methods_loose(cls: ast.ClassDef) -> Dict[str, ast.FunctionDef]:
    out: Dict[str, ast.FunctionDef] = {}
    for s in cls.body:
        if isinstance(s, ast.FunctionDef):
            if s.name in out:
                raise TranslationError(f"{cls.name}.{s.name} defined twice")
            out[s.name] = s
    return out


# ------------------------------------------------------------------------------------------------------- output

def table_of(mc_source: str, pd_source: str) -> List[Tuple[str, str, str]]:
    return container_rows(mc_source) + [("desc", "set", setter_row(pd_source))]


def lean_of(rows: List[Tuple[str, str, str]]) -> str:
    body = ",\n    ".join(f"((.{c}, .{m}), {s})" for c, m, s in rows)
    return f"""import KrroodVerif.Props.C16Table
/-! GENERATED by harness/translate/c16_translate.py from monitored_container.py / property_descriptor.py — do not edit -/
namespace KrroodVerif.PD.Translated
open KrroodVerif.PD

/-- the mutator table read off the current source -/
def mutatorTable : MutatorTable :=
  [ {body} ]

/-- one row for every public mutating method of `list` / `set`, `_add_item` and `__set__` -/
theorem C16_table_translated_total : tableTotal mutatorTable = true := by decide

/-- what the mutators of the current source end up doing is what the model (`stepC` / `setterC` / `inplaceC`, all
quirks off — `C16_interp_eq_stepC`) is built on -/
theorem C16_table_translated_eq_model : normTable mutatorTable = normTable KrroodVerif.PD.mutatorTable := by decide

/-- hence every write operation, interpreted from the regenerated table, meets the property for ALL argument values:
contents = Python list / set semantics and exactly the elements that entered were recorded -/
theorem C16_table_meets_property (key : Nat → Nat) (isSet : Bool) (m s : CState) (op : COp)
    (h : CRel key isSet m s) (happ : op.applicable isSet = true) :
    ∃ σ', interp mutatorTable key isSet m op = some σ' ∧ CRel key isSet σ' (specStepC key isSet s op) :=
  C16_of_table_norm_eq mutatorTable C16_table_translated_eq_model key isSet m s op h happ

/-- … and so does every sequence of them, of any length, from any admissible contents -/
theorem C16_table_run_meets_property (key : Nat → Nat) (isSet : Bool) (ops : List COp) (m s : CState)
    (h : CRel key isSet m s) (happ : ∀ op ∈ ops, op.applicable isSet = true) :
    ∃ σ', runTable mutatorTable key isSet ops m = some σ' ∧ CRel key isSet σ' (specC key isSet s ops) :=
  C16_table_run mutatorTable C16_table_translated_eq_model key isSet ops m s h happ

-- (information, not an obligation) is the raw table also literally the hand-written one?
#eval s!"raw-table-identical={{decide (mutatorTable = KrroodVerif.PD.mutatorTable)}}"
end KrroodVerif.PD.Translated
"""


TRANSLATED = ["KrroodVerif.PD.Translated.C16_table_translated_total",
              "KrroodVerif.PD.Translated.C16_table_translated_eq_model",
              "KrroodVerif.PD.Translated.C16_table_meets_property",
              "KrroodVerif.PD.Translated.C16_table_run_meets_property"]


def translate(mc_source: str, pd_source: str) -> str:
    return lean_of(table_of(mc_source, pd_source))


def generate(repo: Path) -> str:
    return translate((Path(repo) / MC).read_text(), (Path(repo) / PD).read_text())


if __name__ == "__main__":
    import sys
    print(generate(Path(sys.argv[1] if len(sys.argv) > 1 else "/repo")))
