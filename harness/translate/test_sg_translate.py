"""Translator-level tests of sg_translate.py: semantic mutations of the translated sources must change the table (or be
rejected), harmless rewrites must not. Run: `cd harness && /venv/bin/python translate/test_sg_translate.py [repo]`."""
from __future__ import annotations

import sys
from pathlib import Path

sys.path.insert(0, str(Path(__file__).resolve().parent.parent))
from translate.sg_translate import SG_PATH, UTILS_PATH, TranslationError, tables_of  # noqa: E402

REPO = Path(sys.argv[1] if len(sys.argv) > 1 else "/repo")
SG = (REPO / SG_PATH).read_text()
UT = (REPO / UTILS_PATH).read_text()

BASE = {
    "addNode": [".graphAddNode", ".indexSet .idOfInstance", ".classAppend"],
    "removeNode": [".indexDelIfSame .storedId", ".classRemove", ".relDiscardIncident true true", ".graphRemoveNode"],
    "sweep": [".forEachGraphNode", ".onlyIf .dead", ".callRemoveNode"],
    "getInstances": [".forEachClassIn .selfThenSubs", ".forEachWrappedIn true", ".skipIf .dead", ".yieldInstance"],
    "ensure": [".lookupIndex .idOfInstance", ".ifMissing 2", ".wrapNew", ".callAddNode", ".returnWrapper"],
    "clear": [".resetSingleton"],
    "recSubs": [".directSubclasses", ".recurseOverDirect", ".dedupKeepFirst"],
}


def rep(text: str, *pairs):
    for old, new in pairs:
        assert text.count(old) == 1, f"mutation anchor occurs {text.count(old)} times: {old!r}"
        text = text.replace(old, new)
    return text


PURGE = """        for source, target, relation in list(
            self._instance_graph.in_edges(index)
        ) + list(self._instance_graph.out_edges(index)):
            self._relation_index.get(relation.wrapped_field, set()).discard(
                (source, target)
            )
"""
GET_GEN = """        yield from (
            instance
            for cls in [type_] + recursive_subclasses(type_)
            for wrapped_instance in list(self._class_to_wrapped_instances[cls])
            if (instance := wrapped_instance.instance) is not None
        )
"""
RS_BODY = """    subclasses = cls.__subclasses__() + [
        g for s in cls.__subclasses__() for g in recursive_subclasses(s)
    ]
"""
ENSURE = """        if wrapped_instance is None:
            wrapped_instance = WrappedInstance(instance)
            self.add_node(wrapped_instance)
"""
DEL = """        if self._instance_index.get(wrapped_instance.instance_id) is wrapped_instance:
            del self._instance_index[wrapped_instance.instance_id]
"""
CLS_REMOVE = """        self._class_to_wrapped_instances[wrapped_instance.instance_type].remove(
            wrapped_instance
        )
"""
CLS_APPEND = """        self._class_to_wrapped_instances[wrapped_instance.instance_type].append(
            wrapped_instance
        )
"""
SWEEP = """        for node in self._instance_graph.nodes():
            if node.instance is None:
                self.remove_node(node)
"""

SEMANTIC = {  # name -> (symbol_graph source, utils source)
    "get_instances: subclasses dropped": (rep(SG, ("for cls in [type_] + recursive_subclasses(type_)", "for cls in [type_]")), UT),
    "get_instances: live list instead of a copy": (rep(SG, ("in list(self._class_to_wrapped_instances[cls])", "in self._class_to_wrapped_instances[cls]")), UT),
    "get_instances: dead instances not skipped": (rep(SG, (GET_GEN, GET_GEN.replace("            instance\n", "            wrapped_instance.instance\n").replace("            if (instance := wrapped_instance.instance) is not None\n", ""))), UT),
    "get_instances: yields the wrapper": (rep(SG, (GET_GEN, GET_GEN.replace("            instance\n", "            wrapped_instance\n"))), UT),
    "remove_node: pops the last entry of the class list": (rep(SG, (CLS_REMOVE, "        self._class_to_wrapped_instances[wrapped_instance.instance_type].pop()\n")), UT),
    "remove_node: identity guard dropped": (rep(SG, (DEL, "        self._instance_index.pop(wrapped_instance.instance_id, None)\n")), UT),
    "remove_node: key id(w.instance)": (rep(SG, (DEL, DEL.replace("wrapped_instance.instance_id", "id(wrapped_instance.instance)"))), UT),
    "remove_node: relation index not purged": (rep(SG, (PURGE, "")), UT),
    "remove_node: only in_edges purged": (rep(SG, (PURGE, PURGE.replace("list(\n            self._instance_graph.in_edges(index)\n        ) + list(self._instance_graph.out_edges(index))", "list(self._instance_graph.in_edges(index))"))), UT),
    "remove_node: graph node removed before the purge": (rep(SG, (PURGE + "        self._instance_graph.remove_node(index)\n", "        self._instance_graph.remove_node(index)\n" + PURGE)), UT),
    "remove_node: class list untouched": (rep(SG, (CLS_REMOVE, "")), UT),
    "sweep: removes the live ones": (rep(SG, (SWEEP, SWEEP.replace("is None", "is not None"))), UT),
    "sweep: stops after the first": (rep(SG, (SWEEP, SWEEP + "                break\n")), UT),
    "add_node: key id(wrapper)": (rep(SG, ("self._instance_index[id(wrapped_instance.instance)] = wrapped_instance", "self._instance_index[id(wrapped_instance)] = wrapped_instance")), UT),
    "add_node: class list not appended": (rep(SG, (CLS_APPEND, "")), UT),
    "ensure: always wraps anew": (rep(SG, (ENSURE, ENSURE.replace("        if wrapped_instance is None:\n", "").replace("            ", "        "))), UT),
    "ensure: guard inverted": (rep(SG, (ENSURE, ENSURE.replace("is None", "is not None"))), UT),
    "get_wrapped_instance: looks up id(type(instance))": (rep(SG, ("self._instance_index.get(id(instance), None)", "self._instance_index.get(id(type(instance)), None)")), UT),
    "clear: does nothing": (rep(SG, ("        SingletonMeta.clear_instance(type(self))\n", "        pass\n")), UT),
    "recursive_subclasses: direct subclasses only": (SG, rep(UT, (RS_BODY, "    subclasses = cls.__subclasses__()\n"))),
    "recursive_subclasses: no de-duplication": (SG, rep(UT, ("    return list(dict.fromkeys(subclasses))", "    return subclasses"))),
    "recursive_subclasses: recursion on the class itself": (SG, rep(UT, ("for g in recursive_subclasses(s)", "for g in recursive_subclasses(cls)"))),
    # NOT harmless: the walk order of a lazily consumed evaluation changes (observable through F-C13-3; the end-to-end run
    # reports `(h (qstart 2 0) (defclass 20 2) (new 0 3) (qnext 2) (defclass 21 3) (new 3 2) (defclass 22 2) (qnext 2))`)
    "recursive_subclasses: operands swapped (walk order)": (SG, rep(UT, (RS_BODY, """    subs = cls.__subclasses__()
    subclasses = [g for s in subs for g in recursive_subclasses(s)] + subs
"""))),
    "WrappedInstance keeps a strong reference": (rep(SG, ("self.instance_reference = weakref.ref(instance)", "self.instance_reference = lambda i=instance: i")), UT),
}

HARMLESS = {
    "locals and parameters renamed": (
        rep(SG, (GET_GEN, """        yield from (
            obj
            for klass in [type_] + recursive_subclasses(type_)
            for wi in list(self._class_to_wrapped_instances[klass])
            if (obj := wi.instance) is not None
        )
"""),
            (SWEEP, SWEEP.replace("node.", "n.").replace("for node", "for n").replace("(node)", "(n)")),
            (PURGE, PURGE.replace("source", "u").replace("target", "v").replace("relation", "rel").replace("rel_index", "relation_index")),
            (ENSURE, ENSURE)),
        rep(UT, (RS_BODY, RS_BODY.replace(" g ", " x ").replace("for s in", "for sub in").replace("(s)", "(sub)")))),
    "add_node reordered, _symbol_graph_ line dropped": (
        rep(SG, ("        wrapped_instance._symbol_graph_ = self\n", ""),
            (CLS_APPEND, ""),
            ("        wrapped_instance.index = self._instance_graph.add_node(wrapped_instance)\n",
             CLS_APPEND + "        wrapped_instance.index = self._instance_graph.add_node(wrapped_instance)\n")), UT),
    "get_instances as explicit loops with continue": (rep(SG, (GET_GEN, """        for cls in [type_] + recursive_subclasses(type_):
            for wrapped_instance in list(self._class_to_wrapped_instances[cls]):
                instance = wrapped_instance.instance
                if instance is None:
                    continue
                yield instance
""")), UT),
    "get_instances as explicit loops with if": (rep(SG, (GET_GEN, """        for c in [type_] + recursive_subclasses(type_):
            for w in tuple(self._class_to_wrapped_instances[c]):
                if w.instance is not None:
                    yield w.instance
""")), UT),
    "remove_node reordered, out_edges first": (
        rep(SG, ("        index = wrapped_instance.index\n", ""),
            (DEL, ""),
            (CLS_REMOVE, "        index = wrapped_instance.index\n" + CLS_REMOVE + DEL),
            (PURGE, PURGE.replace("list(\n            self._instance_graph.in_edges(index)\n        ) + list(self._instance_graph.out_edges(index))",
                                  "list(self._instance_graph.out_edges(index)) + list(self._instance_graph.in_edges(index))"))), UT),
    "recursive_subclasses: alias for __subclasses__()": (SG, rep(UT, (RS_BODY, """    subs = cls.__subclasses__()
    subclasses = subs + [g for s in subs for g in recursive_subclasses(s)]
"""))),
    "comments and docstrings": (
        rep(SG, (SWEEP, "        # sweep\n        \"\"\"doc\"\"\"\n" + SWEEP), (ENSURE, "        # not yet known\n" + ENSURE)),
        rep(UT, ("    # a class reachable along several inheritance paths (diamond) is listed once\n", ""))),
    "sweep in the continue form": (rep(SG, (SWEEP, """        for node in self._instance_graph.nodes():
            if node.instance is not None:
                continue
            self.remove_node(node)
""")), UT),
}


def main() -> int:
    bad = 0
    got = tables_of(SG, UT)
    ok = got == BASE
    print(("ok  " if ok else "FAIL") + " baseline tables")
    bad += not ok
    for name, (sg, ut) in SEMANTIC.items():
        try:
            t = tables_of(sg, ut)
            diff = [k for k in BASE if t[k] != BASE[k]]
            ok = bool(diff)
            what = "table differs: " + "; ".join(f"{k} := {t[k]}" for k in diff) if ok else "TABLE UNCHANGED"
        except TranslationError as e:
            ok, what = True, f"rejected: {e}"
        print(("ok  " if ok else "FAIL") + f" semantic  {name}: {what[:230]}")
        bad += not ok
    for name, (sg, ut) in HARMLESS.items():
        try:
            t = tables_of(sg, ut)
            ok = t == BASE
            what = "table unchanged" if ok else "TABLE DIFFERS: " + str({k: t[k] for k in BASE if t[k] != BASE[k]})
        except TranslationError as e:
            ok, what = False, f"REJECTED: {e}"
        print(("ok  " if ok else "FAIL") + f" harmless  {name}: {what[:230]}")
        bad += not ok
    print(f"{len(SEMANTIC)} semantic, {len(HARMLESS)} harmless, {bad} failed")
    return 1 if bad else 0


if __name__ == "__main__":
    sys.exit(main())
