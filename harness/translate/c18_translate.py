"""Translator (Python AST -> Lean 4) for the serialiser core of `src/krrood/adapters/json_serializer.py` — the second
tie of C18 between the model and the code (C19 has one for the tag-resolution stages; its stage translator is reused).

What is read off the CURRENT source on every run (Model/Json.lean, `Tables`):

  toRules     module-level `to_json(obj)` as a decision list over the runtime type of `obj`
  fromRules   the head of `SubclassJSONSerializer.from_json(data)` (everything before `data.get(JSON_TYPE_NAME)`) as a
              decision list, closed by `always -> resolve`; the module-level `from_json` must delegate to it
  stages      the rest of `from_json` (tag split by `rsplit(".", 1)`, import, getattr, dispatch) — c19_translate's stages
  tag         what `SubclassJSONSerializer.to_json` writes under JSON_TYPE_NAME: the parts `get_full_class_name`
              (krrood/utils.py) concatenates
  serLookup / deserLookup   the rule by which `JSONSerializableTypeRegistry.get_serializer / get_deserializer` find an
              entry (`dict.get` on the exact class | first class of the MRO | first registered superclass), given that
              `register` stores both callables under the class and the registry is a singleton
  builtins    the (serializer, deserializer) pair the module registers itself (uuid.UUID): the key each side uses

and emitted as

    def Translated18.tables : Tables := …
    theorem C18_dispatch_translated_eq_model : tables.dispatch = Json.tables.dispatch := by decide
    theorem C18_translated_tables_roundtrip  : RoundTrips tables = true := by decide
    theorem C18_roundtrip_translated / C18_translated_is_model   (consequences, by the generic lemmas of Props/C18Tables)

Decision lists. A function body is read as a sequence of
    `if TEST: return ACTION` | `if TEST: raise ClassNotSerializableError(type(x))` | `return ACTION` | `raise …`
with `elif` / `else` / nested `if` (tests are conjoined), conditional expressions in a `return` (split into two rules),
`for T in <tuple of types>: …` (unrolled, `T` standing for each type in order), and — in `to_json` only — the registry
lookup `S = JSONSerializableTypeRegistry().get_serializer(type(x))` (no rule; `S` may then be tested and called).
  TEST   := isinstance(x, TYPES) | type(x) is/==/in TYPES | x.__class__ is/in TYPES | x is None | x is not None
          | S | S is not None | not TEST | TEST and TEST | TEST or TEST
  ACTION := x | [f(i) for i in x] | list(map(f, x)) | x.to_json() | S(x) | T(x)        (f the function itself)
  TYPES  := a builtin type name, NoneType, type(None), SubclassJSONSerializer, a tuple of these, or a module-level constant
            bound once to such a tuple (`leaf_types`, `list_like_classes`: their CURRENT content and ORDER are used)

Normalising: because the kernel compares `dispatch` — the ACTION PER KIND — not the rule lists, every rewrite that decides
every kind alike is invisible: order of the types in a tuple, one test split into several or several merged, `elif`
instead of `if`, reordered independent rules, the registry branch written either way round, renamed locals, comments.
Strict: any other statement / expression shape -> `TranslationError`.
"""
from __future__ import annotations

import ast
import copy
from pathlib import Path
from typing import Dict, List, Optional, Tuple

from translate.c19_translate import TranslationError, _Translator as _StageTranslator, ERRORS as _DOC_ERRORS

TAG_KEY = "__json_type__"

PYTYPES = {"int": "int", "float": "float", "str": "str", "bool": "bool", "NoneType": "noneType", "list": "list",
           "tuple": "tuple", "set": "set", "dict": "dict", "SubclassJSONSerializer": "serializer"}


def _skippable(s: ast.stmt) -> bool:
    return isinstance(s, ast.Pass) or (isinstance(s, ast.Expr) and isinstance(s.value, ast.Constant))


def _body(fn) -> List[ast.stmt]:
    return [s for s in fn.body if not _skippable(s)]


def _plain_args(fn: ast.FunctionDef, names: List[str], kwarg: bool = False) -> bool:
    a = fn.args
    return ([x.arg for x in a.args] == names and not a.posonlyargs and not a.kwonlyargs and a.vararg is None
            and (a.kwarg is not None) == kwarg and not a.defaults)


# ------------------------------------------------------------------------------------------------ module facts
class _Module:
    def __init__(self, tree: ast.Module):
        self.tree = tree
        self.type_consts: Dict[str, List[str]] = {}
        assigned: Dict[str, int] = {}
        for s in ast.walk(tree):
            targets = []
            if isinstance(s, ast.Assign):
                targets = s.targets
            elif isinstance(s, (ast.AugAssign, ast.AnnAssign)):
                targets = [s.target]
            for t in targets:
                for n in ast.walk(t):
                    if isinstance(n, ast.Name):
                        assigned[n.id] = assigned.get(n.id, 0) + 1
        self.assigned = assigned
        for s in tree.body:
            if isinstance(s, ast.Assign) and len(s.targets) == 1 and isinstance(s.targets[0], ast.Name):
                name, v = s.targets[0].id, s.value
                if isinstance(v, ast.Tuple) and v.elts and all(isinstance(e, ast.Name) and e.id in PYTYPES for e in v.elts):
                    if assigned.get(name) == 1:
                        self.type_consts[name] = [PYTYPES[e.id] for e in v.elts]
                if name == "JSON_TYPE_NAME":
                    if not (isinstance(v, ast.Constant) and v.value == TAG_KEY) or assigned.get(name) != 1:
                        raise TranslationError(f"JSON_TYPE_NAME is no longer the constant {TAG_KEY!r}")
        if assigned.get("JSON_TYPE_NAME") != 1:
            raise TranslationError("JSON_TYPE_NAME is not bound exactly once")
        for builtin in PYTYPES:
            if builtin not in ("NoneType", "SubclassJSONSerializer") and assigned.get(builtin):
                raise TranslationError(f"builtin type name {builtin} is re-bound in the module")
        self.funcs = {}
        for f in tree.body:
            if isinstance(f, ast.FunctionDef):
                if f.name in self.funcs:
                    raise TranslationError(f"function {f.name} defined twice")
                if f.decorator_list:
                    raise TranslationError(f"function {f.name} is decorated")
                self.funcs[f.name] = f
        self.classes = {}
        for c in tree.body:
            if isinstance(c, ast.ClassDef):
                if c.name in self.classes:
                    raise TranslationError(f"class {c.name} defined twice")
                self.classes[c.name] = c
        imports = [(s.module, s.level, a.name, a.asname) for s in tree.body if isinstance(s, ast.ImportFrom) for a in s.names]
        if ("types", 0, "NoneType", None) not in imports or assigned.get("NoneType"):
            raise TranslationError("NoneType is no longer types.NoneType")
        if ("utils", 2, "get_full_class_name", None) not in imports or "get_full_class_name" in self.funcs \
                or assigned.get("get_full_class_name"):
            raise TranslationError("get_full_class_name is no longer krrood.utils.get_full_class_name")

    def fn(self, name: str) -> ast.FunctionDef:
        if name not in self.funcs:
            raise TranslationError(f"module-level function {name} not found")
        return self.funcs[name]

    def method(self, cls: str, name: str) -> ast.FunctionDef:
        if cls not in self.classes:
            raise TranslationError(f"class {cls} not found")
        fs = [f for f in self.classes[cls].body if isinstance(f, ast.FunctionDef) and f.name == name]
        if len(fs) != 1:
            raise TranslationError(f"{cls}.{name} not found (or defined twice)")
        return fs[0]


# ------------------------------------------------------------------------------------------------ decision lists
Test = tuple  # ("isinstance", [types]) | ("typeIs", [types]) | ("registered",) | ("always",) | ("and", a, b) | ("or", a, b) | ("not", a)


def _and(a: Optional[Test], b: Test) -> Test:
    return b if a is None or a == ("always",) else ("and", a, b)


class _Rules:
    """reads a function body as a decision list on the runtime type of `var`"""

    def __init__(self, mod: _Module, var: str, recursive_calls: List[str], allow_registry: bool, stop_at=None):
        self.mod = mod
        self.var = var
        self.rec = recursive_calls  # unparsed callee expressions that mean "this function again"
        self.allow_registry = allow_registry
        self.stop_at = stop_at  # predicate: first statement of the part handled by someone else
        self.serializer_var: Optional[str] = None
        self.alias: Dict[str, str] = {}  # loop variable -> Lean type name
        self.rules: List[Tuple[Test, str]] = []
        self.rest: Optional[List[ast.stmt]] = None

    # ---- expressions
    def is_var(self, e: ast.AST) -> bool:
        return isinstance(e, ast.Name) and e.id == self.var

    def type_of_var(self, e: ast.AST) -> bool:
        """`type(x)` or `x.__class__`"""
        if isinstance(e, ast.Call) and isinstance(e.func, ast.Name) and e.func.id == "type" and len(e.args) == 1 \
                and not e.keywords and self.is_var(e.args[0]):
            return True
        return isinstance(e, ast.Attribute) and e.attr == "__class__" and self.is_var(e.value)

    def types(self, e: ast.AST) -> List[str]:
        if isinstance(e, ast.Name):
            if e.id in self.alias:
                return [self.alias[e.id]]
            if e.id in self.mod.type_consts:
                return list(self.mod.type_consts[e.id])
            if e.id in PYTYPES:
                return [PYTYPES[e.id]]
        if isinstance(e, ast.Tuple):
            return [t for x in e.elts for t in self.types(x)]
        if ast.unparse(e) == "type(None)":
            return ["noneType"]
        raise TranslationError(f"not a known type / tuple of types: {ast.unparse(e)}")

    def test(self, e: ast.AST) -> Test:
        if isinstance(e, ast.UnaryOp) and isinstance(e.op, ast.Not):
            return ("not", self.test(e.operand))
        if isinstance(e, ast.BoolOp):
            parts = [self.test(v) for v in e.values]
            out = parts[0]
            for p in parts[1:]:
                out = ("and" if isinstance(e.op, ast.And) else "or", out, p)
            return out
        if isinstance(e, ast.Call) and isinstance(e.func, ast.Name) and e.func.id == "isinstance" and len(e.args) == 2 \
                and not e.keywords and self.is_var(e.args[0]):
            return ("isinstance", self.types(e.args[1]))
        if isinstance(e, ast.Name) and self.serializer_var is not None and e.id == self.serializer_var:
            return ("registered",)
        if isinstance(e, ast.Compare) and len(e.ops) == 1:
            lhs, op, rhs = e.left, e.ops[0], e.comparators[0]
            none = isinstance(rhs, ast.Constant) and rhs.value is None
            if self.type_of_var(lhs) and isinstance(op, (ast.Is, ast.Eq, ast.In)) and not none:
                if isinstance(op, ast.In) != isinstance(rhs, ast.Tuple) and not (
                        isinstance(op, ast.In) and isinstance(rhs, ast.Name) and rhs.id in self.mod.type_consts):
                    raise TranslationError(f"unsupported type comparison: {ast.unparse(e)}")
                return ("typeIs", self.types(rhs))
            if self.type_of_var(lhs) and isinstance(op, (ast.IsNot, ast.NotEq, ast.NotIn)) and not none:
                pos = ast.Compare(lhs, [{ast.IsNot: ast.Is, ast.NotEq: ast.Eq, ast.NotIn: ast.In}[type(op)]()], [rhs])
                return ("not", self.test(pos))
            if none and isinstance(op, (ast.Is, ast.IsNot)):
                if self.is_var(lhs):
                    t: Test = ("typeIs", ["noneType"])
                elif isinstance(lhs, ast.Name) and lhs.id == self.serializer_var:
                    t = ("not", ("registered",))
                else:
                    raise TranslationError(f"unsupported test: {ast.unparse(e)}")
                return t if isinstance(op, ast.Is) else ("not", t)
        raise TranslationError(f"unsupported test: {ast.unparse(e)}")

    def action(self, e: ast.AST) -> str:
        if self.is_var(e):
            return "self"
        if isinstance(e, ast.ListComp) and len(e.generators) == 1:
            g = e.generators[0]
            if (not g.ifs and not g.is_async and isinstance(g.target, ast.Name) and self.is_var(g.iter)
                    and isinstance(e.elt, ast.Call) and ast.unparse(e.elt.func) in self.rec and len(e.elt.args) == 1
                    and isinstance(e.elt.args[0], ast.Name) and e.elt.args[0].id == g.target.id
                    and g.target.id != self.var and self._only_kwargs(e.elt)):
                return "mapRec"
        if isinstance(e, ast.Call) and not e.keywords:
            f = ast.unparse(e.func)
            if f == "list" and len(e.args) == 1 and isinstance(e.args[0], ast.Call) and ast.unparse(e.args[0].func) == "map" \
                    and len(e.args[0].args) == 2 and not e.args[0].keywords and ast.unparse(e.args[0].args[0]) in self.rec \
                    and self.is_var(e.args[0].args[1]):
                return "mapRec"
            if f == f"{self.var}.to_json" and not e.args and self.allow_registry:
                return "method"
            if len(e.args) == 1 and self.is_var(e.args[0]) and isinstance(e.func, ast.Name):
                if self.serializer_var is not None and e.func.id == self.serializer_var:
                    return "registry"
                if e.func.id in self.alias:
                    return f"coerce .{self.alias[e.func.id]}"
                if e.func.id in PYTYPES and e.func.id not in ("NoneType", "SubclassJSONSerializer"):
                    return f"coerce .{PYTYPES[e.func.id]}"
        raise TranslationError(f"unsupported result expression: {ast.unparse(e)}")

    @staticmethod
    def _only_kwargs(call: ast.Call) -> bool:
        """no keywords, or exactly `**kwargs` forwarded"""
        return all(k.arg is None and isinstance(k.value, ast.Name) for k in call.keywords) and len(call.keywords) <= 1

    # ---- statements; returns True when control cannot fall through
    def block(self, stmts: List[ast.stmt], cond: Optional[Test]) -> bool:
        stmts = [s for s in stmts if not _skippable(s)]
        for i, s in enumerate(stmts):
            if cond is None and self.stop_at is not None and self.stop_at(s):
                self.rest = stmts[i:]
                return True
            if self.stmt(s, cond):
                if i + 1 != len(stmts):
                    raise TranslationError(f"unreachable statement after {ast.unparse(s).splitlines()[0]}")
                return True
        return False

    def emit(self, cond: Optional[Test], action: str):
        self.rules.append((cond if cond is not None else ("always",), action))

    def ret(self, e: ast.AST, cond: Optional[Test]):
        if isinstance(e, ast.IfExp):
            self.ret(e.body, _and(cond, self.test(e.test)))
            self.ret(e.orelse, cond)
        else:
            self.emit(cond, self.action(e))

    def stmt(self, s: ast.stmt, cond: Optional[Test]) -> bool:
        if isinstance(s, ast.Return):
            if s.value is None:
                raise TranslationError("bare return")
            self.ret(s.value, cond)
            return True
        if isinstance(s, ast.Raise):
            ok = (s.cause is None and isinstance(s.exc, ast.Call) and ast.unparse(s.exc.func) == "ClassNotSerializableError"
                  and len(s.exc.args) == 1 and not s.exc.keywords and self.type_of_var(s.exc.args[0]) and self.allow_registry)
            if not ok:
                raise TranslationError(f"unsupported raise: {ast.unparse(s)}")
            self.emit(cond, "raiseNotSerializable")
            return True
        if isinstance(s, ast.If):
            t = self.test(s.test)
            a = self.block(s.body, _and(cond, t))
            if s.orelse:
                b = self.block(s.orelse, _and(cond, ("not", t)))
                return a and b
            return False
        if isinstance(s, ast.For):
            if s.orelse or not isinstance(s.target, ast.Name) or s.target.id in (self.var, self.serializer_var) \
                    or s.target.id in self.alias or self.mod.assigned.get(s.target.id):
                raise TranslationError(f"unsupported loop: {ast.unparse(s).splitlines()[0]}")
            for t in self.types(s.iter):
                self.alias[s.target.id] = t
                try:
                    if self.block(copy.deepcopy(s.body), cond):
                        raise TranslationError("a loop body that always leaves the function")
                finally:
                    del self.alias[s.target.id]
            return False
        if isinstance(s, ast.Assign) and self.allow_registry and len(s.targets) == 1 and isinstance(s.targets[0], ast.Name):
            v = s.value
            if (isinstance(v, ast.Call) and ast.unparse(v.func) == "JSONSerializableTypeRegistry().get_serializer"
                    and len(v.args) == 1 and not v.keywords and self.type_of_var(v.args[0])):
                name = s.targets[0].id
                if self.serializer_var is not None or name == self.var or self.mod.assigned.get(name, 0) != 0 or cond is not None:
                    raise TranslationError(f"unsupported registry lookup: {ast.unparse(s)}")
                self.serializer_var = name
                return False
        raise TranslationError(f"unsupported statement: {ast.unparse(s).splitlines()[0]}")


def _count_assigned(fn: ast.FunctionDef) -> Dict[str, int]:
    out: Dict[str, int] = {}
    for n in ast.walk(fn):
        if isinstance(n, ast.Name) and isinstance(n.ctx, (ast.Store, ast.Del)):
            out[n.id] = out.get(n.id, 0) + 1
    return out


def to_rules(mod: _Module):
    fn = mod.fn("to_json")
    if not _plain_args(fn, ["obj"]):
        raise TranslationError(f"to_json signature changed: {ast.unparse(fn.args)}")
    stores = _count_assigned(fn)
    if stores.get("obj"):
        raise TranslationError("to_json re-binds its argument")
    r = _Rules(mod, "obj", ["to_json"], allow_registry=True)
    r.mod = copy.copy(mod)
    r.mod.assigned = {k: v for k, v in stores.items() if v > 1}  # locals bound more than once are not aliases we follow
    r.block(fn.body, None)
    return r.rules


def from_rules_and_stages(mod: _Module):
    fn = mod.method("SubclassJSONSerializer", "from_json")
    if [ast.unparse(d) for d in fn.decorator_list] != ["classmethod"]:
        raise TranslationError("from_json is no longer a plain classmethod")
    mfn = mod.fn("from_json")
    mb = _body(mfn)
    if not _plain_args(mfn, ["data"], kwarg=True) or len(mb) != 1 or \
            ast.unparse(mb[0]) != f"return SubclassJSONSerializer.from_json(data, **{mfn.args.kwarg.arg})":
        raise TranslationError("module-level from_json no longer delegates to SubclassJSONSerializer.from_json")
    for name in _DOC_ERRORS:
        if name not in mod.classes or [ast.unparse(b) for b in mod.classes[name].bases] != ["JSONSerializationError"]:
            raise TranslationError(f"{name} is no longer a direct JSONSerializationError subclass")
    st = _StageTranslator(fn)  # checks the signature (cls, data, **kwargs)

    def is_get_tag(s: ast.stmt) -> bool:
        return isinstance(s, ast.Assign) and isinstance(s.value, ast.Call) and ast.unparse(s.value.func) == "data.get"

    stores = _count_assigned(fn)
    if stores.get("data") or stores.get("cls"):
        raise TranslationError("from_json re-binds its argument")
    r = _Rules(mod, "data", ["from_json", "cls.from_json", "SubclassJSONSerializer.from_json"], allow_registry=False,
               stop_at=is_get_tag)
    r.mod = copy.copy(mod)
    r.mod.assigned = {}
    done = r.block(fn.body, None)
    if not done or r.rest is None:
        raise TranslationError("from_json never reaches the tag resolution (`data.get(JSON_TYPE_NAME)`)")
    rules = r.rules + [(("always",), "resolve")]
    for s in st.inline(r.rest):
        st.stmt(s)
    if not st.stages or st.stages[-1][0] != "callRegistry":
        raise TranslationError("from_json does not end with the call of the registered deserializer")
    return rules, st.stages


# ------------------------------------------------------------------------------------------------ the tag
def _name_parts(e: ast.AST, is_cls) -> List[Tuple[str, Optional[str]]]:
    """a string expression built from attributes of the class and literals, as parts"""
    if isinstance(e, ast.BinOp) and isinstance(e.op, ast.Add):
        return _name_parts(e.left, is_cls) + _name_parts(e.right, is_cls)
    if isinstance(e, ast.Constant) and isinstance(e.value, str):
        return [("lit", e.value)]
    if isinstance(e, ast.JoinedStr):
        out = []
        for v in e.values:
            if isinstance(v, ast.FormattedValue):
                if v.conversion != -1 or v.format_spec is not None:
                    raise TranslationError(f"unsupported f-string field in {ast.unparse(e)}")
                out += _name_parts(v.value, is_cls)
            else:
                out += _name_parts(v, is_cls)
        return out
    if isinstance(e, ast.Attribute) and is_cls(e.value) and e.attr in ("__module__", "__name__", "__qualname__"):
        return [({"__module__": "module", "__name__": "name", "__qualname__": "qualname"}[e.attr], None)]
    raise TranslationError(f"unsupported tag expression: {ast.unparse(e)}")


def _merge_lits(parts):
    out = []
    for k, v in parts:
        if k == "lit" and v == "":
            continue
        if k == "lit" and out and out[-1][0] == "lit":
            out[-1] = ("lit", out[-1][1] + v)
        else:
            out.append((k, v))
    return out


def full_class_name_parts(utils_src: str):
    tree = ast.parse(utils_src)
    fs = [f for f in tree.body if isinstance(f, ast.FunctionDef) and f.name == "get_full_class_name"]
    if len(fs) != 1 or fs[0].decorator_list or len(fs[0].args.args) != 1 or not _plain_args(fs[0], [fs[0].args.args[0].arg]):
        raise TranslationError("utils.get_full_class_name not found / signature changed")
    if sum(1 for n in ast.walk(tree) if isinstance(n, ast.Name) and n.id == "get_full_class_name"
           and isinstance(n.ctx, ast.Store)):
        raise TranslationError("utils.get_full_class_name is re-bound")
    p = fs[0].args.args[0].arg
    b = _body(fs[0])
    if len(b) != 1 or not isinstance(b[0], ast.Return) or b[0].value is None:
        raise TranslationError("utils.get_full_class_name is no longer a single return")
    return _merge_lits(_name_parts(b[0].value, lambda x: isinstance(x, ast.Name) and x.id == p))


def _is_full_name_of_type_of(e: ast.AST, var: str) -> bool:
    return ast.unparse(e) in (f"get_full_class_name(type({var}))", f"get_full_class_name({var}.__class__)")


def tag_parts(mod: _Module, utils_src: str):
    fn = mod.method("SubclassJSONSerializer", "to_json")
    if fn.decorator_list or not _plain_args(fn, ["self"]):
        raise TranslationError("SubclassJSONSerializer.to_json signature changed")
    b = _body(fn)
    ok = (len(b) == 1 and isinstance(b[0], ast.Return) and isinstance(b[0].value, ast.Dict) and len(b[0].value.keys) == 1
          and b[0].value.keys[0] is not None and ast.unparse(b[0].value.keys[0]) in ("JSON_TYPE_NAME", repr(TAG_KEY)))
    if not ok:
        raise TranslationError("SubclassJSONSerializer.to_json no longer returns {JSON_TYPE_NAME: <tag>}")
    v = b[0].value.values[0]
    if _is_full_name_of_type_of(v, "self"):
        return full_class_name_parts(utils_src)

    def is_cls(x):
        return ast.unparse(x) in ("self.__class__", "type(self)")
    return _merge_lits(_name_parts(v, is_cls))


# ------------------------------------------------------------------------------------------------ the registry
def _lookup_rule(fn: ast.FunctionDef, store: str) -> str:
    if fn.decorator_list or not _plain_args(fn, ["self", "type_class"]):
        raise TranslationError(f"{fn.name} signature changed")
    text = "\n".join(ast.unparse(s) for s in _body(fn))
    d = f"self.{store}"
    if text in (f"return {d}.get(type_class)", f"return {d}.get(type_class, None)"):
        return "exact"
    # first class of the MRO that is registered
    for v in ("base", "c", "k", "t", "klass"):
        if text in (f"for {v} in type_class.__mro__:\n    if {v} in {d}:\n        return {d}[{v}]\nreturn None",
                    f"for {v} in type_class.__mro__:\n    if {v} in {d}:\n        return {d}[{v}]",
                    f"for {v} in type_class.mro():\n    if {v} in {d}:\n        return {d}[{v}]\nreturn None"):
            return "mro"
    # first registered class (registration order) the class is a subclass of
    for k in ("k", "t", "registered", "key", "registered_type"):
        for f in ("f", "s", "v", "fn", "func", "serializer", "deserializer"):
            if text in (f"for {k}, {f} in {d}.items():\n    if issubclass(type_class, {k}):\n        return {f}\nreturn None",
                        f"for {k}, {f} in {d}.items():\n    if issubclass(type_class, {k}):\n        return {f}"):
                return "isinstanceOrder"
    raise TranslationError(f"unsupported registry lookup in {fn.name}: {text!r}")


def registry_rules(mod: _Module) -> Tuple[str, str]:
    name = "JSONSerializableTypeRegistry"
    if name not in mod.classes:
        raise TranslationError(f"class {name} not found")
    c = mod.classes[name]
    if [ast.unparse(k.value) for k in c.keywords if k.arg == "metaclass"] != ["SingletonMeta"] or c.bases:
        raise TranslationError(f"{name} is no longer a singleton (metaclass=SingletonMeta)")
    if [ast.unparse(d) for d in c.decorator_list] != ["dataclass"]:
        raise TranslationError(f"{name} is no longer a plain dataclass")
    stores = {s.target.id: s for s in c.body if isinstance(s, ast.AnnAssign) and isinstance(s.target, ast.Name)}
    for st in ("_serializers", "_deserializers"):
        if st not in stores or stores[st].value is None or ast.unparse(stores[st].value) != "field(default_factory=dict)":
            raise TranslationError(f"{name}.{st} is no longer a plain dict per registry")
    extra = [s for s in c.body if not _skippable(s) and not (isinstance(s, ast.AnnAssign) and s.target.id in stores)
             and not (isinstance(s, ast.FunctionDef) and s.name in ("register", "get_serializer", "get_deserializer"))]
    if extra:
        raise TranslationError(f"{name} has members the translator does not know: {ast.unparse(extra[0]).splitlines()[0]}")
    reg = mod.method(name, "register")
    if reg.decorator_list or not _plain_args(reg, ["self", "type_class", "serializer", "deserializer"]):
        raise TranslationError("register signature changed")
    got = sorted(ast.unparse(s) for s in _body(reg))
    if got != ["self._deserializers[type_class] = deserializer", "self._serializers[type_class] = serializer"]:
        raise TranslationError(f"register no longer stores the pair under the class: {got}")
    return (_lookup_rule(mod.method(name, "get_serializer"), "_serializers"),
            _lookup_rule(mod.method(name, "get_deserializer"), "_deserializers"))


def builtin_pairs(mod: _Module):
    """module-level `JSONSerializableTypeRegistry().register(T, ser, deser)` statements with ser/deser defined here"""
    out = []
    for s in mod.tree.body:
        if not (isinstance(s, ast.Expr) and isinstance(s.value, ast.Call)):
            continue
        call = s.value
        if ast.unparse(call.func) != "JSONSerializableTypeRegistry().register":
            if "register" in ast.unparse(call.func):
                raise TranslationError(f"unsupported registration: {ast.unparse(s)}")
            continue
        if len(call.args) != 3 or call.keywords or not all(isinstance(a, ast.Name) for a in call.args[1:]):
            raise TranslationError(f"unsupported registration: {ast.unparse(s)}")
        cls = ast.unparse(call.args[0])
        ser, de = mod.fn(call.args[1].id), mod.fn(call.args[2].id)
        if not _plain_args(ser, ["obj"]) or not _plain_args(de, ["data"]):
            raise TranslationError(f"(de)serializer signature changed for {cls}")
        sb, db = _body(ser), _body(de)
        if not (len(sb) == 1 and isinstance(sb[0], ast.Return) and isinstance(sb[0].value, ast.Dict)
                and len(sb[0].value.keys) == 2 and all(k is not None for k in sb[0].value.keys)):
            raise TranslationError(f"serializer of {cls} no longer returns a two-entry dict")
        d = sb[0].value
        keys = [ast.unparse(k) for k in d.keys]
        if keys[0] not in ("JSON_TYPE_NAME", repr(TAG_KEY)):
            keys.reverse()
            d = ast.Dict(keys=list(reversed(d.keys)), values=list(reversed(d.values)))
        if keys[0] not in ("JSON_TYPE_NAME", repr(TAG_KEY)) or not (isinstance(d.keys[1], ast.Constant) and isinstance(d.keys[1].value, str)):
            raise TranslationError(f"serializer of {cls}: unsupported keys {keys}")
        if ast.unparse(d.values[1]) != "str(obj)":
            raise TranslationError(f"serializer of {cls}: payload is no longer str(obj)")
        tag_of_type = _is_full_name_of_type_of(d.values[0], "obj")
        if not tag_of_type and not (isinstance(d.values[0], ast.Constant) or "get_full_class_name" in ast.unparse(d.values[0])):
            raise TranslationError(f"serializer of {cls}: unsupported tag {ast.unparse(d.values[0])}")
        ok = (len(db) == 1 and isinstance(db[0], ast.Return) and isinstance(db[0].value, ast.Call)
              and ast.unparse(db[0].value.func) == cls and len(db[0].value.args) == 1 and not db[0].value.keywords
              and isinstance(db[0].value.args[0], ast.Subscript) and ast.unparse(db[0].value.args[0].value) == "data"
              and isinstance(db[0].value.args[0].slice, ast.Constant) and isinstance(db[0].value.args[0].slice.value, str))
        if not ok:
            raise TranslationError(f"deserializer of {cls} is no longer `return {cls}(data[<key>])`")
        out.append((cls, d.keys[1].value, db[0].value.args[0].slice.value, tag_of_type))
    return out


# ------------------------------------------------------------------------------------------------ output
def tables_of(json_src: str, utils_src: str) -> dict:
    mod = _Module(ast.parse(json_src))
    frm, stages = from_rules_and_stages(mod)
    ser, deser = registry_rules(mod)
    return {"toRules": to_rules(mod), "fromRules": frm, "tag": tag_parts(mod, utils_src), "stages": stages,
            "serLookup": ser, "deserLookup": deser, "builtins": builtin_pairs(mod)}


def _lean_str(s: str) -> str:
    out = []
    for ch in s:
        if ch in '"\\':
            out.append("\\" + ch)
        elif 32 <= ord(ch) < 127:
            out.append(ch)
        else:
            out.append("\\u{%x}" % ord(ch))
    return '"' + "".join(out) + '"'


def _lean_test(t: Test) -> str:
    k = t[0]
    if k in ("isinstance", "typeIs"):
        return f".{k} [" + ", ".join("." + x for x in t[1]) + "]"
    if k in ("registered", "always"):
        return "." + k
    if k == "not":
        return f".not ({_lean_test(t[1])})"
    return f".{k} ({_lean_test(t[1])}) ({_lean_test(t[2])})"


def _lean_rules(rules) -> str:
    return "[ " + ",\n      ".join(f"⟨{_lean_test(t)}, .{a}⟩" for t, a in rules) + " ]"


def _lean_stage(op, caught, err) -> str:
    return f"⟨.{op}, [" + ", ".join("." + x for x in caught) + "], " + (f"some .{err}" if err else "none") + "⟩"


def lean_tables(t: dict) -> str:
    parts = ", ".join(f".lit {_lean_str(v)}" if k == "lit" else "." + k for k, v in t["tag"])
    builtins = ", ".join(f"⟨{_lean_str(c)}, {_lean_str(sk)}, {_lean_str(dk)}, {'true' if tt else 'false'}⟩"
                         for c, sk, dk, tt in t["builtins"])
    stages = ",\n      ".join(_lean_stage(*s) for s in t["stages"])
    return f"""def tables : Tables where
  toRules :=
    {_lean_rules(t['toRules'])}
  fromRules :=
    {_lean_rules(t['fromRules'])}
  tag := [{parts}]
  stages :=
    [ {stages} ]
  serLookup := .{t['serLookup']}
  deserLookup := .{t['deserLookup']}
  builtins := [{builtins}]
"""


OBLIGATIONS = ["C18_dispatch_translated_eq_model", "C18_translated_tables_roundtrip", "C18_roundtrip_translated",
               "C18_translated_is_model"]
NAMESPACE = "KrroodVerif.Json.Translated18"


def lean_of(t: dict) -> str:
    return f"""import KrroodVerif.Props.C18Tables
/-! GENERATED by harness/translate/c18_translate.py from src/krrood/adapters/json_serializer.py (+ utils.py) — do not edit -/
namespace {NAMESPACE}
open KrroodVerif.Json

/-- the tables read off the current source -/
{lean_tables(t)}
/-- the current source decides every kind of value like the model's table, composes the tag alike, resolves it by the same
stages and looks the registry up by the same rule: it is the table every C18 theorem is about -/
theorem C18_dispatch_translated_eq_model : tables.dispatch = Json.tables.dispatch := by decide

/-- independently of table equality: the tables of the current source satisfy the well-formedness predicate -/
theorem C18_translated_tables_roundtrip : RoundTrips tables = true := by decide

/-- hence C18_roundtrip for the tables of the current source, every environment, every well-formed value -/
theorem C18_roundtrip_translated (env : Env) (v : PyVal) (hw : wf env v = true) :
    ∃ j, toJsonT tables env v = .ok j ∧ fromJsonT tables env j = .ok v :=
  C18_roundtrips_of_wellformed tables C18_translated_tables_roundtrip env v hw

/-- and the interpreted current tables ARE the hand-written model on every value and every JSON tree -/
theorem C18_translated_is_model (env : Env) :
    (∀ v, toJsonT tables env v = if serializable env v then .ok (toJson env v) else .error .notSerializable) ∧
    (∀ j, fromJsonT tables env j = liftErr (fromJson .current env j)) ∧
    (∀ v, wf env v = true → ∃ j, toJsonT tables env v = .ok j ∧ fromJsonT tables env j = .ok v) :=
  C18_of_dispatch_eq tables C18_dispatch_translated_eq_model env
end {NAMESPACE}
"""


def translate(json_src: str, utils_src: str) -> str:
    return lean_of(tables_of(json_src, utils_src))


def generate(repo: Path) -> str:
    repo = Path(repo)
    return translate((repo / "src/krrood/adapters/json_serializer.py").read_text(),
                     (repo / "src/krrood/utils.py").read_text())


if __name__ == "__main__":
    import sys
    print(generate(Path(sys.argv[1] if len(sys.argv) > 1 else "/repo")))
