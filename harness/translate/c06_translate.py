"""Translator (Python AST -> Lean 4) for the kind dispatch of `WrappedTable.parse_field` and the rules of
`WrappedTable.create_mapper_args` (`src/krrood/ormatic/wrapped_table.py`) — the second tie of C06 between the model and
the code.

`parse_field` is an `if / elif / … / else` chain. Each branch tests a Boolean combination of `WrappedField` predicates
(plus the two membership tests `type_endpoint in self.ormatic.mapped_classes` / `… in self.ormatic.type_mappings`) and
calls exactly one `self.create_*(wrapped_field)`. `create_mapper_args` is a sequence of (nested) `if`s over
`self.parent_table is [not] None`, `self.has_children`, `self.ormatic.inheritance_strategy == InheritanceStrategy.JOINED`
whose bodies append the discriminator column and update `self.mapper_args`. The translator emits

    def Translated.dispatch    : DispatchTable := [ (cond, action), … ]          -- source order
    def Translated.mapperRules : MapperRules   := [ (cond, [emissions]), … ]
    theorem C06_dispatch_translated_eq_model : dispatchExtEq dispatch OrmGen.dispatch = true        := by decide
    theorem C06_mapper_translated_eq_model   : mapperExtEq mapperRules OrmGen.mapperRules = true    := by decide
    theorem C06_dispatch_translated_ok       : DispatchOk dispatch                                  := by decide
    theorem C06_mapper_translated_ok         : MapperOk mapperRules                                 := by decide
    theorem C06_translated_meets_property    : … := C06_of_translated_tables …

which the Lean kernel re-checks on every run (`Props/C06T.lean` proves once that these finite checks imply the property
theorems for the generator driven by the regenerated tables, and that the hand-written model is the generator driven by
the pinned tables).

STRICT: a statement / expression shape not listed below -> `TranslationError` (the check then reports the obligations
as broken, searches for a concrete failing input, and says `no-failing-input-found` if there is none).

Recognised in `parse_field(self, wrapped_field)`:
  docstring, `pass`, `logger.<level>(…)` / `logging.<level>(…)` / `print(…)` statements         skipped (unobservable)
  `v = <name | attribute chain | constant>`                                   alias, inlined wherever `v` is used later
  `if C: B  [elif C: B]…  [else: B]`  and  `if C: B; return` followed by further statements    decision list rows
  branch body B: skipped statements + exactly one `self.create_X(wrapped_field)` (+ optional bare `return`), or only
  skipped statements (= nothing is created), or a nested chain (its conditions are conjoined with the path condition)
  conditions: `and`, `or`, `not`, parentheses, `wrapped_field.<predicate>`, `E in self.ormatic.mapped_classes`,
  `E in self.ormatic.type_mappings` (also `not in`, `.keys()`), with `E` = `wrapped_field.type_endpoint`
Recognised in `create_mapper_args(self)`:
  `if C: … [else: …]` (nested freely), conditions over `self.parent_table is None` / `is not None` / truthiness,
  `self.has_children`, `self.ormatic.inheritance_strategy ==|is|!=|is not InheritanceStrategy.JOINED`, `and` / `or` / `not`
  `self.custom_columns.append(ColumnConstructor(self.polymorphic_on_name, "Mapped[str]", "mapped_column(String(…), nullable=False, …)"))`
  `self.mapper_args.update({K: V, …})` / `self.mapper_args[K] = V` with
      "'polymorphic_on'": f"'{self.polymorphic_on_name}'"      "'polymorphic_identity'": f"'{self.tablename}'"
      "'inherit_condition'": f"{self.primary_key_name} == {self.parent_table.full_primary_key_name}"

Normalisations (each the identity on every input): names of local aliases; comments, docstrings, logging, parentheses,
line breaks; `elif` vs nested `else: if`; early `return` vs `elif`; one `update` with several keys vs several updates;
keyword vs positional arguments of `ColumnConstructor`; `if a: if b:` vs `if a and b:`. Boolean rewrites of a condition
(operand order, De Morgan, distribution, double negation) and the order of the emissions/rules of `create_mapper_args`
need no normalisation here: the Lean obligations compare decision FUNCTIONS (all 2⁹ / 2³ truth assignments), not syntax.
"""
from __future__ import annotations

import ast
import copy
from pathlib import Path
from typing import Dict, List, Optional, Tuple


class TranslationError(Exception):
    pass


SOURCE = "src/krrood/ormatic/wrapped_table.py"

PREDICATES = {
    "is_type_type": "isTypeType",
    "is_builtin_type": "isBuiltinType",
    "is_enum": "isEnum",
    "is_container": "isContainer",
    "is_one_to_one_relationship": "isOneToOne",
    "is_one_to_many_relationship": "isOneToMany",
    "is_collection_of_builtins": "isCollectionOfBuiltins",
}
MEMBERSHIP = {
    "self.ormatic.mapped_classes": "endpointMapped",
    "self.ormatic.type_mappings": "endpointInTypeMappings",
    "self.ormatic.type_mappings.keys()": "endpointInTypeMappings",
}
ACTIONS = {
    "create_type_type_column": "typeType",
    "create_builtin_column": "builtin",
    "create_one_to_one_relationship": "oneToOne",
    "create_custom_type": "customType",
    "create_json_column": "json",
    "create_one_to_many_relationship": "oneToMany",
}
MAPPER_KEYS = {
    "'polymorphic_on'": ("polyOn", "f\"'{self.polymorphic_on_name}'\""),
    "'polymorphic_identity'": ("polyIdentitySelf", "f\"'{self.tablename}'\""),
    "'inherit_condition'": ("inheritCondition",
                            "f'{self.primary_key_name} == {self.parent_table.full_primary_key_name}'"),
}
EMIT_ORDER = ["polyColumn", "polyOn", "polyIdentitySelf", "inheritCondition"]

# condition trees: ("atom", name) | ("not", c) | ("and", a, b) | ("or", a, b) | ("true",)
Cond = tuple


def _skippable(s: ast.stmt) -> bool:
    if isinstance(s, ast.Pass):
        return True
    if isinstance(s, ast.Expr):
        v = s.value
        if isinstance(v, ast.Constant):
            return True
        if isinstance(v, ast.Call):
            f = v.func
            if isinstance(f, ast.Attribute) and isinstance(f.value, ast.Name) and f.value.id in ("logger", "logging") \
                    and f.attr in ("debug", "info", "warning", "error", "log"):
                return True
            if isinstance(f, ast.Name) and f.id == "print":
                return True
    return False


def _is_safe_alias(e: ast.AST) -> bool:
    if isinstance(e, (ast.Name, ast.Constant)):
        return True
    return isinstance(e, ast.Attribute) and _is_safe_alias(e.value)


class _Subst(ast.NodeTransformer):
    def __init__(self, table: Dict[str, ast.AST]):
        self.table = table

    def visit_Name(self, node: ast.Name):
        if isinstance(node.ctx, ast.Load) and node.id in self.table:
            return copy.deepcopy(self.table[node.id])
        return node


def _conj(a: Optional[Cond], b: Cond) -> Cond:
    return b if a is None else ("and", a, b)


def _fold(op: str, cs: List[Cond]) -> Cond:
    out = cs[0]
    for c in cs[1:]:
        out = (op, out, c)
    return out


# ---------------------------------------------------------------------------------------------- parse_field

class _Dispatch:
    def __init__(self, fn: ast.FunctionDef, methods: Dict[str, ast.FunctionDef]):
        args = [a.arg for a in fn.args.args]
        if len(args) != 2 or fn.args.vararg or fn.args.kwarg or fn.args.kwonlyargs or fn.args.defaults:
            raise TranslationError(f"parse_field signature changed: {ast.unparse(fn.args)}")
        self.self_, self.field = args
        self.fn = fn
        self.methods = methods
        self.alias: Dict[str, ast.AST] = {}
        self.rows: List[Tuple[Cond, str]] = []

    def subst(self, e: ast.AST) -> ast.AST:
        return ast.fix_missing_locations(_Subst(self.alias).visit(copy.deepcopy(e)))

    def cond(self, e: ast.AST) -> Cond:
        e = self.subst(e)
        return self._cond(e)

    def _cond(self, e: ast.AST) -> Cond:
        if isinstance(e, ast.BoolOp):
            return _fold("and" if isinstance(e.op, ast.And) else "or", [self._cond(v) for v in e.values])
        if isinstance(e, ast.UnaryOp) and isinstance(e.op, ast.Not):
            return ("not", self._cond(e.operand))
        if isinstance(e, ast.Attribute) and isinstance(e.value, ast.Name) and e.value.id == self.field:
            if e.attr in PREDICATES:
                return ("atom", PREDICATES[e.attr])
            raise TranslationError(f"predicate `{e.attr}` is not one the dispatch model knows")
        if isinstance(e, ast.Compare) and len(e.ops) == 1 and isinstance(e.ops[0], (ast.In, ast.NotIn)):
            left, right = ast.unparse(e.left), ast.unparse(e.comparators[0])
            if left == f"{self.field}.type_endpoint" and right.replace(self.self_ + ".", "self.", 1) in MEMBERSHIP:
                a = ("atom", MEMBERSHIP[right.replace(self.self_ + ".", "self.", 1)])
                return a if isinstance(e.ops[0], ast.In) else ("not", a)
        raise TranslationError(f"unsupported condition: {ast.unparse(e)}")

    def action_of(self, body: List[ast.stmt]) -> Tuple[Optional[str], bool]:
        """(action or None when nothing is created, ends with `return`)"""
        body = [b for b in body if not _skippable(b)]
        returns = False
        if body and isinstance(body[-1], ast.Return):
            if body[-1].value is not None and not (isinstance(body[-1].value, ast.Constant) and body[-1].value.value is None):
                raise TranslationError(f"parse_field returns a value: {ast.unparse(body[-1])}")
            returns = True
            body = body[:-1]
        if not body:
            return "skip", returns
        if len(body) != 1:
            raise TranslationError(f"a branch must call exactly one create_* method: {ast.unparse(body[0])} …")
        s = body[0]
        s = self.subst(s)
        if not (isinstance(s, ast.Expr) and isinstance(s.value, ast.Call)):
            return None, returns
        c = s.value
        if not (isinstance(c.func, ast.Attribute) and isinstance(c.func.value, ast.Name) and c.func.value.id == self.self_
                and len(c.args) == 1 and not c.keywords and isinstance(c.args[0], ast.Name) and c.args[0].id == self.field):
            raise TranslationError(f"unsupported statement in a branch: {ast.unparse(s)}")
        if c.func.attr not in ACTIONS:
            raise TranslationError(f"unknown create method `{c.func.attr}`")
        if c.func.attr not in self.methods:
            raise TranslationError(f"`{c.func.attr}` is called but not defined in WrappedTable")
        return ACTIONS[c.func.attr], returns

    def walk(self, stmts: List[ast.stmt], path: Optional[Cond]) -> bool:
        """appends rows for `stmts` under path condition `path`; returns True when every path through `stmts` is
        covered by a row or ends (so nothing after it runs)"""
        stmts = [s for s in stmts if not _skippable(s)]
        i = 0
        while i < len(stmts):
            s = stmts[i]
            if isinstance(s, ast.Assign) and len(s.targets) == 1 and isinstance(s.targets[0], ast.Name):
                name = s.targets[0].id
                val = self.subst(s.value)
                if name in (self.self_, self.field) or name in self.alias:
                    raise TranslationError(f"variable {name} is re-bound")
                if not _is_safe_alias(val):
                    raise TranslationError(f"unsupported assignment: {ast.unparse(s)}")
                self.alias[name] = val
                i += 1
                continue
            if isinstance(s, ast.If):
                rest = stmts[i + 1:]
                c = self.cond(s.test)
                here = _conj(path, c)
                # the `then` branch
                inner = [b for b in s.body if not _skippable(b)]
                if any(isinstance(b, ast.If) for b in inner):
                    done = self.walk(s.body, here)
                    if not done:
                        raise TranslationError("a nested chain must decide every case (end with `else` or `return`)")
                    ends = True
                else:
                    act, ends = self.action_of(s.body)
                    if act is None:
                        raise TranslationError(f"unsupported statement in a branch: {ast.unparse(s.body[0])}")
                    self.rows.append((here, act))
                # what runs when the test is false: the `else` part, then (unless it ends) the rest
                neg = _conj(path, ("not", c))
                if s.orelse:
                    if rest:
                        # statements after a complete if/else: only reachable … from both branches; keep it simple
                        raise TranslationError("statements after an if/else chain")
                    else_inner = [b for b in s.orelse if not _skippable(b)]
                    if not else_inner:
                        self.rows.append((neg, "skip"))
                        return True
                    if any(isinstance(b, (ast.If, ast.Assign)) for b in else_inner):
                        return self.walk(s.orelse, neg)
                    act, _ = self.action_of(s.orelse)
                    if act is None:
                        raise TranslationError(f"unsupported statement in a branch: {ast.unparse(else_inner[0])}")
                    self.rows.append((neg, act))
                    return True
                if rest and not ends:
                    raise TranslationError("a branch without `return` is followed by further statements "
                                           "(two create_* calls could run for one field)")
                if not rest:
                    # `if c: act` as the last statement: when c is false nothing is created
                    self.rows.append((neg, "skip"))
                    return True
                return self.walk(rest, neg)
            # a bare create call / return at the end of a sequence: the unconditional default
            act, _ = self.action_of(stmts[i:])
            if act is None:
                raise TranslationError(f"unsupported statement: {ast.unparse(s)}")
            self.rows.append((path if path is not None else ("true",), act))
            return True
        if path is None:
            raise TranslationError("parse_field has no dispatch")
        self.rows.append((path, "skip"))
        return True

    def run(self) -> List[Tuple[Cond, str]]:
        self.walk(self.fn.body, None)
        # every row carries its full path condition, so the rows are mutually exclusive and their order is immaterial;
        # trailing `skip` rows are the interpreter's default and can be dropped
        rows = list(self.rows)
        while rows and rows[-1][1] == "skip":
            rows.pop()
        if not rows:
            raise TranslationError("parse_field creates nothing")
        return rows


# ---------------------------------------------------------------------------------------------- create_mapper_args

class _Mapper:
    def __init__(self, fn: ast.FunctionDef):
        args = [a.arg for a in fn.args.args]
        if len(args) != 1 or fn.args.vararg or fn.args.kwarg or fn.args.kwonlyargs:
            raise TranslationError(f"create_mapper_args signature changed: {ast.unparse(fn.args)}")
        self.self_ = args[0]
        self.fn = fn
        self.rules: List[Tuple[Optional[Cond], List[str]]] = []

    def norm(self, e: ast.AST) -> str:
        """source text with the receiver renamed to `self`"""
        e = copy.deepcopy(e)
        for n in ast.walk(e):
            if isinstance(n, ast.Name) and n.id == self.self_:
                n.id = "self"
        return ast.unparse(e)

    def cond(self, e: ast.AST) -> Cond:
        if isinstance(e, ast.BoolOp):
            return _fold("and" if isinstance(e.op, ast.And) else "or", [self.cond(v) for v in e.values])
        if isinstance(e, ast.UnaryOp) and isinstance(e.op, ast.Not):
            return ("not", self.cond(e.operand))
        t = self.norm(e)
        if t == "self.has_children":
            return ("atom", "hasChildren")
        if t == "self.parent_table":  # a WrappedTable defines neither __bool__ nor __len__: truthy
            return ("atom", "hasParent")
        if t in ("self.parent_table is not None", "self.parent_table != None"):
            return ("atom", "hasParent")
        if t in ("self.parent_table is None", "self.parent_table == None"):
            return ("not", ("atom", "hasParent"))
        for op, neg in (("==", False), ("is", False), ("!=", True), ("is not", True)):
            if t in (f"self.ormatic.inheritance_strategy {op} InheritanceStrategy.JOINED",
                     f"InheritanceStrategy.JOINED {op} self.ormatic.inheritance_strategy"):
                return ("not", ("atom", "joined")) if neg else ("atom", "joined")
        raise TranslationError(f"unsupported condition in create_mapper_args: {t}")

    def entry(self, k: ast.AST, v: ast.AST) -> str:
        if not (isinstance(k, ast.Constant) and isinstance(k.value, str)):
            raise TranslationError(f"mapper_args key is not a string constant: {ast.unparse(k)}")
        if k.value not in MAPPER_KEYS:
            raise TranslationError(f"unknown mapper_args key {k.value}")
        emit, want = MAPPER_KEYS[k.value]
        got = self.norm(v)
        if ast.dump(ast.parse(got, mode="eval")) != ast.dump(ast.parse(want, mode="eval")):
            raise TranslationError(f"mapper_args[{k.value}] is {got}, expected {want}")
        return emit

    def column(self, call: ast.Call) -> str:
        arg = call.args[0] if call.args else None
        while isinstance(arg, ast.Tuple) and len(arg.elts) == 1:
            arg = arg.elts[0]
        if not (len(call.args) == 1 and not call.keywords and isinstance(arg, ast.Call)
                and isinstance(arg.func, ast.Name) and arg.func.id == "ColumnConstructor"):
            raise TranslationError(f"unsupported append: {ast.unparse(call)}")
        names = ["name", "type", "constructor"]
        got: Dict[str, ast.AST] = dict(zip(names, arg.args))
        for kw in arg.keywords:
            if kw.arg not in names or kw.arg in got:
                raise TranslationError(f"unsupported ColumnConstructor call: {ast.unparse(arg)}")
            got[kw.arg] = kw.value
        if set(got) != set(names):
            raise TranslationError(f"unsupported ColumnConstructor call: {ast.unparse(arg)}")
        ctor = got["constructor"]
        ok = (self.norm(got["name"]) == "self.polymorphic_on_name"
              and isinstance(got["type"], ast.Constant) and got["type"].value == "Mapped[str]"
              and isinstance(ctor, ast.Constant) and isinstance(ctor.value, str)
              and ctor.value.replace(" ", "").startswith("mapped_column(String(")
              and "nullable=False" in ctor.value.replace(" ", ""))
        if not ok:
            raise TranslationError(f"the discriminator column changed: {ast.unparse(arg)}")
        return "polyColumn"

    def walk(self, stmts: List[ast.stmt], path: Optional[Cond]):
        emits: List[str] = []

        def flush():
            if emits:
                self.rules.append((path, list(emits)))
                emits.clear()

        for s in stmts:
            if _skippable(s):
                continue
            if isinstance(s, ast.If):
                flush()
                c = self.cond(s.test)
                self.walk(s.body, _conj(path, c))
                if s.orelse:
                    self.walk(s.orelse, _conj(path, ("not", c)))
                continue
            if isinstance(s, ast.Expr) and isinstance(s.value, ast.Call) and isinstance(s.value.func, ast.Attribute):
                f = self.norm(s.value.func)
                call = s.value
                if f == "self.custom_columns.append":
                    emits.append(self.column(call))
                    continue
                if f == "self.mapper_args.update" and len(call.args) == 1 and not call.keywords \
                        and isinstance(call.args[0], ast.Dict) and all(k is not None for k in call.args[0].keys):
                    for k, v in zip(call.args[0].keys, call.args[0].values):
                        emits.append(self.entry(k, v))
                    continue
            if isinstance(s, ast.Assign) and len(s.targets) == 1 and isinstance(s.targets[0], ast.Subscript) \
                    and self.norm(s.targets[0].value) == "self.mapper_args":
                emits.append(self.entry(s.targets[0].slice, s.value))
                continue
            if isinstance(s, ast.Return) and s.value is None and s is stmts[-1] and path is None:
                continue
            raise TranslationError(f"unsupported statement in create_mapper_args: {ast.unparse(s)}")
        flush()

    def run(self) -> List[Tuple[Cond, List[str]]]:
        self.walk(self.fn.body, None)
        out = []
        for c, es in self.rules:
            es = sorted(set(es), key=EMIT_ORDER.index)
            out.append((c if c is not None else ("true",), es))
        if not out:
            raise TranslationError("create_mapper_args emits nothing")
        return out


# ---------------------------------------------------------------------------------------------- driver

def tables_of(source: str):
    tree = ast.parse(source)
    cls = next((c for c in tree.body if isinstance(c, ast.ClassDef) and c.name == "WrappedTable"), None)
    if cls is None:
        raise TranslationError("class WrappedTable not found")
    methods: Dict[str, ast.FunctionDef] = {}
    for f in cls.body:
        if isinstance(f, ast.FunctionDef):
            if f.name in methods:
                raise TranslationError(f"WrappedTable.{f.name} defined twice")
            methods[f.name] = f
    for need in ("parse_field", "parse_fields", "create_mapper_args"):
        if need not in methods:
            raise TranslationError(f"WrappedTable.{need} not found")
    if methods["parse_field"].decorator_list or methods["create_mapper_args"].decorator_list:
        raise TranslationError("parse_field / create_mapper_args are decorated")
    _check_parse_fields(methods["parse_fields"])
    return _Dispatch(methods["parse_field"], methods).run(), _Mapper(methods["create_mapper_args"]).run()


def _check_parse_fields(fn: ast.FunctionDef):
    """`parse_fields` must still (i) loop over `self.fields`, (ii) skip names starting with `_`, (iii) hand every other
    field to `parse_field`, (iv) call `create_mapper_args` once after the loop."""
    self_ = fn.args.args[0].arg
    body = [s for s in fn.body if not _skippable(s)]
    if len(body) != 2 or not isinstance(body[0], ast.For) or body[0].orelse:
        raise TranslationError("parse_fields is no longer `for f in self.fields: …` followed by `self.create_mapper_args()`")
    loop, tail = body
    if ast.unparse(loop.iter) != f"{self_}.fields" or not isinstance(loop.target, ast.Name):
        raise TranslationError(f"parse_fields iterates over {ast.unparse(loop.iter)}")
    v = loop.target.id
    if ast.unparse(tail) != f"{self_}.create_mapper_args()":
        raise TranslationError(f"parse_fields ends with {ast.unparse(tail)}")
    inner = [s for s in loop.body if not _skippable(s)]
    skip_tests = (f"{v}.field.name.startswith('_')", f"{v}.name.startswith('_')", f"{v}.field.name[0] == '_'")
    if len(inner) == 2 and isinstance(inner[0], ast.If) and not inner[0].orelse \
            and ast.unparse(inner[0].test) in skip_tests \
            and [type(b) for b in inner[0].body if not _skippable(b)] == [ast.Continue] \
            and ast.unparse(inner[1]) == f"{self_}.parse_field({v})":
        return
    if len(inner) == 1 and isinstance(inner[0], ast.If) and not inner[0].orelse \
            and ast.unparse(inner[0].test) in tuple("not " + t for t in skip_tests) \
            and [ast.unparse(b) for b in inner[0].body if not _skippable(b)] == [f"{self_}.parse_field({v})"]:
        return
    raise TranslationError("the loop of parse_fields no longer skips `_`-fields and parses every other field")


def _lean_cond(c: Cond, atom_prefix: str = "") -> str:
    if c[0] == "atom":
        return f"(.atom .{c[1]})"
    if c[0] == "not":
        return f"(.not {_lean_cond(c[1])})"
    if c[0] in ("and", "or"):
        return f"(.{c[0]} {_lean_cond(c[1])} {_lean_cond(c[2])})"
    if c[0] == "true":  # no primitive for `True`: x ∨ ¬x over an arbitrary atom of the respective table
        raise TranslationError("unconditional rule")
    raise TranslationError(f"bad condition {c}")


def _lean_cond_total(c: Cond, some_atom: str) -> str:
    if c[0] == "true":
        return f"(.or (.atom .{some_atom}) (.not (.atom .{some_atom})))"
    return _lean_cond(c)


def lean_of(rows, rules) -> str:
    drows = ",\n    ".join(f"({_lean_cond_total(c, 'isContainer')}, .{a})" for c, a in rows)
    mrows = ",\n    ".join(f"({_lean_cond_total(c, 'hasParent')}, [{', '.join('.' + e for e in es)}])" for c, es in rules)
    return f"""import KrroodVerif.Props.C06T
/-! GENERATED by harness/translate/c06_translate.py from {SOURCE} — do not edit -/
namespace KrroodVerif.OrmGen.Translated
open KrroodVerif.OrmGen

/-- the decision list read off the current source of `WrappedTable.parse_field` (every row carries its path condition) -/
def dispatch : DispatchTable :=
  [ {drows} ]

/-- the rules read off the current source of `WrappedTable.create_mapper_args` -/
def mapperRules : MapperRules :=
  [ {mrows} ]

/-- the current source decides every one of the 2⁹ predicate vectors like the table all C06 theorems are about -/
theorem C06_dispatch_translated_eq_model : dispatchExtEq dispatch OrmGen.dispatch = true := by decide

/-- the current `create_mapper_args` emits the same entries as the pinned rules under all 2³ conditions -/
theorem C06_mapper_translated_eq_model : mapperExtEq mapperRules OrmGen.mapperRules = true := by decide

/-- the current source maps every field shape of the grammar the way the property demands -/
theorem C06_dispatch_translated_ok : DispatchOk dispatch := by decide

/-- root: discriminator + polymorphic_on; every class of a hierarchy: own identity; every child: inherit_condition -/
theorem C06_mapper_translated_ok : MapperOk mapperRules := by decide

/-- hence the generator driven by the regenerated tables is the model's, and it is complete / valid / equal to the
specification on every well-formed class model; every child DAO names its join condition -/
theorem C06_translated_meets_property (q : Quirks) (m : ClassModel) :
    generateT dispatch mapperRules q m = generate q m ∧
    (WF m → Complete m (generateT dispatch mapperRules q m) ∧ Valid (generateT dispatch mapperRules Quirks.none m) ∧
      observe (generateT dispatch mapperRules q m) = Spec.expected m) ∧
    inheritConditionsGiven mapperRules m = true :=
  C06_of_translated_tables C06_dispatch_translated_eq_model C06_mapper_translated_eq_model
    C06_dispatch_translated_ok C06_mapper_translated_ok q m
end KrroodVerif.OrmGen.Translated
"""


def translate(source: str) -> str:
    rows, rules = tables_of(source)
    return lean_of(rows, rules)


def generate(repo: Path) -> str:
    return translate((Path(repo) / SOURCE).read_text())


if __name__ == "__main__":
    import sys
    print(generate(Path(sys.argv[1] if len(sys.argv) > 1 else "/repo")))
