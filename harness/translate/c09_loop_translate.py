"""Translator (Python AST -> Lean 4 `LoopShape`) for the COUNTING LOOP of C09:

  ResultQuantifier._evaluate__ / _assert_satisfaction_of_quantification_constraints_ / evaluate
  The._evaluate__ / The.evaluate / The._quantification_constraint_ (default factory), class An      (symbolic.py)

Output: a Lean file defining `Translated.rawShape` (effects of the loop body in SOURCE order), `Translated.shape`
(the same after the normalisation below) and the per-run proof obligations, all by `decide`:

  C09_loop_shape_ok       : ShapeOk Translated.rawShape
  C09_loop_shape_eq_model : Translated.shape = Quant.shape

With `Props/C09Shape.lean` (proved once, unbounded) the first gives `interpLoop rawShape = Quant.run = Quant.spec`,
the consumed-count, the three outcomes of `the` and the independence of interleaved evaluations, for ALL inputs.

STRICT: every statement of the translated methods must be one of the recognised shapes listed in `_Loop`; anything
else raises TranslationError (the check then searches for a concrete failing input).
NORMALISING: local names are irrelevant (counter, stream and loop variables are recognised by their role); the
independent prologue statements may come in any order; `c += k` / `c = c + k` / `c = k + c`; positional or keyword
`done=` / `parent=`; the constraint check may be the helper method or the same guarded call inlined; `if c:` / `if c
is not None:`; a helper `yield self.<m>(value)` is inlined; `yield from map(f, g())` / the equivalent `for` loop in
`evaluate`; for a frame-LOCAL counter an increment is moved in front of the checks / the yield it follows, the checks'
addend being adjusted (`check(c + 1); c += 1`  ==  `c += 1; check(c)`; nothing can observe a local between the two).
"""
from __future__ import annotations

import ast
import copy
from pathlib import Path

HELPER = "_assert_satisfaction_of_quantification_constraints_"
CONSTRAINT = "self._quantification_constraint_"
THE_ERR = {
    "NoSolutionFound": "noSolution", "MultipleSolutionFound": "multipleSolutions",
    "LessThanExpectedNumberOfSolutions": "less", "GreaterThanExpectedNumberOfSolutions": "greater",
}


class TranslationError(Exception):
    pass


def _u(e) -> str:
    return ast.unparse(e)


def _is_doc(s) -> bool:
    return isinstance(s, ast.Pass) or (isinstance(s, ast.Expr) and isinstance(s.value, ast.Constant))


def _nat(e) -> int:
    if isinstance(e, ast.Constant) and isinstance(e.value, int) and not isinstance(e.value, bool) and e.value >= 0:
        return e.value
    raise TranslationError(f"not a natural-number literal: {_u(e)}")


def _boollit(e) -> bool:
    if isinstance(e, ast.Constant) and isinstance(e.value, bool):
        return e.value
    raise TranslationError(f"`done` is not a literal True/False: {_u(e)}")


def _methods(cls: ast.ClassDef):
    return {s.name: s for s in cls.body if isinstance(s, (ast.FunctionDef, ast.AsyncFunctionDef))}


def _params(fn) -> list:
    a = fn.args
    if a.vararg or a.kwarg or a.kwonlyargs or a.posonlyargs:
        raise TranslationError(f"{fn.name}: unsupported parameter list")
    return [x.arg for x in a.args]


def _bind(fn, call: ast.Call) -> dict:
    """parameter name -> argument expression of a call `self.<fn>(...)`"""
    ps = _params(fn)[1:]
    if len(call.args) > len(ps):
        raise TranslationError(f"too many arguments: {_u(call)}")
    out = dict(zip(ps, call.args))
    for kw in call.keywords:
        if kw.arg is None or kw.arg not in ps or kw.arg in out:
            raise TranslationError(f"bad keyword argument: {_u(call)}")
        out[kw.arg] = kw.value
    if set(out) != set(ps):
        raise TranslationError(f"missing argument: {_u(call)}")
    return out


class _Loop:
    """abstract reading of ResultQuantifier._evaluate__"""

    def __init__(self, cls: ast.ClassDef):
        self.cls = cls
        self.methods = _methods(cls)
        self.fn = self.methods.get("_evaluate__")
        if self.fn is None:
            raise TranslationError("ResultQuantifier._evaluate__ not found")
        if _params(self.fn) != ["self", "sources", "parent"]:
            raise TranslationError("ResultQuantifier._evaluate__: signature changed")
        self.counter = None        # ("local", name) | ("attr", name)
        self.scope = None
        self.init = None
        self.filter = None
        self.stream_var = None
        self.loop_vars = set()
        self.body = None
        self.final = []
        self.seen = set()
        self._block(self.fn.body, top=True)
        for need in ("sources-default", "bound-shortcut", "eval-parent"):
            if need not in self.seen:
                raise TranslationError(f"_evaluate__: expected prologue statement missing ({need})")
        if self.body is None:
            raise TranslationError("_evaluate__: no loop over the child's results")
        if self.counter is None:
            # no counter at all: an uncounted loop
            self.counter, self.scope, self.init = ("local", "?"), "frameLocal", 0
        if self.scope == "attrResetAtEnd":
            self._check_field_default()

    # -- statements before / around / after the loop ---------------------------------------------------------
    def _block(self, stmts, top):
        for s in stmts:
            if _is_doc(s):
                continue
            if self.body is not None and not isinstance(s, ast.Try):
                self.final.extend(self._post(s))
                continue
            src = _u(s)
            if src == "sources = sources or {}":
                self._once("sources-default"); continue
            if src == "self._eval_parent_ = parent":
                self._once("eval-parent"); continue
            if isinstance(s, ast.If) and _u(s.test) == "self._id_ in sources":
                if "sources-default" not in self.seen:
                    raise TranslationError("bound-shortcut before `sources = sources or {}`")
                body = [x for x in s.body if not _is_doc(x)]
                if s.orelse or [_u(x) for x in body] != ["yield OperationResult(sources, False, self)", "return"]:
                    raise TranslationError(f"unrecognised bound-shortcut: {src}")
                self._once("bound-shortcut"); continue
            if isinstance(s, ast.Assign) and len(s.targets) == 1:
                t = s.targets[0]
                if isinstance(s.value, ast.Constant):
                    v = _nat(s.value)
                    if isinstance(t, ast.Name):
                        self._set_counter(("local", t.id), "frameLocal", v); continue
                    if isinstance(t, ast.Attribute) and _u(t.value) == "self":
                        self._set_counter(("attr", t.attr), "attrResetAtStart", v); continue
                if isinstance(t, ast.Name) and self.stream_var is None and self.filter is None:
                    self.filter = self._stream(s.value)
                    self.stream_var = t.id
                    continue
            if isinstance(s, ast.AnnAssign) and s.value is not None and isinstance(s.target, ast.Name) \
                    and isinstance(s.value, ast.Constant):
                self._set_counter(("local", s.target.id), "frameLocal", _nat(s.value)); continue
            if isinstance(s, ast.For):
                self._for(s); continue
            if isinstance(s, ast.Try) and top and self.body is None:
                if s.handlers or s.orelse or len([x for x in s.finalbody if not _is_doc(x)]) != 1:
                    raise TranslationError("unrecognised try statement around the loop")
                f = [x for x in s.finalbody if not _is_doc(x)][0]
                if not (isinstance(f, ast.Assign) and len(f.targets) == 1 and isinstance(f.targets[0], ast.Attribute)
                        and _u(f.targets[0].value) == "self"):
                    raise TranslationError(f"unrecognised finally: {_u(f)}")
                self._set_counter(("attr", f.targets[0].attr), "attrResetAtEnd", _nat(f.value))
                self._block(s.body, top=False)
                if self.body is None:
                    raise TranslationError("try/finally without the loop inside")
                continue
            raise TranslationError(f"unrecognised statement in _evaluate__: {src}")

    def _once(self, what):
        if what in self.seen:
            raise TranslationError(f"statement repeated: {what}")
        if self.body is not None:
            raise TranslationError(f"{what} after the loop")
        self.seen.add(what)

    def _set_counter(self, ref, scope, init):
        if self.counter is not None:
            raise TranslationError("more than one counter initialisation")
        self.counter, self.scope, self.init = ref, scope, init

    def _check_field_default(self):
        name = self.counter[1]
        for s in self.cls.body:
            if isinstance(s, ast.AnnAssign) and isinstance(s.target, ast.Name) and s.target.id == name and s.value is not None:
                v = s.value
                if isinstance(v, ast.Call) and _u(v.func) in ("field", "dataclasses.field"):
                    kws = {k.arg: k.value for k in v.keywords}
                    if "default" in kws and _nat(kws["default"]) == self.init:
                        return
                elif isinstance(v, ast.Constant) and _nat(v) == self.init:
                    return
        raise TranslationError(f"counter attribute {name}: no class-level default equal to its reset value")

    def _stream(self, e) -> str:
        """the child's result stream, possibly filtered by the results' truth flag"""
        def base(x):
            return (isinstance(x, ast.Call) and _u(x.func) == "self._child_._evaluate__"
                    and [_u(a) for a in x.args] + [f"{k.arg}={_u(k.value)}" for k in x.keywords]
                    in (["sources", "parent=self"], ["sources", "self"]))
        if base(e):
            return "all"
        pred = None
        if isinstance(e, ast.Call) and _u(e.func) == "filter" and len(e.args) == 2 and not e.keywords and base(e.args[1]) \
                and isinstance(e.args[0], ast.Lambda) and len(e.args[0].args.args) == 1:
            pred = (e.args[0].args.args[0].arg, e.args[0].body)
        if isinstance(e, ast.GeneratorExp) and len(e.generators) == 1 and base(e.generators[0].iter) \
                and isinstance(e.generators[0].target, ast.Name) and isinstance(e.elt, ast.Name) \
                and e.elt.id == e.generators[0].target.id and len(e.generators[0].ifs) == 1:
            pred = (e.elt.id, e.generators[0].ifs[0])
        if pred is not None:
            v, p = pred
            src = _u(p)
            if src in (f"{v}.is_true", f"not {v}.is_false"):
                return "onlyTrue"
            if src in (f"{v}.is_false", f"not {v}.is_true"):
                return "onlyFalse"
        raise TranslationError(f"unrecognised source of child results: {_u(e)}")

    # -- the loop ------------------------------------------------------------------------------------------
    def _for(self, s: ast.For):
        if s.orelse or not isinstance(s.target, ast.Name):
            raise TranslationError("unrecognised for statement")
        if isinstance(s.iter, ast.Name) and s.iter.id == self.stream_var:
            pass
        elif self.stream_var is None and self.filter is None:
            self.filter = self._stream(s.iter)
        else:
            raise TranslationError(f"loop over something else than the child's results: {_u(s.iter)}")
        self.loop_vars = {s.target.id}
        evs = []
        self._body(s.body, evs, ret=False)
        if sum(1 for e in evs if e[0] == "yield") != 1:
            raise TranslationError("the loop body does not yield exactly once per child result")
        self.body = evs

    def _is_counter(self, e) -> bool:
        if self.counter is None:
            return False
        kind, name = self.counter
        if kind == "local":
            return isinstance(e, ast.Name) and e.id == name
        return isinstance(e, ast.Attribute) and _u(e.value) == "self" and e.attr == name

    def _adopt_counter(self, t):
        """a counter that is only reset in `finally`/never initialised in the prologue is recognised at its increment"""
        if self.counter is None and isinstance(t, ast.Attribute) and _u(t.value) == "self":
            raise TranslationError(f"counter attribute self.{t.attr} is never initialised by _evaluate__")

    def _count_expr(self, e) -> int:
        """`counter` -> 0, `counter + k` / `k + counter` -> k"""
        if self._is_counter(e):
            return 0
        if isinstance(e, ast.BinOp) and isinstance(e.op, ast.Add):
            if self._is_counter(e.left):
                return _nat(e.right)
            if self._is_counter(e.right):
                return _nat(e.left)
        raise TranslationError(f"the count passed to the constraint is not the loop's counter: {_u(e)}")

    def _guard(self, t) -> bool:
        return _u(t) in (CONSTRAINT, CONSTRAINT + " is not None", CONSTRAINT + " != None")

    def _guarded_call(self, s, env):
        """`if <constraint>: <constraint>.assert_satisfaction(A, self, D)` -> (A, D) with parameters replaced by `env`"""
        if not (isinstance(s, ast.If) and self._guard(s.test) and not s.orelse):
            return None
        body = [x for x in s.body if not _is_doc(x)]
        if len(body) != 1 or not (isinstance(body[0], ast.Expr) and isinstance(body[0].value, ast.Call)):
            raise TranslationError(f"unrecognised guarded statement: {_u(s)}")
        c = body[0].value
        if _u(c.func) != CONSTRAINT + ".assert_satisfaction" or c.keywords or len(c.args) != 3 or _u(c.args[1]) != "self":
            raise TranslationError(f"unrecognised constraint call: {_u(c)}")
        sub = lambda e: env.get(e.id, e) if isinstance(e, ast.Name) else e
        a = c.args[0]
        if isinstance(a, ast.BinOp):
            a = copy.copy(a); a.left, a.right = sub(a.left), sub(a.right)
        else:
            a = sub(a)
        return a, sub(c.args[2])

    def _check(self, s):
        """a constraint check statement -> ("check", add, done) or None"""
        got = self._guarded_call(s, {})
        if got is None and isinstance(s, ast.Expr) and isinstance(s.value, ast.Call) and _u(s.value.func) == "self." + HELPER:
            h = self.methods.get(HELPER)
            if h is None:
                raise TranslationError(f"{HELPER} not found")
            env = _bind(h, s.value)
            hb = [x for x in h.body if not _is_doc(x)]
            if len(hb) != 1:
                raise TranslationError(f"{HELPER}: unrecognised body")
            got = self._guarded_call(hb[0], env)
            if got is None:
                raise TranslationError(f"{HELPER}: unrecognised body")
        if got is None:
            return None
        a, d = got
        return ("check", self._count_expr(a), _boollit(d))

    def _body(self, stmts, evs, ret):
        stmts = [x for x in stmts if not _is_doc(x)]
        for i, s in enumerate(stmts):
            src = _u(s)
            if isinstance(s, ast.AugAssign) and isinstance(s.op, ast.Add):
                self._adopt_counter(s.target)
                if self._is_counter(s.target):
                    evs.append(("incr", _nat(s.value))); continue
            if isinstance(s, ast.Assign) and len(s.targets) == 1 and self._is_counter(s.targets[0]):
                evs.append(("incr", self._count_expr(s.value))); continue
            ck = self._check(s)
            if ck is not None:
                evs.append(ck); continue
            if isinstance(s, ast.If) and _u(s.test) == "self._var_" and not s.orelse and len(s.body) == 1:
                b = _u(s.body[0])
                if any(b == f"{v}[self._id_] = {v}[self._var_._id_]" for v in self.loop_vars):
                    if any(e[0] == "yield" for e in evs):
                        raise TranslationError("the quantifier's own binding is set after the yield")
                    continue
            yielded = None
            if isinstance(s, ast.Expr) and isinstance(s.value, ast.Yield) and not ret:
                yielded = s.value.value
            if isinstance(s, ast.Return) and ret and i == len(stmts) - 1:
                yielded = s.value
            if yielded is not None:
                if any(_u(yielded) == f"OperationResult({v}.bindings, False, self)" for v in self.loop_vars):
                    evs.append(("yield",)); continue
                # `yield self.<m>(value)`: inline the helper
                if isinstance(yielded, ast.Call) and isinstance(yielded.func, ast.Attribute) and _u(yielded.func.value) == "self" \
                        and yielded.func.attr in self.methods and not ret and len(yielded.args) == 1 and not yielded.keywords \
                        and isinstance(yielded.args[0], ast.Name) and yielded.args[0].id in self.loop_vars:
                    m = self.methods[yielded.func.attr]
                    ps = _params(m)
                    if len(ps) != 2:
                        raise TranslationError(f"helper {m.name}: unsupported signature")
                    self.loop_vars.add(ps[1])
                    self._body(m.body, evs, ret=True)
                    continue
            raise TranslationError(f"unrecognised statement in the loop body: {src}")

    def _post(self, s):
        ck = self._check(s)
        if ck is None:
            raise TranslationError(f"unrecognised statement after the loop: {_u(s)}")
        return [ck]


def _normalise(evs, local: bool):
    """for a frame-local counter: move every increment to the front of the effects it follows (see module docstring)"""
    evs = list(evs)
    if not local:
        return evs
    changed = True
    while changed:
        changed = False
        for i in range(1, len(evs)):
            if evs[i][0] != "incr":
                continue
            p = evs[i - 1]
            if p[0] == "yield":
                evs[i - 1], evs[i] = evs[i], p; changed = True; break
            if p[0] == "check" and p[1] >= evs[i][1]:
                evs[i - 1], evs[i] = evs[i], ("check", p[1] - evs[i][1], p[2]); changed = True; break
    return evs


def _user_evaluate(fn):
    """ResultQuantifier.evaluate: reset of the evaluation state, then a LAZY map over `_evaluate__()`"""
    if _params(fn) != ["self"]:
        raise TranslationError("ResultQuantifier.evaluate: signature changed")
    body = [s for s in fn.body if not _is_doc(s)]
    if not body:
        raise TranslationError("ResultQuantifier.evaluate: empty")
    for s in body[:-1]:
        src = _u(s)
        if src == "SymbolGraph().remove_dead_instances()":
            continue
        if isinstance(s, ast.For) and isinstance(s.target, ast.Name) and _u(s.iter) == "self._all_nodes_" and not s.orelse \
                and [_u(x) for x in s.body] == [f"{s.target.id}._reset_evaluation_state_()"]:
            continue
        raise TranslationError(f"unrecognised statement in ResultQuantifier.evaluate: {src}")
    last = body[-1]
    if _u(last) == "yield from map(self._process_result_, self._evaluate__())":
        return
    if isinstance(last, ast.For) and isinstance(last.target, ast.Name) and _u(last.iter) == "self._evaluate__()" \
            and not last.orelse and [_u(x) for x in last.body] == [f"yield self._process_result_({last.target.id})"]:
        return
    raise TranslationError(f"ResultQuantifier.evaluate does not lazily map _evaluate__(): {_u(last)}")


def _constraint_literal(e) -> str:
    if isinstance(e, ast.Call) and isinstance(e.func, ast.Name) and not e.keywords:
        if e.func.id in ("Exactly", "AtLeast", "AtMost") and len(e.args) == 1:
            return f".{e.func.id[0].lower() + e.func.id[1:]} {_nat(e.args[0])}"
        if e.func.id == "Range" and len(e.args) == 2:
            a, b = e.args
            if isinstance(a, ast.Call) and _u(a.func) == "AtLeast" and isinstance(b, ast.Call) and _u(b.func) == "AtMost" \
                    and len(a.args) == 1 and len(b.args) == 1 and _nat(a.args[0]) <= _nat(b.args[0]):
                return f".range {_nat(a.args[0])} {_nat(b.args[0])}"
    raise TranslationError(f"unrecognised default constraint of The: {_u(e)}")


def _handlers(t: ast.Try, where: str) -> dict:
    if t.orelse or t.finalbody:
        raise TranslationError(f"{where}: try with else/finally")
    table = {}
    for h in t.handlers:
        if not isinstance(h.type, ast.Name) or h.type.id not in ("LessThanExpectedNumberOfSolutions", "GreaterThanExpectedNumberOfSolutions"):
            raise TranslationError(f"{where}: unrecognised handler {_u(h.type) if h.type else 'bare except'}")
        body = [x for x in h.body if not _is_doc(x)]
        if len(body) != 1 or not isinstance(body[0], ast.Raise) or body[0].exc is None:
            raise TranslationError(f"{where}: handler does not just raise")
        exc = body[0].exc
        name = exc.func.id if isinstance(exc, ast.Call) and isinstance(exc.func, ast.Name) else None
        if name not in THE_ERR or [_u(a) for a in exc.args] != ["self"] or exc.keywords:
            raise TranslationError(f"{where}: unrecognised raise {_u(body[0])}")
        key = "less" if h.type.id.startswith("Less") else "greater"
        if key in table:
            raise TranslationError(f"{where}: two handlers for {h.type.id}")
        table[key] = THE_ERR[name]
    return table


def _the(cls: ast.ClassDef) -> dict:
    dflt = None
    for s in cls.body:
        if isinstance(s, ast.AnnAssign) and isinstance(s.target, ast.Name) and s.target.id == "_quantification_constraint_":
            v = s.value
            if isinstance(v, ast.Call) and _u(v.func) == "field":
                kws = {k.arg: k.value for k in v.keywords}
                if set(kws) == {"init", "default_factory"} and _u(kws["init"]) == "False" and isinstance(kws["default_factory"], ast.Lambda) \
                        and not kws["default_factory"].args.args:
                    dflt = _constraint_literal(kws["default_factory"].body)
            if dflt is None:
                raise TranslationError(f"The._quantification_constraint_: unrecognised default {_u(s)}")
    if dflt is None:
        raise TranslationError("The has no default quantification constraint")
    ms = _methods(cls)
    extra = set(ms) - {"evaluate", "_evaluate__"}
    if extra:
        raise TranslationError(f"The defines further methods: {sorted(extra)}")
    inner, outer = {}, {}
    if "_evaluate__" in ms:
        m = ms["_evaluate__"]
        if _params(m) != ["self", "sources", "parent"]:
            raise TranslationError("The._evaluate__: signature changed")
        body = [x for x in m.body if not _is_doc(x)]
        call = ("yield from super()._evaluate__(sources, parent=parent)", "yield from super()._evaluate__(sources, parent)")
        if len(body) == 1 and isinstance(body[0], ast.Try) and [_u(x) for x in body[0].body if not _is_doc(x)] in ([call[0]], [call[1]]):
            inner = _handlers(body[0], "The._evaluate__")
        elif len(body) == 1 and _u(body[0]) in call:
            inner = {}
        else:
            raise TranslationError("The._evaluate__: unrecognised body")
    if "evaluate" not in ms:
        raise TranslationError("The.evaluate not found")
    m = ms["evaluate"]
    if _params(m) != ["self"]:
        raise TranslationError("The.evaluate: signature changed")
    body = [x for x in m.body if not _is_doc(x)]
    if len(body) == 1 and isinstance(body[0], ast.Try):
        outer = _handlers(body[0], "The.evaluate")
        body = [x for x in body[0].body if not _is_doc(x)]
    ret = body[0] if len(body) == 1 else None
    ok = (isinstance(ret, ast.Return) and isinstance(ret.value, ast.Subscript) and _u(ret.value.value) == "list(super().evaluate())")
    if not ok:
        raise TranslationError("The.evaluate: unrecognised body")
    pick = _nat(ret.value.slice)
    if inner and outer:
        raise TranslationError("The renames the count errors in _evaluate__ AND in evaluate")
    site, table = ("inner", inner) if inner else ("outer", outer) if outer else ("none", {})
    return {"dflt": dflt, "site": site, "onLess": table.get("less", "less"), "onGreater": table.get("greater", "greater"),
            "pick": pick}


def describe(source: str) -> dict:
    tree = ast.parse(source)
    classes = {c.name: c for c in tree.body if isinstance(c, ast.ClassDef)}
    for need in ("ResultQuantifier", "An", "The"):
        if need not in classes:
            raise TranslationError(f"class {need} not found")
    for name in ("An", "The"):
        if [_u(b).split("[")[0] for b in classes[name].bases] != ["ResultQuantifier"]:
            raise TranslationError(f"{name} no longer derives from ResultQuantifier only")
    if any(not _is_doc(s) and not (isinstance(s, ast.Expr) and _u(s) == "...") for s in classes["An"].body):
        raise TranslationError("An is no longer an empty subclass of ResultQuantifier")
    rq = classes["ResultQuantifier"]
    lp = _Loop(rq)
    ms = _methods(rq)
    if "evaluate" not in ms:
        raise TranslationError("ResultQuantifier.evaluate not found")
    _user_evaluate(ms["evaluate"])
    the = _the(classes["The"])
    local = lp.scope == "frameLocal"
    return {"counter": lp.scope, "init": lp.init, "filter": lp.filter or "all", "raw_body": lp.body,
            "body": _normalise(lp.body, local), "final": lp.final, "the": the}


def _ev(e) -> str:
    if e[0] == "incr":
        return f".incr {e[1]}"
    if e[0] == "check":
        return f".check {e[1]} {'true' if e[2] else 'false'}"
    return ".yield"


def _shape(d: dict, body_key: str) -> str:
    t = d["the"]
    return ("{ counter := ." + d["counter"] + f", init := {d['init']}, filter := .{d['filter']},\n"
            "    body := [" + ", ".join(_ev(e) for e in d[body_key]) + "], final := [" + ", ".join(_ev(e) for e in d["final"]) + "],\n"
            f"    the := {{ dflt := {t['dflt']}, site := .{t['site']}, onLess := .{t['onLess']}, onGreater := .{t['onGreater']}, "
            f"pick := {t['pick']} }} }}")


OBLIGATIONS = ["KrroodVerif.Quant.Translated.C09_loop_shape_ok", "KrroodVerif.Quant.Translated.C09_loop_shape_eq_model"]


def render(d: dict) -> str:
    return f"""import KrroodVerif.Props.C09Shape
/-! GENERATED by harness/translate/c09_loop_translate.py from symbolic.py — do not edit -/
namespace KrroodVerif.Quant.Translated
open KrroodVerif.Quant

/-- the counting loop as the source has it (effects of the loop body in source order) -/
def rawShape : LoopShape :=
  {_shape(d, 'raw_body')}

/-- the same after the translator's normalisation -/
def shape : LoopShape :=
  {_shape(d, 'body')}

/-- the loop of the current source satisfies the condition under which `Props/C09Shape` proves, for ALL inputs:
`interpLoop = Quant.run = Quant.spec`, `C09_shape_ok_consumed`, `C09_shape_ok_the`, `C09_shape_ok_sched` -/
theorem C09_loop_shape_ok : ShapeOk rawShape := by decide

/-- the loop of the current source is, up to normalisation, the loop the hand-written model transcribes -/
theorem C09_loop_shape_eq_model : shape = KrroodVerif.Quant.shape := by decide

end KrroodVerif.Quant.Translated
"""


def generate(repo: Path) -> str:
    src = (repo / "src/krrood/entity_query_language/symbolic.py").read_text()
    return render(describe(src))


if __name__ == "__main__":
    import sys
    print(generate(Path(sys.argv[1] if len(sys.argv) > 1 else "/repo")))
