"""Translator (Python AST -> Lean 4) for the EVALUATION METHODS of the entity query language (C01 / C02 / C03 / C10).

From the CURRENT `symbolic.py` it regenerates `Translated.irTable : Eql.IR.Table` (`lean/KrroodVerif/Model/EqlIR.lean`):
the bodies of

* `Variable._evaluate__` (also `Literal`), `DomainMapping._evaluate__`,
  `DomainMapping._build_operation_result_and_update_truth_value_`, `_apply_mapping_` of `Attribute`/`Index`/`Call`/`Flatten`;
* `Comparator._evaluate__`, `Comparator.apply_operation`, `Comparator.get_first_second_operands`;
* `Not._evaluate__`, `AND._evaluate__`, `AND.evaluate_right`, `OR.evaluate_left`, `OR.evaluate_right`,
  `Union._evaluate__`, `ElseIf._evaluate__`;
* `ForAll._evaluate__`, `ForAll.get_all_candidate_solutions`, `ForAll.evaluate_condition`,
  `ForAll.condition_unique_variable_ids`, `Exists._evaluate__`, `QuantifiedConditional.variable` / `.condition`;
* `QueryObjectDescriptor._evaluate__`, `.get_constrained_values`, `.evaluate_selected_variables`,
  `.evaluate_conclusions_and_update_bindings`, `.any_selected_variable_is_inferred_and_unbound`,
  `ResultQuantifier._evaluate__`, `OperationResult.is_true`

as terms of a small Python-shaped generator IR (`Eql.IR.St` statements over `Eql.IR.PE` expressions), plus the DISPATCH
table: for every concrete node class of the model and every method name above, the class whose definition the C3 MRO of
the current class statements selects (so an override added in a subclass changes the table).

The generated Lean file states one obligation the kernel re-checks on every run by `decide`:
`C01_irTable_translated_eq_model : Translated.irTable = Eql.IR.irTable` — the table the interpreter `Eql.IR.runIR` is
run on (driver cross-check `model_ir=` against `Eql.eval` on every case) and the theorems of `Props/C01IR.lean` are about.

STRICT: every statement / expression node type that is not listed in `_stmt` / `_expr` raises `TranslationError`, and so
does a missing method (the check then searches for a concrete failing input through the correspondence).
NORMALISING: docstrings, comments, `pass`, type annotations (`x: T = e` is `x = e`), local names (every name bound inside
a method — assignment targets, loop and comprehension targets, lambda parameters — is renamed `v0, v1, …` in order of
first binding; parameters keep their names: keyword arguments refer to them), `elif` chains (= nested `if`), an `else:`
after a branch that always leaves, `filter(lambda x: c, it)` vs `(x for x in it if c)`, parenthesisation, and the order
of adjacent independent simple assignments do not change the output.
"""
from __future__ import annotations

import ast
from pathlib import Path
from typing import Dict, List, Optional, Tuple

from translate.c02_translate import TranslationError, mro, _classes  # C3 linearisation of the class statements

SYMBOLIC = "src/krrood/entity_query_language/symbolic.py"

# (class, method): the methods whose bodies are translated
METHODS: List[Tuple[str, str]] = [
    ("OperationResult", "is_true"),
    ("ResultQuantifier", "_evaluate__"),
    ("QueryObjectDescriptor", "_evaluate__"),
    ("QueryObjectDescriptor", "any_selected_variable_is_inferred_and_unbound"),
    ("QueryObjectDescriptor", "evaluate_conclusions_and_update_bindings"),
    ("QueryObjectDescriptor", "get_constrained_values"),
    ("QueryObjectDescriptor", "evaluate_selected_variables"),
    ("Variable", "_evaluate__"),
    ("DomainMapping", "_evaluate__"),
    ("DomainMapping", "_build_operation_result_and_update_truth_value_"),
    ("Attribute", "_apply_mapping_"),
    ("Index", "_apply_mapping_"),
    ("Call", "_apply_mapping_"),
    ("Flatten", "_apply_mapping_"),
    ("Comparator", "_evaluate__"),
    ("Comparator", "apply_operation"),
    ("Comparator", "get_first_second_operands"),
    ("Not", "_evaluate__"),
    ("AND", "_evaluate__"),
    ("AND", "evaluate_right"),
    ("OR", "evaluate_left"),
    ("OR", "evaluate_right"),
    ("Union", "_evaluate__"),
    ("ElseIf", "_evaluate__"),
    ("QuantifiedConditional", "variable"),
    ("QuantifiedConditional", "condition"),
    ("ForAll", "condition_unique_variable_ids"),
    ("ForAll", "_evaluate__"),
    ("ForAll", "get_all_candidate_solutions"),
    ("ForAll", "evaluate_condition"),
    ("Exists", "_evaluate__"),
]

# concrete classes of the model's grammar x the method names resolved along their MRO
DISPATCH_CLASSES = ["Variable", "Literal", "Attribute", "Index", "Call", "Flatten", "Comparator", "Not", "AND", "Union",
                    "ElseIf", "ForAll", "Exists", "An", "Entity", "SetOf"]
DISPATCH_NAMES = ["_evaluate__", "_build_operation_result_and_update_truth_value_", "_apply_mapping_", "apply_operation",
                  "get_first_second_operands", "evaluate_left", "evaluate_right", "get_all_candidate_solutions",
                  "evaluate_condition", "condition_unique_variable_ids", "variable", "condition",
                  "get_constrained_values", "evaluate_selected_variables", "evaluate_conclusions_and_update_bindings",
                  "any_selected_variable_is_inferred_and_unbound"]


def _q(s: str) -> str:
    return '"' + s.replace("\\", "\\\\").replace('"', '\\"') + '"'


def _lst(items: List[str]) -> str:
    out = ".nil"
    for it in reversed(items):
        out = f"(.cons {it} {out})"
    return out


class _Scope:
    """canonical names for the names bound inside one method"""

    def __init__(self, params: List[str]):
        self.params = list(params)
        self.map: Dict[str, str] = {}
        self.stack: List[Tuple[str, Optional[str]]] = []
        self.nlocals = 0

    def bind(self, name: str) -> str:
        if name in self.params:
            return name
        if name not in self.map:
            self.map[name] = f"v{self.nlocals}"
            self.nlocals += 1
        return self.map[name]

    def fresh(self, name: str):
        """a name bound in its own scope (lambda parameter, comprehension target): a new canonical name; returns the
        token `restore` needs"""
        old = self.map.get(name)
        self.counter = getattr(self, "counter", 0)
        self.map[name] = f"w{self.depth()}"
        self.stack.append((name, old))
        return len(self.stack) - 1

    def depth(self) -> int:
        return len(self.stack)

    def restore(self, mark: int):
        while len(self.stack) > mark:
            name, old = self.stack.pop()
            if old is None:
                self.map.pop(name, None)
            else:
                self.map[name] = old

    def use(self, name: str) -> str:
        if name in self.params:
            return name
        return self.map.get(name, name)  # a global (class / function name) keeps its name


BOOL_OPS = {ast.And: "and", ast.Or: "or"}
CMP_OPS = {ast.In: "in", ast.NotIn: "notin", ast.Is: "is", ast.IsNot: "isnot", ast.Eq: "==", ast.NotEq: "!=",
           ast.Lt: "<", ast.LtE: "<=", ast.Gt: ">", ast.GtE: ">="}


def _target(t: ast.expr, sc: _Scope, scoped: bool = False) -> str:
    if isinstance(t, ast.Name):
        if scoped:
            if t.id in sc.params:
                raise TranslationError(f"comprehension target shadows parameter {t.id}")
            sc.fresh(t.id)
            return f"(.nm {_q(sc.map[t.id])})"
        return f"(.nm {_q(sc.bind(t.id))})"
    if isinstance(t, ast.Tuple):
        return f"(.tup {_lst([_target(e, sc, scoped) for e in t.elts])})"
    if isinstance(t, (ast.Attribute, ast.Subscript)):
        return _expr(t, sc)
    raise TranslationError(f"assignment target {ast.dump(t)[:80]}")


def _gens(generators: List[ast.comprehension], sc: _Scope) -> str:
    out = []
    for g in generators:
        if g.is_async:
            raise TranslationError("async comprehension")
        it = _expr(g.iter, sc)          # the iterable is evaluated before the target is bound
        tg = _target(g.target, sc, scoped=True)
        out.append(f"(.gen {tg} {it} {_lst([_expr(c, sc) for c in g.ifs])})")
    return _lst(out)


def _expr(e: ast.expr, sc: _Scope) -> str:
    if isinstance(e, ast.Name):
        if e.id == "self":
            return ".self"
        return f"(.nm {_q(sc.use(e.id))})"
    if isinstance(e, ast.Constant):
        if e.value is None or isinstance(e.value, (bool, int, str)):
            return f"(.cst {_q(repr(e.value))})"
        raise TranslationError(f"constant {e.value!r}")
    if isinstance(e, ast.Attribute):
        return f"(.att {_expr(e.value, sc)} {_q(e.attr)})"
    if isinstance(e, ast.Call):
        # `filter(lambda x: c, it)`  ==  `(x for x in it if c)`
        if (isinstance(e.func, ast.Name) and e.func.id == "filter" and len(e.args) == 2 and not e.keywords
                and isinstance(e.args[0], ast.Lambda) and len(e.args[0].args.args) == 1
                and not (e.args[0].args.vararg or e.args[0].args.kwarg or e.args[0].args.kwonlyargs
                         or e.args[0].args.defaults or e.args[0].args.posonlyargs)):
            lam = e.args[0]
            it = _expr(e.args[1], sc)
            mark = sc.depth()
            sc.fresh(lam.args.args[0].arg)
            x = sc.map[lam.args.args[0].arg]
            out = (f"(.comp \"gen\" (.nm {_q(x)}) {_lst([f'(.gen (.nm {_q(x)}) {it} {_lst([_expr(lam.body, sc)])})'])})")
            sc.restore(mark)
            return out
        args = []
        for a in e.args:
            if isinstance(a, ast.Starred):
                args.append(f"(.splat {_expr(a.value, sc)})")
            else:
                args.append(_expr(a, sc))
        for k in e.keywords:
            if k.arg is None:
                args.append(f"(.splat (.splat {_expr(k.value, sc)}))")
            else:
                args.append(f"(.kw {_q(k.arg)} {_expr(k.value, sc)})")
        return f"(.call {_expr(e.func, sc)} {_lst(args)})"
    if isinstance(e, ast.UnaryOp) and isinstance(e.op, ast.Not):
        return f"(.un \"not\" {_expr(e.operand, sc)})"
    if isinstance(e, ast.BoolOp):
        op = BOOL_OPS[type(e.op)]
        vals = [_expr(v, sc) for v in e.values]
        out = vals[-1]
        for v in reversed(vals[:-1]):
            out = f"(.bin {_q(op)} {v} {out})"
        return out
    if isinstance(e, ast.Compare):
        if len(e.ops) != 1 or type(e.ops[0]) not in CMP_OPS:
            raise TranslationError(f"comparison {ast.unparse(e)[:80]}")
        return f"(.bin {_q(CMP_OPS[type(e.ops[0])])} {_expr(e.left, sc)} {_expr(e.comparators[0], sc)})"
    if isinstance(e, ast.Subscript):
        return f"(.idx {_expr(e.value, sc)} {_expr(e.slice, sc)})"
    if isinstance(e, ast.Dict):
        items = []
        for k, v in zip(e.keys, e.values):
            items.append(f"(.splat {_expr(v, sc)})" if k is None else f"(.kv {_expr(k, sc)} {_expr(v, sc)})")
        return f"(.dict {_lst(items)})"
    if isinstance(e, ast.List):
        return f"(.lst {_lst([_expr(x, sc) for x in e.elts])})"
    if isinstance(e, ast.Tuple):
        return f"(.tup {_lst([_expr(x, sc) for x in e.elts])})"
    if isinstance(e, ast.Lambda):
        a = e.args
        if a.vararg or a.kwarg or a.kwonlyargs or a.defaults or a.posonlyargs:
            raise TranslationError("lambda with non-plain parameters")
        mark = sc.depth()
        ps = []
        for p in a.args:
            sc.fresh(p.arg)
            ps.append(f"(.nm {_q(sc.map[p.arg])})")
        out = f"(.lam {_lst(ps)} {_expr(e.body, sc)})"
        sc.restore(mark)
        return out
    if isinstance(e, (ast.GeneratorExp, ast.ListComp)):
        mark = sc.depth()
        gens = _gens(e.generators, sc)
        kind = "gen" if isinstance(e, ast.GeneratorExp) else "list"
        out = f"(.comp {_q(kind)} {_expr(e.elt, sc)} {gens})"
        sc.restore(mark)
        return out
    if isinstance(e, ast.DictComp):
        mark = sc.depth()
        gens = _gens(e.generators, sc)
        out = f"(.dcomp {_expr(e.key, sc)} {_expr(e.value, sc)} {gens})"
        sc.restore(mark)
        return out
    raise TranslationError(f"expression {type(e).__name__}: {ast.unparse(e)[:80]}")


def _leaves(stmts: List[ast.stmt]) -> bool:
    """the statement list always leaves the enclosing block (return / raise / continue / break)"""
    if not stmts:
        return False
    s = stmts[-1]
    if isinstance(s, (ast.Return, ast.Raise, ast.Continue, ast.Break)):
        return True
    if isinstance(s, ast.If):
        return bool(s.orelse) and _leaves(s.body) and _leaves(s.orelse)
    return False


def _names(e: ast.AST) -> Tuple[set, set]:
    """(read, written) access paths of a simple assignment, as text"""
    reads, writes = set(), set()
    for n in ast.walk(e):
        if isinstance(n, (ast.Name, ast.Attribute)):
            txt = ast.unparse(n)
            (writes if isinstance(getattr(n, "ctx", None), ast.Store) else reads).add(txt)
    return reads, writes


def _independent(a: ast.stmt, b: ast.stmt) -> bool:
    ra, wa = _names(a)
    rb, wb = _names(b)
    pre = lambda x, ys: any(y == x or y.startswith(x + ".") or x.startswith(y + ".") for y in ys)
    if any(pre(w, rb | wb) for w in wa) or any(pre(w, ra | wa) for w in wb):
        return False
    # a call may have any effect: only call-free assignments are moved
    return not any(isinstance(n, (ast.Call, ast.Yield, ast.YieldFrom, ast.Await)) for s in (a, b) for n in ast.walk(s))


def _is_simple_assign(s: ast.stmt) -> bool:
    """a single-target assignment without a call (a call may have any effect: such an assignment is never moved)"""
    if not ((isinstance(s, ast.Assign) and len(s.targets) == 1) or (isinstance(s, ast.AnnAssign) and s.value is not None)):
        return False
    return not any(isinstance(n, (ast.Call, ast.Yield, ast.YieldFrom, ast.Await)) for n in ast.walk(s))


def _reorder(stmts: List[ast.stmt]) -> List[ast.stmt]:
    """sort maximal runs of adjacent, pairwise independent simple assignments by their text"""
    out: List[ast.stmt] = []
    i = 0
    while i < len(stmts):
        j = i
        while j < len(stmts) and _is_simple_assign(stmts[j]):
            j += 1
        run = stmts[i:j]
        if len(run) > 1 and all(_independent(a, b) for k, a in enumerate(run) for b in run[k + 1:]):
            def key(s):
                t = s.targets[0] if isinstance(s, ast.Assign) else s.target
                txt = ast.unparse(t)
                # attribute targets first (by text), then plain names in their original order (local names are not stable)
                return (0, txt) if not isinstance(t, ast.Name) else (1, "")
            run = sorted(run, key=key)
        out.extend(run)
        if j == i:
            out.append(stmts[i])
            j = i + 1
        i = j
    return out


def _clean(stmts: List[ast.stmt]) -> List[ast.stmt]:
    out = []
    for s in stmts:
        if isinstance(s, ast.Expr) and isinstance(s.value, ast.Constant) and isinstance(s.value.value, str):
            continue  # docstring / bare string
        if isinstance(s, ast.Pass):
            continue
        if isinstance(s, ast.Expr) and isinstance(s.value, ast.Constant) and s.value.value is Ellipsis:
            continue
        out.append(s)
    return _reorder(out)


def _block(stmts: List[ast.stmt], sc: _Scope) -> str:
    stmts = _clean(stmts)
    if not stmts:
        return ".pass"
    # `if c: A(leaves)` ; B  ==  `if c: A(leaves) else: B`
    parts = []
    k = 0
    while k < len(stmts):
        s = stmts[k]
        if isinstance(s, ast.If) and _leaves(_clean(s.body)) and k + 1 < len(stmts):
            c = _expr(s.test, sc)
            a = _block(s.body, sc)
            b = _block(list(s.orelse) + stmts[k + 1:], sc)
            parts.append(f"(.ifte {c} {a} {b})")
            break
        parts.append(_stmt(s, sc))
        k += 1
    out = parts[-1]
    for p in reversed(parts[:-1]):
        out = f"(.seq {p} {out})"
    return out


def _stmt(s: ast.stmt, sc: _Scope) -> str:
    if isinstance(s, ast.Expr):
        v = s.value
        if isinstance(v, ast.Yield):
            if v.value is None:
                raise TranslationError("bare yield")
            return f"(.yld {_expr(v.value, sc)})"
        if isinstance(v, ast.YieldFrom):
            return f"(.yldFrom {_expr(v.value, sc)})"
        return f"(.expr {_expr(v, sc)})"
    if isinstance(s, ast.Assign):
        if len(s.targets) != 1:
            raise TranslationError("chained assignment")
        val = _expr(s.value, sc)
        return f"(.assign {_target(s.targets[0], sc)} {val})"
    if isinstance(s, ast.AnnAssign):
        if s.value is None:
            return ".pass"
        val = _expr(s.value, sc)
        return f"(.assign {_target(s.target, sc)} {val})"
    if isinstance(s, ast.AugAssign):
        if not isinstance(s.op, (ast.Add, ast.Sub)):
            raise TranslationError("augmented assignment operator")
        val = _expr(s.value, sc)
        return f"(.aug {_q('+' if isinstance(s.op, ast.Add) else '-')} {_target(s.target, sc)} {val})"
    if isinstance(s, ast.If):
        c = _expr(s.test, sc)
        return f"(.ifte {c} {_block(s.body, sc)} {_block(s.orelse, sc)})"
    if isinstance(s, ast.For):
        if s.orelse:
            raise TranslationError("for … else")
        it = _expr(s.iter, sc)
        tg = _target(s.target, sc)
        return f"(.forIn {tg} {it} {_block(s.body, sc)})"
    if isinstance(s, ast.Return):
        return f"(.ret {'(.cst ' + _q('None') + ')' if s.value is None else _expr(s.value, sc)})"
    if isinstance(s, ast.Break):
        return ".brk"
    if isinstance(s, ast.Continue):
        return ".cont"
    if isinstance(s, ast.Raise):
        if s.exc is None or s.cause is not None:
            raise TranslationError("raise shape")
        # the exception CLASS is what the observation function sees; the message is not
        exc = s.exc.func if isinstance(s.exc, ast.Call) else s.exc
        return f"(.raise {_expr(exc, sc)})"
    raise TranslationError(f"statement {type(s).__name__}: {ast.unparse(s)[:80]}")


PROPERTY_DECORATORS = {"property", "cached_property"}
ALLOWED_DECORATORS = PROPERTY_DECORATORS | {"staticmethod"}


def _decorators(fn: ast.FunctionDef) -> List[str]:
    out = []
    for d in fn.decorator_list:
        if isinstance(d, ast.Name):
            out.append(d.id)
        elif isinstance(d, ast.Call) and isinstance(d.func, ast.Name) and d.func.id == "lru_cache":
            out.append("lru_cache")
        else:
            raise TranslationError(f"decorator {ast.unparse(d)[:60]} on {fn.name}")
    return out


def _find_method(cls: ast.ClassDef, name: str) -> Optional[ast.FunctionDef]:
    found = None
    for s in cls.body:
        if isinstance(s, (ast.FunctionDef, ast.AsyncFunctionDef)) and s.name == name:
            decs = [d for d in s.decorator_list]
            # `@x.setter` re-definitions of a property are not evaluation code
            if any(isinstance(d, ast.Attribute) and d.attr in ("setter", "deleter") for d in decs):
                continue
            if isinstance(s, ast.AsyncFunctionDef):
                raise TranslationError(f"{cls.name}.{name} is async")
            if found is not None:
                raise TranslationError(f"{cls.name}.{name} defined twice")
            found = s
        elif isinstance(s, ast.Assign) and any(isinstance(t, ast.Name) and t.id == name for t in s.targets):
            raise TranslationError(f"{cls.name}.{name} is assigned in the class body")
    return found


def translate_method(cls: ast.ClassDef, name: str) -> Tuple[str, List[str], str]:
    fn = _find_method(cls, name)
    if fn is None:
        raise TranslationError(f"{cls.name}.{name} not found")
    decs = _decorators(fn)
    for d in decs:
        if d not in ALLOWED_DECORATORS:
            raise TranslationError(f"decorator {d} on {cls.name}.{name}")
    a = fn.args
    if a.vararg or a.kwarg or a.kwonlyargs or a.posonlyargs:
        raise TranslationError(f"parameters of {cls.name}.{name}")
    params = [p.arg for p in a.args]
    n_def = len(a.defaults)
    for d in a.defaults:
        if not (isinstance(d, ast.Constant) and d.value is None):
            raise TranslationError(f"default value in {cls.name}.{name}")
    kind = "prop" if any(d in PROPERTY_DECORATORS for d in decs) else ("static" if "staticmethod" in decs else "def")
    if kind != "static":
        if not params or params[0] != "self":
            raise TranslationError(f"{cls.name}.{name}: first parameter is not self")
        params = params[1:]
    sc = _Scope(["self"] + params)
    body = _block(fn.body, sc)
    return kind, list(params), body


def table(symbolic_src: str) -> Dict[str, object]:
    tree = ast.parse(symbolic_src)
    classes = _classes(tree)
    methods = []
    for c, m in METHODS:
        if c not in classes:
            raise TranslationError(f"class {c} not found")
        kind, params, body = translate_method(classes[c], m)
        methods.append((c, m, kind, params, body))
    dispatch = []
    for c in DISPATCH_CLASSES:
        if c not in classes:
            raise TranslationError(f"class {c} not found")
        lin = mro(c, classes)
        for m in DISPATCH_NAMES:
            owner = next((k for k in lin if k in classes and _find_method(classes[k], m) is not None), None)
            if owner is not None:
                dispatch.append((c, m, owner))
    return {"methods": methods, "dispatch": dispatch}


def render_table(t: Dict[str, object], name: str) -> str:
    lines = [f"def {name} : KrroodVerif.Eql.IR.Table where", "  methods := ["]
    ms = []
    for c, m, kind, params, body in t["methods"]:
        ms.append(f"    {{ cls := {_q(c)}, name := {_q(m)}, kind := {_q(kind)}, params := [{', '.join(_q(p) for p in params)}],\n"
                  f"      body := {body} }}")
    lines.append(",\n".join(ms) + "]")
    lines.append("  dispatch := [")
    ds = [f"({_q(c)}, {_q(m)}, {_q(o)})" for c, m, o in t["dispatch"]]
    rows = [", ".join(ds[i:i + 3]) for i in range(0, len(ds), 3)]
    lines.append("    " + ",\n    ".join(rows) + "]")
    return "\n".join(lines) + "\n"


PROOFS = r'''
/-- the IR table regenerated from the current source IS the table `Eql.IR.runIR` is validated / proved on -/
theorem C01_irTable_translated_eq_model : Translated.irTable = KrroodVerif.Eql.IR.irTable := by decide
'''


def render(t: Dict[str, object]) -> str:
    return ("import KrroodVerif.Model.EqlIRTable\nopen KrroodVerif.Eql.IR\nset_option maxRecDepth 100000\n"
            "namespace Translated\n" + render_table(t, "irTable") + "end Translated\n" + PROOFS)


def generate(repo: Path) -> str:
    return render(table((repo / SYMBOLIC).read_text()))


def diff(t: Dict[str, object], model: Dict[str, object]) -> List[str]:
    out = []
    a = {(c, m): (k, p, b) for c, m, k, p, b in t["methods"]}
    b = {(c, m): (k, p, bd) for c, m, k, p, bd in model["methods"]}
    for key in a:
        if a[key] != b.get(key):
            out.append("%s.%s" % key)
    if t["dispatch"] != model["dispatch"]:
        da, db = set(t["dispatch"]), set(model["dispatch"])
        out.append("dispatch: " + ", ".join("%s.%s->%s" % x for x in sorted(da ^ db)))
    return out


OBLIGATION = "C01_irTable_translated_eq_model"


def model_table() -> Dict[str, object]:
    """the table checked in as `lean/KrroodVerif/Model/EqlIRTable.lean` is the translation of the source it was reviewed
    against; for the DIAGNOSTIC text only (which methods differ) it is re-read from that file's comment-free text"""
    import core
    txt = (core.LEAN_DIR / "KrroodVerif" / "Model" / "EqlIRTable.lean").read_text()
    return {"text": txt}


def obligations(pid: str) -> List[Dict[str, object]]:
    """Regenerate the IR table of the evaluation methods from /repo's CURRENT `symbolic.py` and have the kernel re-check
    (`decide`) that it IS `Eql.IR.irTable` — the table `Eql.IR.runIR` is cross-checked against `Eql.eval` on (every case of
    C01 / C02, driver field `model_ir=`) and proved equal to it for the node classes of `Props/C01IR.lean`."""
    import os
    import re
    import subprocess
    import core
    try:
        tab = table((core.REPO / SYMBOLIC).read_text())
        text = render(tab)
    except (TranslationError, SyntaxError, OSError, RecursionError, KeyError) as e:
        return [{"name": OBLIGATION, "ok": False, "detail": f"translator rejected the source: {e}"}]
    # cheap diagnostic: which method entries are not literally in the checked-in table
    model_txt = model_table()["text"]
    differs = [f"{c}.{m}" for c, m, k, ps, b in tab["methods"] if b not in model_txt]
    tmp = core.LEAN_DIR / ".lake" / "audit"
    tmp.mkdir(parents=True, exist_ok=True)
    f = tmp / f"C01IRTranslated_{pid}_{os.getpid()}.lean"
    f.write_text(text + f"#print axioms {OBLIGATION}\n")
    try:
        p = subprocess.run(["lake", "env", "lean", str(f)], cwd=str(core.LEAN_DIR), capture_output=True, text=True, timeout=600)
    finally:
        try:
            f.unlink()
        except OSError:
            pass
    out = " ".join(((p.stdout or "") + (p.stderr or "")).split())
    m = re.search(r"'" + re.escape(OBLIGATION) + r"' depends on axioms: \[([^\]]*)\]", out)
    none = re.search(r"'" + re.escape(OBLIGATION) + r"' does not depend on any axioms", out)
    ax = [a.strip() for a in m.group(1).split(",")] if m else ([] if none else None)
    # a theorem whose `decide` fails is added with `sorryAx`, which is not an allowed axiom
    ok = ax is not None and set(ax) <= core.ALLOWED_AXIOMS and p.returncode == 0
    return [{"name": "KrroodVerif.Eql.IR." + OBLIGATION, "ok": ok, "axioms": ax,
             "detail": "regenerated IR of the evaluation methods differs from Eql.IR.irTable in: "
                       + ("; ".join(differs) or "nothing (dispatch table?)") + "\n"
                       + (p.stdout or "")[-1200:] + (p.stderr or "")[-600:]}]


if __name__ == "__main__":
    import sys
    repo = Path(sys.argv[1]) if len(sys.argv) > 1 else Path("/repo")
    t = table((repo / SYMBOLIC).read_text())
    if len(sys.argv) > 2 and sys.argv[2] == "--model":
        # the text of lean/KrroodVerif/Model/EqlIRTable.lean
        print("import KrroodVerif.Model.EqlIR\n/-! GENERATED by `harness/translate/c01_translate.py /repo --model` from krrood's "
              "`symbolic.py`, then REVIEWED and\nchecked in: the IR of the evaluation methods as they are. -/\n"
              "set_option maxRecDepth 100000\nnamespace KrroodVerif.Eql.IR\n" + render_table(t, "irTable")
              + "end KrroodVerif.Eql.IR")
    else:
        print(render(t))
