"""Translator (Python AST -> Lean 4) for the rule-tree surgery (`rule.py`) and the selector semantics
(`conclusion_selector.py`, `ElseIf` / `Union` / `OR` of `symbolic.py`) — the second tie of C08.

Output: a Lean file defining `Translated.surgery : SurgeryTable` and `Translated.selectors : SelectorTable`
(`Model/RuleTables.lean`) followed by the proof obligations

  C08_translated_surgery_eq_model      Translated.surgery   = Rdr.surgery      (decide)
  C08_translated_selectors_eq_model    Translated.selectors = Rdr.selectors    (decide)
  C08_end_to_end_translated            `C08_end_to_end` restated for the translated tables (builder `buildWith` and
                                       evaluator `evalTopWith` interpreted from them = the specification, every
                                       unambiguous program, payload, domain)

which the Lean kernel re-checks on every run (`extra_obligations()` in `harness/props/c08.py`).  For the hand tables
`Props/C08Tables.lean` proves once `build Quirks.today = buildWith Rdr.surgery` and `evalT = evalWith Rdr.selectors.oneVar`.

SURGERY (syntax directed, by data flow between locals, not by their names)
  `_graph_parent_`        `p = node._node_.parent ; return p.data if p is not None else None`  (also without the local)
  parent read             `_graph_parent_(n)` -> ParentRead.graph ; `n._parent_` -> ParentRead.lastEval
  `refinement`            NB = chained_logic(AND, *conditions) ; CUR = SymbolicExpression._current_parent_() ;
                          PP = <read>(CUR) ; [CUR._parent_ = None] ; NEW = K(<CUR>, NB) ; then in any order
                          [NB._node_.weight = RDREdge.X] [NEW._parent_ = PP] [<relink>] ; return NEW.right|.left|NEW
  `alternative_or_next`   NB, CUR as above ; `while True:` (or once) P = <read>(CUR) ; if <cond>: CUR = P  elif … else: break ;
                          PP = <read>(CUR) ; [CUR._parent_ = None] ; if type_ == RDREdge.Alternative: NEW = K(..) elif
                          type_ == RDREdge.Next: NEW = K'(..) else: raise … ; [weight] [re-parent] [<relink>] ; return …
  <cond>                  isinstance(P, K) | isinstance(P, (K1, K2)) | isinstance(P, K) and CUR is P.left|right
  <relink>                `_replace_operand(PP, CUR, NEW)` (the helper is followed) or the same inline:
                          [if isinstance(PP, BinaryOperator):] if PP.s is CUR: PP.s' = NEW  elif …
                          (`if not isinstance(PP, BinaryOperator): return` in the helper is the same guard)
  `alternative`/`next_rule`  `return alternative_or_next(RDREdge.Alternative|Next, *conditions)`
SELECTORS (by abstract execution): the generator methods `ExceptIf._evaluate__/yield_and_update_conclusion`,
  `Alternative._evaluate__` over `ElseIf._evaluate__` / `OR.evaluate_left/right`, `Next._evaluate__/evaluate_left` over
  `Union._evaluate__` / `OR.evaluate_right` are INTERPRETED statement by statement (strict whitelist of statement and
  expression shapes below) on scripted operands; the decision rows (`SelRow`) are read off the event traces of the
  four one-value scenarios left true/false x right true/false, and then VALIDATED: the traces of eight longer scenarios
  (several left values, right operand yielding 0-3 values of mixed truth) must be exactly the ones the row predicts,
  otherwise the class does not have the table form -> TranslationError.
  whitelist: assignments to locals and to self._is_false_/left_evaluated/right_evaluated/_eval_parent_; `for v in <gen>`;
  `if/elif/else`; `yield v` / `yield OperationResult(b, f, self)` / `yield from <gen>`; `continue`; bare `return`;
  `self.update_conclusion(v, self.left|right._conclusion_)`; `self._conclusion_.clear()`; <gen> = `self.left|right.
  _evaluate__(src, parent=self)` | `super()._evaluate__(sources, parent=parent)` | `self.<method>(args)` | a local bound
  to one; expressions: locals, attributes `.bindings .is_false ._is_false_ .left_evaluated .right_evaluated
  ._conclusion_`, `not`, `and`, `or`, `True/False/None`, `sources or {}` / `sources or HashedIterable()`.
DEDUP (`update_conclusion`, `_reset_evaluation_state_`): statement templates compared up to renaming of locals.

STRICT: anything else raises TranslationError (reported as a broken obligation, never by itself as a violation).
NORMALISING: names of locals and loop variables, comments and doc strings, local aliases, the order of independent
statements (weight / re-parent / re-link; flag assignments that no yield observes), `_replace_operand` inlined or not,
helper generators inlined or outlined, `yield v` versus `yield OperationResult(v.bindings, v.is_false, self)` do not
change the output.
"""
from __future__ import annotations

import ast
import copy
from pathlib import Path
from typing import Any, Dict, List, Optional, Tuple

RULE_PATH = "src/krrood/entity_query_language/rule.py"
SEL_PATH = "src/krrood/entity_query_language/conclusion_selector.py"
SYM_PATH = "src/krrood/entity_query_language/symbolic.py"


class TranslationError(Exception):
    pass


def _src(e: ast.AST) -> str:
    return ast.unparse(e)


def _strip(body: List[ast.stmt]) -> List[ast.stmt]:
    return [s for s in body if not (isinstance(s, ast.Expr) and isinstance(s.value, ast.Constant)) and not isinstance(s, ast.Pass)]


def _functions(tree: ast.Module) -> Dict[str, ast.FunctionDef]:
    return {n.name: n for n in tree.body if isinstance(n, ast.FunctionDef)}


def _classes(tree: ast.Module) -> Dict[str, ast.ClassDef]:
    return {n.name: n for n in tree.body if isinstance(n, ast.ClassDef)}


def _methods(c: ast.ClassDef) -> Dict[str, ast.FunctionDef]:
    return {n.name: n for n in c.body if isinstance(n, ast.FunctionDef)}


# =============================================================================================== surgery

NK = {"ExceptIf": "NK.exceptIf", "Alternative": "NK.alt", "Next": "NK.next"}
EDGE = {"Refinement": "Kind.ref", "Alternative": "Kind.alt", "Next": "Kind.next"}


def _is_name(e: ast.AST, n: str) -> bool:
    return isinstance(e, ast.Name) and e.id == n


def _attr_of(e: ast.AST, attr: str) -> Optional[str]:
    """`X.attr` with X a local name -> X"""
    if isinstance(e, ast.Attribute) and e.attr == attr and isinstance(e.value, ast.Name):
        return e.value.id
    return None


def _check_graph_parent(fn: ast.FunctionDef) -> None:
    if [a.arg for a in fn.args.args] != [fn.args.args[0].arg] or len(fn.args.args) != 1:
        raise TranslationError("_graph_parent_ signature changed")
    n = fn.args.args[0].arg
    body = _strip(fn.body)
    want = f"{n}._node_.parent"
    if len(body) == 2 and isinstance(body[0], ast.Assign) and len(body[0].targets) == 1 and isinstance(body[0].targets[0], ast.Name):
        p = body[0].targets[0].id
        if _src(body[0].value) != want:
            raise TranslationError(f"_graph_parent_ reads {_src(body[0].value)}")
        ret = body[1]
    elif len(body) == 1:
        p = want
        ret = body[0]
    else:
        raise TranslationError("_graph_parent_ body not recognised")
    if not isinstance(ret, ast.Return) or ret.value is None:
        raise TranslationError("_graph_parent_ must return")
    if _src(ret.value) not in (f"{p}.data if {p} is not None else None", f"None if {p} is None else {p}.data"):
        raise TranslationError(f"_graph_parent_ returns {_src(ret.value)}")


class _Surgery:
    def __init__(self, fns: Dict[str, ast.FunctionDef]):
        self.fns = fns
        if "_graph_parent_" in fns:
            _check_graph_parent(fns["_graph_parent_"])

    # ---- pieces
    def parent_read(self, e: ast.AST) -> Tuple[str, str]:
        """-> (ParentRead, variable read)"""
        if isinstance(e, ast.Call) and _is_name(e.func, "_graph_parent_") and len(e.args) == 1 and not e.keywords \
                and isinstance(e.args[0], ast.Name) and "_graph_parent_" in self.fns:
            return "ParentRead.graph", e.args[0].id
        v = _attr_of(e, "_parent_")
        if v is not None:
            return "ParentRead.lastEval", v
        if isinstance(e, ast.Attribute) and e.attr == "data" and _src(e.value).endswith("._node_.parent"):
            raise TranslationError(f"parent read {_src(e)} may fail for a root node")
        raise TranslationError(f"parent read not recognised: {_src(e)}")

    def is_current_call(self, e: ast.AST) -> bool:
        return _src(e) == "SymbolicExpression._current_parent_()"

    def operand(self, e: ast.AST, cur: str, nb: str, cur_is_stack_top: bool) -> str:
        if _is_name(e, cur) or (cur_is_stack_top and self.is_current_call(e)):
            return "Operand.current"
        if _is_name(e, nb):
            return "Operand.newBranch"
        raise TranslationError(f"operand not recognised: {_src(e)}")

    def wrap_call(self, e: ast.AST, cur: str, nb: str, top: bool) -> Tuple[str, str, str]:
        if not (isinstance(e, ast.Call) and isinstance(e.func, ast.Name) and e.func.id in NK and len(e.args) == 2 and not e.keywords):
            raise TranslationError(f"node construction not recognised: {_src(e)}")
        return NK[e.func.id], self.operand(e.args[0], cur, nb, top), self.operand(e.args[1], cur, nb, top)

    def relink_chain(self, st: ast.stmt, pp: str, cur: str, new: str) -> List[Tuple[str, str]]:
        """`if PP.s is CUR: PP.s' = NEW elif …` -> [(s, s')]"""
        out = []
        while True:
            if not isinstance(st, ast.If):
                raise TranslationError(f"re-link not recognised: {_src(st)}")
            t = st.test
            if not (isinstance(t, ast.Compare) and len(t.ops) == 1 and isinstance(t.ops[0], ast.Is)):
                raise TranslationError(f"re-link test not recognised: {_src(t)}")
            a, b = t.left, t.comparators[0]
            if _is_name(a, cur):
                a, b = b, a
            if not (_is_name(b, cur) and isinstance(a, ast.Attribute) and _is_name(a.value, pp) and a.attr in ("left", "right")):
                raise TranslationError(f"re-link test not recognised: {_src(t)}")
            body = _strip(st.body)
            if not (len(body) == 1 and isinstance(body[0], ast.Assign) and len(body[0].targets) == 1):
                raise TranslationError(f"re-link assignment not recognised: {_src(st)}")
            tg = body[0].targets[0]
            if not (isinstance(tg, ast.Attribute) and _is_name(tg.value, pp) and tg.attr in ("left", "right") and _is_name(body[0].value, new)):
                raise TranslationError(f"re-link assignment not recognised: {_src(body[0])}")
            out.append((a.attr, tg.attr))
            if not st.orelse:
                return out
            if len(st.orelse) != 1:
                raise TranslationError("re-link else branch not recognised")
            st = st.orelse[0]

    def is_binop_test(self, t: ast.AST, pp: str) -> bool:
        return _src(t) == f"isinstance({pp}, BinaryOperator)"

    def relink(self, stmts: List[ast.stmt], pp: str, cur: str, new: str) -> Tuple[bool, List[Tuple[str, str]]]:
        """the statements that re-link NEW into PP -> (guardBinop, tests)"""
        stmts = _strip(stmts)
        if not stmts:
            return True, []
        guard = False
        if isinstance(stmts[0], ast.If) and isinstance(stmts[0].test, ast.UnaryOp) and isinstance(stmts[0].test.op, ast.Not) \
                and self.is_binop_test(stmts[0].test.operand, pp) and not stmts[0].orelse \
                and len(_strip(stmts[0].body)) == 1 and isinstance(_strip(stmts[0].body)[0], ast.Return) and _strip(stmts[0].body)[0].value is None:
            guard = True
            stmts = stmts[1:]
        elif len(stmts) == 1 and isinstance(stmts[0], ast.If) and self.is_binop_test(stmts[0].test, pp) and not stmts[0].orelse:
            guard = True
            stmts = _strip(stmts[0].body)
        if not stmts:
            return guard, []
        if len(stmts) != 1:
            raise TranslationError("re-link: more than one statement")
        return guard, self.relink_chain(stmts[0], pp, cur, new)

    def relink_stmt(self, st: ast.stmt, pp: str, cur: str, new: str) -> Optional[Tuple[bool, List[Tuple[str, str]]]]:
        """one statement of the tail: a call of the helper or the inline form; None = not a re-link"""
        if isinstance(st, ast.Expr) and isinstance(st.value, ast.Call) and _is_name(st.value.func, "_replace_operand"):
            c = st.value
            if c.keywords or len(c.args) != 3 or not all(isinstance(a, ast.Name) for a in c.args):
                raise TranslationError(f"_replace_operand call not recognised: {_src(c)}")
            if [a.id for a in c.args] != [pp, cur, new]:
                raise TranslationError(f"_replace_operand called with {_src(c)}")
            h = self.fns.get("_replace_operand")
            if h is None or len(h.args.args) != 3:
                raise TranslationError("_replace_operand helper not found")
            p, o, n = [a.arg for a in h.args.args]
            return self.relink(h.body, p, o, n)
        if isinstance(st, ast.If):
            return self.relink([st], pp, cur, new)
        return None

    def tail(self, stmts: List[ast.stmt], nb: str, cur: str, pp: str, new: str, weights: Dict[str, str]):
        """[weight] [re-parent] [re-link] in any order, then return -> (weight, reparent, relink, ret)"""
        weight, reparent, relink, ret = None, False, None, None
        for i, st in enumerate(stmts):
            if isinstance(st, ast.Return):
                if i != len(stmts) - 1 or st.value is None:
                    raise TranslationError("return not last")
                v = st.value
                if _is_name(v, new):
                    ret = "Ret.newRoot"
                elif isinstance(v, ast.Attribute) and _is_name(v.value, new) and v.attr in ("left", "right"):
                    ret = "Ret.rightOfNew" if v.attr == "right" else "Ret.leftOfNew"
                else:
                    raise TranslationError(f"return value not recognised: {_src(v)}")
                continue
            if isinstance(st, ast.Assign) and len(st.targets) == 1:
                tg = st.targets[0]
                if _src(tg) == f"{nb}._node_.weight":
                    w = _src(st.value)
                    if w not in weights or weight is not None:
                        raise TranslationError(f"edge weight not recognised: {w}")
                    weight = weights[w]
                    continue
                if _src(tg) == f"{new}._parent_":
                    if not _is_name(st.value, pp) or reparent:
                        raise TranslationError(f"re-parenting not recognised: {_src(st)}")
                    reparent = True
                    continue
            r = self.relink_stmt(st, pp, cur, new)
            if r is not None and relink is None:
                relink = r
                continue
            raise TranslationError(f"statement not recognised: {_src(st)}")
        if ret is None:
            raise TranslationError("no return")
        if weight is None:
            raise TranslationError("no edge weight")
        return weight, reparent, relink if relink is not None else (True, []), ret

    def head(self, fn: ast.FunctionDef) -> Tuple[List[ast.stmt], str, str]:
        if fn.args.vararg is None:
            raise TranslationError(f"{fn.name}: no *conditions")
        cs = fn.args.vararg.arg
        body = _strip(fn.body)
        nb = cur = None
        i = 0
        while i < len(body) and (nb is None or cur is None):
            st = body[i]
            if isinstance(st, ast.Assign) and len(st.targets) == 1 and isinstance(st.targets[0], ast.Name):
                if _src(st.value) == f"chained_logic(AND, *{cs})" and nb is None:
                    nb = st.targets[0].id
                    i += 1
                    continue
                if self.is_current_call(st.value) and cur is None:
                    cur = st.targets[0].id
                    i += 1
                    continue
            raise TranslationError(f"{fn.name}: statement not recognised: {_src(st)}")
        if nb is None or cur is None:
            raise TranslationError(f"{fn.name}: head not recognised")
        return body[i:], nb, cur

    def read_and_detach(self, fn_name: str, body: List[ast.stmt], cur: str) -> Tuple[List[ast.stmt], str, str, bool]:
        st = body[0] if body else None
        if not (isinstance(st, ast.Assign) and len(st.targets) == 1 and isinstance(st.targets[0], ast.Name)):
            raise TranslationError(f"{fn_name}: parent read expected")
        pr, v = self.parent_read(st.value)
        if v != cur:
            raise TranslationError(f"{fn_name}: parent of {v} read, not of the current node")
        pp = st.targets[0].id
        body = body[1:]
        detach = False
        if body and isinstance(body[0], ast.Assign) and _src(body[0].targets[0]) == f"{cur}._parent_":
            if not (isinstance(body[0].value, ast.Constant) and body[0].value.value is None):
                raise TranslationError(f"{fn_name}: detach not recognised")
            detach = True
            body = body[1:]
        return body, pr, pp, detach

    # ---- the two functions
    def refinement(self) -> str:
        fn = self.fns.get("refinement")
        if fn is None:
            raise TranslationError("refinement not found")
        body, nb, cur = self.head(fn)
        body, pr, pp, detach = self.read_and_detach("refinement", body, cur)
        st = body[0] if body else None
        if not (isinstance(st, ast.Assign) and len(st.targets) == 1 and isinstance(st.targets[0], ast.Name)):
            raise TranslationError("refinement: node construction expected")
        new = st.targets[0].id
        cls, lo, ro = self.wrap_call(st.value, cur, nb, True)
        weight, reparent, (guard, tests), ret = self.tail(body[1:], nb, cur, pp, new, {f"RDREdge.{k}": v for k, v in EDGE.items()})
        return ("{ parentRead := %s, detach := %s, wrap := ⟨%s, %s, %s, %s⟩, reparent := %s, relink := %s, ret := %s }"
                % (pr, _b(detach), cls, lo, ro, weight, _b(reparent), _relink(guard, tests), ret))

    def climb_cond(self, t: ast.AST, par: str, cur: str) -> str:
        def inst(e):
            if not (isinstance(e, ast.Call) and _is_name(e.func, "isinstance") and len(e.args) == 2 and _is_name(e.args[0], par)):
                raise TranslationError(f"climb condition not recognised: {_src(e)}")
            k = e.args[1]
            ks = k.elts if isinstance(k, ast.Tuple) else [k]
            if not all(isinstance(x, ast.Name) and x.id in NK for x in ks):
                raise TranslationError(f"climb condition not recognised: {_src(e)}")
            return [NK[x.id] for x in ks]
        if isinstance(t, ast.BoolOp) and isinstance(t.op, ast.And) and len(t.values) == 2:
            ks = inst(t.values[0])
            c = t.values[1]
            if len(ks) != 1 or not (isinstance(c, ast.Compare) and len(c.ops) == 1 and isinstance(c.ops[0], ast.Is)):
                raise TranslationError(f"climb condition not recognised: {_src(t)}")
            a, b = c.left, c.comparators[0]
            if _is_name(b, cur):
                a, b = b, a
            if not (_is_name(a, cur) and isinstance(b, ast.Attribute) and _is_name(b.value, par) and b.attr in ("left", "right")):
                raise TranslationError(f"climb condition not recognised: {_src(t)}")
            return f".parentIsAnd{b.attr.capitalize()} {ks[0]}"
        return ".parentIs [" + ", ".join(sorted(set(inst(t)), key=list(NK.values()).index)) + "]"

    def climb_step(self, stmts: List[ast.stmt], cur: str, in_loop: bool) -> Tuple[str, List[str]]:
        stmts = _strip(stmts)
        if len(stmts) != 2 or not (isinstance(stmts[0], ast.Assign) and len(stmts[0].targets) == 1 and isinstance(stmts[0].targets[0], ast.Name)):
            raise TranslationError("climb step not recognised")
        pr, v = self.parent_read(stmts[0].value)
        if v != cur:
            raise TranslationError("climb reads the parent of another node")
        par = stmts[0].targets[0].id
        conds = []
        st = stmts[1]
        while True:
            if not isinstance(st, ast.If):
                raise TranslationError(f"climb step not recognised: {_src(st)}")
            body = _strip(st.body)
            if not (len(body) == 1 and isinstance(body[0], ast.Assign) and _is_name(body[0].targets[0], cur) and _is_name(body[0].value, par)):
                raise TranslationError(f"climb step body not recognised: {_src(st)}")
            conds.append(self.climb_cond(st.test, par, cur))
            orelse = _strip(st.orelse)
            if len(orelse) == 1 and isinstance(orelse[0], ast.If):
                st = orelse[0]
                continue
            if in_loop:
                if not (len(orelse) == 1 and isinstance(orelse[0], ast.Break)):
                    raise TranslationError("climb loop: `else: break` expected")
            elif orelse:
                raise TranslationError("climb step: else branch not recognised")
            return pr, conds

    def alt_or_next(self) -> str:
        fn = self.fns.get("alternative_or_next")
        if fn is None:
            raise TranslationError("alternative_or_next not found")
        if len(fn.args.args) != 1:
            raise TranslationError("alternative_or_next signature changed")
        ty = fn.args.args[0].arg
        body, nb, cur = self.head(fn)
        climb_read, loops, conds = "ParentRead.graph", True, []
        if body and isinstance(body[0], ast.While):
            w = body[0]
            if not (isinstance(w.test, ast.Constant) and w.test.value is True) or w.orelse:
                raise TranslationError("climb loop: `while True:` expected")
            climb_read, conds = self.climb_step(w.body, cur, True)
            body = body[1:]
        elif len(body) >= 2 and isinstance(body[1], ast.If) and isinstance(body[0], ast.Assign) and not isinstance(body[2] if len(body) > 2 else None, ast.If):
            # one step, no loop: P = read(CUR); if …: CUR = P
            loops = False
            climb_read, conds = self.climb_step(body[:2], cur, False)
            body = body[2:]
        else:
            loops, conds = False, []
        body, pr, pp, detach = self.read_and_detach("alternative_or_next", body, cur)
        st = body[0] if body else None
        wraps: Dict[str, Tuple[str, str, str]] = {}
        new = None
        seen_else = False
        while isinstance(st, ast.If):
            t = st.test
            if not (isinstance(t, ast.Compare) and len(t.ops) == 1 and isinstance(t.ops[0], ast.Eq) and _is_name(t.left, ty)
                    and _src(t.comparators[0]) in ("RDREdge.Alternative", "RDREdge.Next")):
                raise TranslationError(f"edge type test not recognised: {_src(t)}")
            edge = _src(t.comparators[0]).split(".")[1]
            b = _strip(st.body)
            if not (len(b) == 1 and isinstance(b[0], ast.Assign) and len(b[0].targets) == 1 and isinstance(b[0].targets[0], ast.Name)):
                raise TranslationError("node construction expected")
            if new not in (None, b[0].targets[0].id) or edge in wraps:
                raise TranslationError("node construction: different targets")
            new = b[0].targets[0].id
            wraps[edge] = self.wrap_call(b[0].value, cur, nb, False)
            orelse = _strip(st.orelse)
            if len(orelse) == 1 and isinstance(orelse[0], ast.If):
                st = orelse[0]
                continue
            if orelse and not (len(orelse) == 1 and isinstance(orelse[0], ast.Raise)):
                raise TranslationError("edge type: else branch must raise")
            seen_else = True
            break
        if set(wraps) != {"Alternative", "Next"} or not seen_else:
            raise TranslationError("node construction per edge type not recognised")
        weight, reparent, (guard, tests), ret = self.tail(body[1:], nb, cur, pp, new, {ty: "@"})
        wa = "⟨%s, %s, %s, Kind.alt⟩" % wraps["Alternative"]
        wn = "⟨%s, %s, %s, Kind.next⟩" % wraps["Next"]
        return ("{ climbRead := %s, climbLoops := %s, climb := [%s], parentRead := %s, detach := %s, wrapAlt := %s, "
                "wrapNext := %s, reparent := %s, relink := %s, ret := %s }"
                % (climb_read, _b(loops), ", ".join(conds), pr, _b(detach), wa, wn, _b(reparent), _relink(guard, tests), ret))

    def wrappers(self) -> None:
        for name, edge in (("alternative", "Alternative"), ("next_rule", "Next")):
            fn = self.fns.get(name)
            if fn is None or fn.args.vararg is None:
                raise TranslationError(f"{name} not found")
            body = _strip(fn.body)
            if not (len(body) == 1 and isinstance(body[0], ast.Return) and body[0].value is not None
                    and _src(body[0].value) == f"alternative_or_next(RDREdge.{edge}, *{fn.args.vararg.arg})"):
                raise TranslationError(f"{name} is not `return alternative_or_next(RDREdge.{edge}, *conditions)`")


def _b(x: bool) -> str:
    return "true" if x else "false"


def _relink(guard: bool, tests: List[Tuple[str, str]]) -> str:
    return "⟨%s, [%s]⟩" % (_b(guard), ", ".join(f"(Side.{a}, Side.{b})" for a, b in tests))


def surgery_table(repo: Path) -> str:
    tree = ast.parse((repo / RULE_PATH).read_text())
    s = _Surgery(_functions(tree))
    s.wrappers()
    return "{ refinement := %s,\n    altOrNext := %s }" % (s.refinement(), s.alt_or_next())


# =============================================================================================== selectors
# abstract execution of the generator methods on scripted operands

class _Val:
    def __init__(self, bindings, is_false):
        self.bindings = bindings
        self.is_false = is_false


class _Operand:
    def __init__(self, side: str, node: "_Node"):
        self.side, self.node = side, node
        self._is_false_ = False
        self.calls = 0


class _ConclRef:
    def __init__(self, who: str):
        self.who = who  # 'left' | 'right' | 'self'


class _Stop(Exception):
    pass


class _Node:
    """one selector object under abstract execution"""

    def __init__(self, mro: List[Dict[str, ast.FunctionDef]], left_script: List[bool], right_scripts: List[List[bool]]):
        self.mro = mro
        self.left = _Operand("left", self)
        self.right = _Operand("right", self)
        self.left_script, self.right_scripts = left_script, right_scripts
        self.attrs = {"_is_false_": False, "left_evaluated": False, "right_evaluated": False}
        self.events: List[Tuple] = []
        self.content: List[Tuple[str, bool]] = []  # the selector's `_conclusion_`: (picked operand, truth flag at the update)
        self.steps = 0

    def operand_gen(self, op: _Operand, src):
        tag = "evalL" if op.side == "left" else "evalR"
        self.events.append((tag, src))
        if op.side == "left":
            script = self.left_script
            k = 0
        else:
            k = op.calls
            script = self.right_scripts[k % len(self.right_scripts)]
        op.calls += 1
        for j, truth in enumerate(script):
            op._is_false_ = not truth
            yield _Val((op.side[0].upper(), k, j) if op.side == "right" else ("L", j), not truth)

    def find(self, name: str, after: int = -1) -> Tuple[int, ast.FunctionDef]:
        for i, ms in enumerate(self.mro):
            if i > after and name in ms:
                return i, ms[name]
        raise TranslationError(f"method {name} not found")


class _Frame:
    def __init__(self, node: _Node, level: int, fn: ast.FunctionDef, args: List[Any], kwargs: Dict[str, Any]):
        self.node, self.level, self.fn = node, level, fn
        names = [a.arg for a in fn.args.args]
        if not names or names[0] != "self" or fn.args.vararg or fn.args.kwarg or fn.args.kwonlyargs:
            raise TranslationError(f"{fn.name}: signature not recognised")
        self.env: Dict[str, Any] = {}
        params = names[1:]
        defaults = fn.args.defaults
        for i, p in enumerate(params):
            if i < len(args):
                self.env[p] = args[i]
            elif p in kwargs:
                self.env[p] = kwargs[p]
            elif i >= len(params) - len(defaults):
                d = defaults[i - (len(params) - len(defaults))]
                if not (isinstance(d, ast.Constant) and d.value is None):
                    raise TranslationError(f"{fn.name}: default not recognised")
                self.env[p] = None
            else:
                raise TranslationError(f"{fn.name}: missing argument {p}")
        if len(args) > len(params) or any(k not in params for k in kwargs):
            raise TranslationError(f"{fn.name}: call does not match the signature")

    # ---- expressions
    def ev(self, e: ast.AST) -> Any:
        n = self.node
        if isinstance(e, ast.Constant) and (e.value is None or isinstance(e.value, bool)):
            return e.value
        if isinstance(e, ast.Name):
            if e.id == "self":
                return n
            if e.id in self.env:
                return self.env[e.id]
            raise TranslationError(f"unknown name {e.id}")
        if isinstance(e, ast.UnaryOp) and isinstance(e.op, ast.Not):
            return not self.truth(e.operand)
        if isinstance(e, ast.BoolOp):
            if isinstance(e.op, ast.Or) and len(e.values) == 2 and _src(e.values[1]) in ("{}", "HashedIterable()"):
                return self.ev(e.values[0])  # `sources or {}`: the incoming bindings
            vals = [self.truth(v) for v in e.values]
            return all(vals) if isinstance(e.op, ast.And) else any(vals)
        if isinstance(e, ast.Attribute):
            o = self.ev(e.value)
            if isinstance(o, _Node):
                if e.attr in ("left", "right"):
                    return getattr(o, e.attr)
                if e.attr in o.attrs:
                    return o.attrs[e.attr]
                if e.attr == "_conclusion_":
                    return _ConclRef("self")
            if isinstance(o, _Operand):
                if e.attr == "_is_false_":
                    return o._is_false_
                if e.attr == "_conclusion_":
                    return _ConclRef(o.side)
            if isinstance(o, _Val) and e.attr in ("bindings", "is_false"):
                return getattr(o, e.attr)
            raise TranslationError(f"attribute not recognised: {_src(e)}")
        if isinstance(e, ast.Call):
            return self.call(e)
        raise TranslationError(f"expression not recognised: {_src(e)}")

    def truth(self, e: ast.AST) -> bool:
        v = self.ev(e)
        if not isinstance(v, bool):
            raise TranslationError(f"not a truth value: {_src(e)}")
        return v

    def call(self, c: ast.Call) -> Any:
        n = self.node
        f = c.func
        if any(isinstance(a, ast.Starred) for a in c.args) or any(k.arg is None for k in c.keywords):
            raise TranslationError(f"call not recognised: {_src(c)}")
        if _is_name(f, "OperationResult"):
            if len(c.args) != 3 or c.keywords or not _is_name(c.args[2], "self"):
                raise TranslationError(f"result not recognised: {_src(c)}")
            b, fl = self.ev(c.args[0]), self.ev(c.args[1])
            if not isinstance(fl, bool) or not isinstance(b, (tuple, str)):
                raise TranslationError(f"result not recognised: {_src(c)}")
            return _Val(b, fl)
        if isinstance(f, ast.Attribute):
            # self.left._evaluate__(src, parent=self)
            if f.attr == "_evaluate__" and _src(f.value) in ("self.left", "self.right"):
                if len(c.args) != 1 or [k.arg for k in c.keywords] != ["parent"] or not _is_name(c.keywords[0].value, "self"):
                    raise TranslationError(f"operand evaluation not recognised: {_src(c)}")
                src = self.ev(c.args[0])
                if not isinstance(src, (tuple, str)):
                    raise TranslationError(f"operand evaluated from {_src(c.args[0])}")
                return n.operand_gen(getattr(n, f.value.attr), src)
            # super().m(...)
            if _src(f.value) == "super()":
                lvl, fn = n.find(f.attr, self.level)
                return self.invoke(lvl, fn, c)
            if _is_name(f.value, "self"):
                if f.attr == "update_conclusion":
                    if len(c.args) != 2 or c.keywords:
                        raise TranslationError(f"update_conclusion call not recognised: {_src(c)}")
                    v, ref = self.ev(c.args[0]), self.ev(c.args[1])
                    if not isinstance(v, _Val) or not isinstance(ref, _ConclRef) or ref.who == "self":
                        raise TranslationError(f"update_conclusion call not recognised: {_src(c)}")
                    n.content.append((ref.who, n.attrs["_is_false_"], v.bindings))
                    return None
                lvl, fn = n.find(f.attr)
                return self.invoke(lvl, fn, c)
            if f.attr == "clear" and _src(f.value) == "self._conclusion_" and not c.args and not c.keywords:
                n.content.clear()
                return None
        raise TranslationError(f"call not recognised: {_src(c)}")

    def invoke(self, lvl: int, fn: ast.FunctionDef, c: ast.Call):
        fr = _Frame(self.node, lvl, fn, [self.ev(a) for a in c.args], {k.arg: self.ev(k.value) for k in c.keywords})
        is_gen = any(isinstance(x, (ast.Yield, ast.YieldFrom)) for x in ast.walk(fn))
        if is_gen:
            return fr.run()
        for _ in fr.run():
            raise TranslationError("yield in a procedure")
        return None

    # ---- statements (a Python generator: exact interleaving with the consumer)
    def run(self):
        try:
            yield from self.block(_strip(self.fn.body))
        except _Return:
            return

    def block(self, stmts: List[ast.stmt]):
        for st in stmts:
            yield from self.stmt(st)

    def stmt(self, st: ast.stmt):
        n = self.node
        n.steps += 1
        if n.steps > 20000:
            raise TranslationError("abstract execution does not terminate")
        if isinstance(st, ast.Assign):
            if len(st.targets) != 1:
                raise TranslationError(f"assignment not recognised: {_src(st)}")
            tg = st.targets[0]
            if isinstance(tg, ast.Name):
                self.env[tg.id] = self.ev(st.value)
                return
            if isinstance(tg, ast.Attribute) and _is_name(tg.value, "self"):
                if tg.attr == "_eval_parent_":
                    return
                if tg.attr in n.attrs:
                    n.attrs[tg.attr] = self.truth(st.value)
                    return
            raise TranslationError(f"assignment not recognised: {_src(st)}")
        if isinstance(st, ast.For):
            if st.orelse or not isinstance(st.target, ast.Name):
                raise TranslationError(f"loop not recognised: {_src(st)[:80]}")
            it = self.ev(st.iter)
            if not hasattr(it, "__next__"):
                raise TranslationError(f"loop over {_src(st.iter)}")
            for v in it:
                self.env[st.target.id] = v
                try:
                    yield from self.block(st.body)
                except _Continue:
                    continue
            return
        if isinstance(st, ast.If):
            yield from self.block(st.body if self.truth(st.test) else st.orelse)
            return
        if isinstance(st, ast.Continue):
            raise _Continue()
        if isinstance(st, ast.Return):
            if st.value is not None:
                raise TranslationError("return with a value in a generator")
            raise _Return()
        if isinstance(st, ast.Expr):
            v = st.value
            if isinstance(v, ast.Constant):
                return
            if isinstance(v, ast.Yield):
                if v.value is None:
                    raise TranslationError("bare yield")
                x = self.ev(v.value)
                if not isinstance(x, _Val):
                    raise TranslationError(f"yield of {_src(v.value)}")
                yield x
                return
            if isinstance(v, ast.YieldFrom):
                it = self.ev(v.value)
                if not hasattr(it, "__next__"):
                    raise TranslationError(f"yield from {_src(v.value)}")
                yield from it
                return
            if isinstance(v, ast.Call):
                r = self.call(v)
                if r is not None:
                    raise TranslationError(f"result of {_src(v)} dropped")
                return
        if isinstance(st, ast.Pass):
            return
        raise TranslationError(f"statement not recognised: {_src(st)[:100]}")


class _Continue(Exception):
    pass


class _Return(Exception):
    pass


def _trace(mro, left_script, right_scripts) -> List[Tuple]:
    """events of one abstract evaluation; a yield is recorded with what the consumer sees at that moment"""
    n = _Node(mro, left_script, right_scripts)
    lvl, fn = n.find("_evaluate__")
    fr = _Frame(n, lvl, fn, ["sources"], {"parent": "parent"})
    for v in fr.run():
        if not isinstance(v, _Val):
            raise TranslationError("yield of a non-result")
        n.events.append(("yield", v.bindings, v.is_false, tuple(n.content)))
    return n.events


Emit = Tuple[bool, str]  # (isF, pick)


def _emit_of(ev: Tuple, want_bindings) -> Emit:
    _, b, is_f, content = ev
    if b != want_bindings:
        raise TranslationError(f"result for {want_bindings} carries bindings {b}")
    if len(content) == 0:
        return (is_f, "none")
    if len(content) == 1:
        who, flag, vb = content[0]
        if flag != is_f:
            raise TranslationError("truth flag at update_conclusion differs from the truth flag of the result")
        if vb != b:
            raise TranslationError("update_conclusion handed the bindings of another result")
        return (is_f, who)
    raise TranslationError("more than one selection carried by one result")


def _decode(mro) -> Dict[str, Any]:
    """SelRow from the four one-value scenarios"""
    tr = {(lt, rt): _trace(mro, [lt], [[rt]]) for lt in (True, False) for rt in (True, False)}
    row: Dict[str, Any] = {}
    then = {}
    for lt in (True, False):
        per_rt = {}
        for rt in (True, False):
            ev = tr[(lt, rt)]
            if not ev or ev[0] != ("evalL", "sources"):
                raise TranslationError("the left operand is not evaluated first, from the incoming bindings")
            ev = ev[1:]
            if any(e[0] == "evalL" for e in ev):
                raise TranslationError("the left operand is evaluated more than once")
            cut = next((i for i, e in enumerate(ev) if e == ("evalR", "sources")), None)
            seg, tail = (ev, None) if cut is None else (ev[:cut], ev[cut + 1:])
            L0 = ("L", 0)
            if seg and seg[0] == ("evalR", L0):
                ys = seg[1:]
                if any(e[0] != "yield" for e in ys):
                    raise TranslationError("right operand evaluated twice for one left value")
                r_emits = [e for e in ys if e[1] == ("R", 0, 0)]
                l_emits = [e for e in ys if e[1] == L0]
                if len(r_emits) + len(l_emits) != len(ys) or len(r_emits) > 1 or len(l_emits) > 1 or (r_emits and l_emits and ys.index(l_emits[0]) < ys.index(r_emits[0])):
                    raise TranslationError("results after the right operand's evaluation not recognised")
                per_rt[rt] = ("evalRight", _emit_of(r_emits[0], ("R", 0, 0)) if r_emits else None,
                              _emit_of(l_emits[0], L0) if l_emits else None)
            else:
                if len(seg) != 1 or seg[0][0] != "yield":
                    raise TranslationError("a left value is neither passed on once nor handed to the right operand")
                per_rt[rt] = ("emit", _emit_of(seg[0], L0))
            k = 1 if cut is None or per_rt[rt][0] == "emit" else 1
            if tail is None:
                then[(lt, rt)] = None
            else:
                calls = 1 if per_rt[rt][0] == "evalRight" else 0
                if any(e[0] != "yield" for e in tail) or len(tail) > 1:
                    raise TranslationError("results of the second evaluation of the right operand not recognised")
                then[(lt, rt)] = ("some", _emit_of(tail[0], ("R", calls, 0)) if tail else None)
        a, b = per_rt[True], per_rt[False]
        if a[0] != b[0]:
            raise TranslationError("whether the right operand is evaluated depends on its own values")
        if a[0] == "emit":
            if a != b:
                raise TranslationError("a result that does not involve the right operand depends on it")
            row["leftTrue" if lt else "leftFalse"] = ("emit", a[1])
        else:
            if a[2] is not None:
                raise TranslationError("fallback result although a right value was true")
            row["leftTrue" if lt else "leftFalse"] = ("evalRight", a[1], b[1], b[2])
    kinds = {(v is None) for v in then.values()}
    if len(kinds) != 1:
        raise TranslationError("second evaluation of the right operand depends on the values")
    if then[(True, True)] is None:
        row["thenRight"] = None
    else:
        on_t = {then[(lt, True)][1] for lt in (True, False)}
        on_f = {then[(lt, False)][1] for lt in (True, False)}
        if len(on_t) != 1 or len(on_f) != 1:
            raise TranslationError("second evaluation of the right operand depends on the left values")
        row["thenRight"] = (on_t.pop(), on_f.pop())
    return row


def _predict(row: Dict[str, Any], left_script: List[bool], right_scripts: List[List[bool]]) -> List[Tuple]:
    """the trace a row means (mirrors `evalWith` / `onLeftWith` of Model/RuleTables.lean, in generator order)"""
    ev: List[Tuple] = [("evalL", "sources")]
    calls = 0

    def y(b, e: Emit):
        return ("yield", b, e[0], () if e[1] == "none" else ((e[1], e[0], b),))

    for i, lt in enumerate(left_script):
        act = row["leftTrue"] if lt else row["leftFalse"]
        L = ("L", i)
        if act[0] == "emit":
            ev.append(y(L, act[1]))
        else:
            _, on_t, on_f, no_t = act
            ev.append(("evalR", L))
            rs = right_scripts[calls % len(right_scripts)]
            for j, rt in enumerate(rs):
                e = on_t if rt else on_f
                if e is not None:
                    ev.append(y(("R", calls, j), e))
            calls += 1
            if no_t is not None and not any(rs):
                ev.append(y(L, no_t))
    if row["thenRight"] is not None:
        on_t, on_f = row["thenRight"]
        ev.append(("evalR", "sources"))
        rs = right_scripts[calls % len(right_scripts)]
        for j, rt in enumerate(rs):
            e = on_t if rt else on_f
            if e is not None:
                ev.append(y(("R", calls, j), e))
    return ev


T, F = True, False
VALIDATION = [
    ([T, F, T], [[F, T, T], [], [F, F], [T]]),
    ([F, F], [[T], [F, T]]),
    ([T, T], [[F], [T, F, T]]),
    ([], [[T]]),
    ([F, T, F, T], [[], [T, T], [F], [F, F, T]]),
    ([T], [[]]),
    ([F], [[]]),
    ([T, F], [[T, T, F]]),
]


def selector_row(mro) -> Dict[str, Any]:
    row = _decode(mro)
    for ls, rs in VALIDATION + [([lt], [[rt]]) for lt in (T, F) for rt in (T, F)]:
        got, want = _trace(mro, ls, rs), _predict(row, ls, rs)
        if got != want:
            raise TranslationError(f"selector does not have the table form: left {ls} right {rs}:\n  code : {got}\n  table: {want}")
    return row


def _lean_emit(e: Optional[Emit]) -> str:
    return "none" if e is None else f"(some ⟨{_b(e[0])}, .{e[1]}⟩)"


def _lean_onleft(a) -> str:
    if a[0] == "emit":
        return f".emit ⟨{_b(a[1][0])}, .{a[1][1]}⟩"
    return f".evalRight {_lean_emit(a[1])} {_lean_emit(a[2])} {_lean_emit(a[3])}"


def _lean_row(row) -> str:
    th = "none" if row["thenRight"] is None else f"some ({_lean_emit(row['thenRight'][0])[1:-1] if row['thenRight'][0] else 'none'}, {_lean_emit(row['thenRight'][1])[1:-1] if row['thenRight'][1] else 'none'})"
    return "{ leftTrue := %s, leftFalse := %s, thenRight := %s }" % (_lean_onleft(row["leftTrue"]), _lean_onleft(row["leftFalse"]), th)


# ---- class structure

EXPECTED_BASES = {
    "ExceptIf": ["ConclusionSelector"],
    "Alternative": ["ElseIf", "ConclusionSelector"],
    "Next": ["EQLUnion", "ConclusionSelector"],
}
GEN_METHODS = ("_evaluate__", "evaluate_left", "evaluate_right", "yield_and_update_conclusion")


def _mros(repo: Path):
    sel = ast.parse((repo / SEL_PATH).read_text())
    sym = ast.parse((repo / SYM_PATH).read_text())
    sc, yc = _classes(sel), _classes(sym)
    # `Union as EQLUnion`, `ElseIf` imported from .symbolic
    imported = {}
    for n in sel.body:
        if isinstance(n, ast.ImportFrom) and n.module == "symbolic" and n.level == 1:
            for a in n.names:
                imported[a.asname or a.name] = a.name
    if imported.get("EQLUnion") != "Union" or imported.get("ElseIf") != "ElseIf":
        raise TranslationError("conclusion_selector no longer imports ElseIf / Union as EQLUnion from .symbolic")
    for c, bases in EXPECTED_BASES.items():
        if c not in sc or [_src(b) for b in sc[c].bases] != bases:
            raise TranslationError(f"bases of {c} changed")
    for c, bases in (("ElseIf", ["OR"]), ("Union", ["OR"]), ("OR", ["LogicalBinaryOperator", "ABC"])):
        if c not in yc or [_src(b) for b in yc[c].bases] != bases:
            raise TranslationError(f"bases of {c} changed")
    if [_src(b) for b in sc["ConclusionSelector"].bases] != ["LogicalBinaryOperator", "ABC"]:
        raise TranslationError("bases of ConclusionSelector changed")
    for c in ("LogicalBinaryOperator", "LogicalOperator", "BinaryOperator"):
        if c in yc and any(m in _methods(yc[c]) for m in GEN_METHODS + ("update_conclusion",)):
            raise TranslationError(f"{c} defines a selector method")

    def only(c: ast.ClassDef, allowed) -> Dict[str, ast.FunctionDef]:
        ms = _methods(c)
        return {k: v for k, v in ms.items() if k in allowed}
    cs = only(sc["ConclusionSelector"], GEN_METHODS)
    if cs:
        raise TranslationError("ConclusionSelector defines an evaluation method")
    return {
        "exceptIf": [only(sc["ExceptIf"], GEN_METHODS), cs],
        "alt": [only(sc["Alternative"], GEN_METHODS), only(yc["ElseIf"], GEN_METHODS), only(yc["OR"], GEN_METHODS), cs],
        "next": [only(sc["Next"], GEN_METHODS), only(yc["Union"], GEN_METHODS), only(yc["OR"], GEN_METHODS), cs],
    }, sc["ConclusionSelector"]


# ---- update_conclusion / _reset_evaluation_state_ : templates up to renaming of locals

class _Alpha(ast.NodeTransformer):
    """rename locals to v0, v1, … in order of first binding; lambda parameters and comprehension variables are scopes of
    their own (a name reused there is not the outer name)"""

    def __init__(self, keep):
        self.keep, self.map, self.n = set(keep), {}, 0

    def fresh(self) -> str:
        self.n += 1
        return f"v{self.n - 1}"

    def name(self, n: str) -> str:
        if n in self.keep:
            return n
        if n not in self.map:
            self.map[n] = self.fresh()
        return self.map[n]

    def visit_Name(self, node):
        return ast.copy_location(ast.Name(id=self.name(node.id), ctx=node.ctx), node)

    def visit_Lambda(self, node):
        saved = dict(self.map)
        for a in node.args.args:
            self.map[a.arg] = self.fresh()
        out = ast.Lambda(args=ast.arguments(posonlyargs=[], args=[ast.arg(arg=self.map[a.arg]) for a in node.args.args],
                                            kwonlyargs=[], kw_defaults=[], defaults=[]), body=self.visit(node.body))
        self.map = saved
        return ast.copy_location(out, node)

    def _comp(self, node, fields):
        saved = dict(self.map)
        gens = []
        for g in node.generators:
            it = self.visit(g.iter)
            for t in ast.walk(g.target):
                if isinstance(t, ast.Name):
                    self.map[t.id] = self.fresh()
            gens.append(ast.comprehension(target=self.visit(g.target), iter=it, ifs=[self.visit(i) for i in g.ifs], is_async=0))
        kw = {f: self.visit(getattr(node, f)) for f in fields}
        self.map = saved
        return ast.copy_location(type(node)(generators=gens, **kw), node)

    def visit_DictComp(self, node):
        return self._comp(node, ("key", "value"))

    def visit_ListComp(self, node):
        return self._comp(node, ("elt",))

    def visit_SetComp(self, node):
        return self._comp(node, ("elt",))

    def visit_GeneratorExp(self, node):
        return self._comp(node, ("elt",))


GLOBALS = {"self", "isinstance", "frozenset", "ConclusionSelector", "HashedIterable", "Literal", "SeenSet", "super", "set", "dict"}


def _canon(stmts: List[ast.stmt], extra_keep=()) -> List[str]:
    a = _Alpha(GLOBALS | set(extra_keep))
    return [_src(a.visit(copy.deepcopy(s))) for s in stmts]


def dedup_spec(cs: ast.ClassDef) -> str:
    ms = _methods(cs)
    fn = ms.get("update_conclusion")
    if fn is None or [a.arg for a in fn.args.args][0] != "self" or len(fn.args.args) != 3:
        raise TranslationError("update_conclusion not found")
    out, con = fn.args.args[1].arg, fn.args.args[2].arg
    body = _canon(_strip(fn.body), (out, con))
    spec = {"emptySkips": False, "innerHandsOn": False}
    if body and body[0] == f"if not {con}:\n    return":
        spec["emptySkips"] = True
        body = body[1:]
    if body and body[0] == f"if isinstance(self._parent_, ConclusionSelector):\n    self._conclusion_.update({con})\n    return":
        spec["innerHandsOn"] = True
        body = body[1:]
    # the bindings of the conclusions' non-literal variables (templates canonicalised the same way)
    def tmpl(src: str) -> List[str]:
        return _canon(ast.parse(src).body, ("OUT", "CON"))
    variants = [tmpl(
        "rv = HashedIterable()\n"
        "for c in CON:\n"
        "    vs = c._unique_variables_.filter(lambda v: not isinstance(v.value, Literal))\n"
        "    rv.update(vs)\n"
        "ro = {k: v for k, v in OUT.bindings.items() if k in rv}\n"
        "mem = 0\n"), tmpl(
        "rv = HashedIterable()\n"
        "for c in CON:\n"
        "    rv.update(c._unique_variables_.filter(lambda v: not isinstance(v.value, Literal)))\n"
        "ro = {k: v for k, v in OUT.bindings.items() if k in rv}\n"
        "mem = 0\n")]
    got3 = [b.replace(out, "OUT").replace(con, "CON") for b in body[:3]]
    ro = mem = None
    for v in variants:
        if got3 == v[:3]:
            ro, mem = v[2].split(" = ")[0], v[3].split(" = ")[0]
    if ro is None:
        raise TranslationError("update_conclusion: computation of the key bindings not recognised:\n" + "\n".join(body[:3]))
    body = body[3:]
    if len(body) != 2:
        raise TranslationError("update_conclusion: tail not recognised")
    pre, post = f"{mem} = self.concluded_before.setdefault(", ", SeenSet())"
    if not (body[0].startswith(pre) and body[0].endswith(post)):
        raise TranslationError(f"update_conclusion: memory look-up not recognised: {body[0]}")
    key = ast.parse(body[0][len(pre):-len(post)], mode="eval").body
    parts = [_src(x) for x in (key.elts if isinstance(key, ast.Tuple) else [key])]
    allowed = {"not self._is_false_": "keyTruth", f"frozenset({con})": "keyConclusions"}
    if len(set(parts)) != len(parts) or any(p not in allowed for p in parts):
        raise TranslationError(f"update_conclusion: key not recognised: {_src(key)}")
    for p, f in allowed.items():
        spec[f] = p in parts
    if body[1] != f"if not {mem}.check({ro}):\n    self._conclusion_.update({con})\n    {mem}.add({ro})":
        raise TranslationError(f"update_conclusion: check/add not recognised: {body[1]}")
    spec["keyBindings"] = True
    # the field
    fld = [n for n in cs.body if isinstance(n, ast.AnnAssign) and _is_name(n.target, "concluded_before")]
    if len(fld) != 1 or fld[0].value is None or _src(fld[0].value) not in ("field(default_factory=dict, init=False)", "field(init=False, default_factory=dict)"):
        raise TranslationError("concluded_before field not recognised")
    # reset
    rs = ms.get("_reset_evaluation_state_")
    spec["resetMemory"] = spec["resetSelection"] = False
    if rs is not None:
        rb = _canon(_strip(rs.body))
        if not rb or rb[0] != "super()._reset_evaluation_state_()":
            raise TranslationError("_reset_evaluation_state_ does not call super() first")
        for st in rb[1:]:
            if st == "for v0 in self.concluded_before.values():\n    v0.clear()" or st == "self.concluded_before.clear()":
                spec["resetMemory"] = True
            elif st == "self._conclusion_.clear()":
                spec["resetSelection"] = True
            else:
                raise TranslationError(f"_reset_evaluation_state_: statement not recognised: {st}")
    order = ["emptySkips", "innerHandsOn", "keyTruth", "keyConclusions", "keyBindings", "resetMemory", "resetSelection"]
    return "⟨" + ", ".join(_b(spec[k]) for k in order) + "⟩"


def selector_table(repo: Path) -> str:
    mros, cs = _mros(repo)
    rows = {k: _lean_row(selector_row(m)) for k, m in mros.items()}
    return ("{ exceptIf := %s,\n    alt := %s,\n    next := %s,\n    dedup := %s }"
            % (rows["exceptIf"], rows["alt"], rows["next"], dedup_spec(cs)))


# =============================================================================================== output

TRANSLATED = ["C08_translated_surgery_eq_model", "C08_translated_selectors_eq_model", "C08_end_to_end_translated"]


def generate_parts(repo: Path) -> Tuple[str, Dict[str, str]]:
    """-> (Lean text, {obligation: why it could not be generated}). A table whose translation is rejected is left out
    together with the obligations that need it; the other table's equality is still checked."""
    repo = Path(repo)
    errors: Dict[str, str] = {}
    tabs: Dict[str, Optional[str]] = {}
    for key, fn, needs in (("surgery", surgery_table, TRANSLATED[0]), ("selectors", selector_table, TRANSLATED[1])):
        try:
            tabs[key] = fn(repo)
        except (TranslationError, SyntaxError, OSError, RecursionError, KeyError, IndexError, AttributeError, TypeError, ValueError) as e:
            tabs[key] = None
            errors[needs] = f"translator rejected the source ({key}): {type(e).__name__}: {e}"
    if errors:
        errors[TRANSLATED[2]] = "needs both tables: " + " | ".join(errors.values())
    out = [f"import KrroodVerif.Props.C08Tables\n/-! GENERATED by harness/translate/c08_translate.py from {RULE_PATH}, {SEL_PATH}, {SYM_PATH} -/\n"
           "namespace KrroodVerif.Rdr.Translated\nopen KrroodVerif.Rdr\n"]
    if tabs["surgery"] is not None:
        out.append(f"\ndef surgery : SurgeryTable :=\n  {tabs['surgery']}\n")
    if tabs["selectors"] is not None:
        out.append(f"\ndef selectors : SelectorTable :=\n  {tabs['selectors']}\n")
    out.append("\nend KrroodVerif.Rdr.Translated\nnamespace KrroodVerif.Rdr\n")
    if tabs["surgery"] is not None:
        out.append("\n/-- the surgery `rule.py` performs now is the one the model's builder transcribes -/\n"
                   "theorem C08_translated_surgery_eq_model : Translated.surgery = Rdr.surgery := by decide\n")
    if tabs["selectors"] is not None:
        out.append("\n/-- the decision rows of `conclusion_selector.py` now are the ones the model's evaluator transcribes -/\n"
                   "theorem C08_translated_selectors_eq_model : Translated.selectors = Rdr.selectors := by decide\n")
    if not errors:
        out.append("""
/-- `C08_end_to_end` for the tables regenerated from the code: builder and evaluator interpreted from them return
exactly the rows of the specification, for every unambiguous program, every payload and every domain -/
theorem C08_end_to_end_translated (p : Prog) (pay : Payload) (dom : List Nat) (hu : p.unambiguous = true) :
    ∃ t, (buildWith Translated.surgery p).bind BState.tree = some t ∧
      ∀ c x, (c, x) ∈ evalTopWith Translated.selectors.oneVar pay dom t ↔ (c, x) ∈ spec pay p dom :=
  C08_end_to_end_of_tables Translated.surgery Translated.selectors
    C08_translated_surgery_eq_model C08_translated_selectors_eq_model p pay dom hu
""")
    out.append("\nend KrroodVerif.Rdr\n")
    return "".join(out), errors


def generate(repo: Path) -> str:
    text, errors = generate_parts(repo)
    if errors:
        raise TranslationError(" | ".join(errors.values()))
    return text


if __name__ == "__main__":
    import sys
    print(generate(Path(sys.argv[1] if len(sys.argv) > 1 else "/repo")))
