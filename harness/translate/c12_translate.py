"""Translator (Python AST -> Lean 4) for the construction-time code of C12 — the second tie between the model
`Model/Predicate.lean` and the code:

  predicate.py : `get_function_argument_names`, `merge_args_and_kwargs`, `symbolic_function.wrapper`, `Predicate.__new__`
  symbolic.py  : `_any_of_the_kwargs_is_a_variable` and the `class` statements above `Variable`/`Attribute`/`Index`/`Call`

From the CURRENT source it regenerates

    def classTable                        direct bases of every ancestor of Variable / Attribute / Index / Call
    def merge_args_and_kwargs             the merge (starting index, slice, zip with the positionals, update(kwargs))
    def any_of_the_kwargs_is_a_variable   the decision (which values are looked at, which class is tested)
    def symbolic_function_wrapper, predicate_new, dispatchT
                                          what is merged with which flag, what the condition carries, what is invoked
                                          in the concrete case (`function(*args, **kwargs)` / `super().__new__(cls)`
                                          followed by Python's own `__init__(*args, **kwargs)`)

and the obligations, re-checked by the Lean kernel on every run:

    C12_merge_translated_eq_model      ∀ names flag args kwargs,  translated merge = Pred.mergeArgs
    C12_decision_translated_eq_model   ∀ merged dict,             translated decision = Pred.isSymbolic
    C12_dispatch_translated_eq_model   ∀ call (any signature, any split, any kind), dispatchT = Pred.dispatch codeQuirks
    C12_translated_merge_eq_bind       the property C12_merge_eq_bind, stated of the translated merge
    C12_translated_meets_property      the property C12_dispatch, stated of the translated dispatch

STRICT: every statement / expression shape not listed here raises `TranslationError` (the check then reports the
obligations as broken, searches for a concrete failing input and says `no-failing-input-found` if there is none).

Pure expression language of the merge (typed: names / args / pairs / dict / nat / bool):
  parameters `args`, `kwargs`, `ignore_first`; locals (inlined at their uses); int / bool constants
  `A if T else B`, `not T`, `int(<bool>)`
  `get_function_argument_names(function)`                  -> names      (its body is checked, see below)
  `<names>[i:]`, `<names>[:i]`, `<args>[i:]`, `<args>[:i]`  -> List.drop / List.take
  `zip(<names>, <args>)`                                    -> pairs
  `{k: v for k, v in <pairs>}`, `dict(<pairs>)`, `dict(<pairs>, **<dict>)`  -> Dict.ofPairs [+ update]
  `dict(<dict>)`, `<dict>.copy()`, `{**<dict>, **<dict>}`, `<dict> | <dict>`  -> copy / Dict.update
  `list(<list>)`, `tuple(<list>)`                           -> identity
Statements of the merge: docstring, `pass`, `local = expr`, `local: T = expr`, `<fresh local dict>.update(<dict>)`,
`<fresh local dict> |= <dict>`, `return <dict>`. A parameter is never mutated (`kwargs.update(...)` is rejected: the
wrapper passes the same dict on to the function).
`get_function_argument_names(function)`: `return list(inspect.signature(function).parameters[.keys()])` or
`[*…]` / `[n for n in …]`; any decorator among lru_cache / cache.

Decision: `return any(<test> for v in <dict>.values())` (generator or list comprehension) or the loop
`for v in <dict>.values(): if <test>: return True` + `return False`; `<test>` = `isinstance(v, C)`,
`isinstance(v, (C1, C2))`, `or` / `and` / `not` of tests; `C` a class defined at the top level of symbolic.py.

Dispatchers (`wrapper(*args, **kwargs)` inside `symbolic_function(function)` decorated with `wraps(function)` and
returned; `Predicate.__new__(cls, *args, **kwargs)`): docstring;
  `D = merge_args_and_kwargs(F, args, kwargs[, [ignore_first=]<bool>])`   F = `function` / `cls.__init__`
  `inspect.signature(F').bind(*args, **kwargs)`  (binds the call as written first; F' = `function` / `cls`, or
                                                  `inspect.signature(cls.__init__).bind(None, *args, **kwargs)`)
  `if [not] _any_of_the_kwargs_is_a_variable(<dict>): return R1` [`else: return R2`] … `return R2`
  R symbolic: `Variable(_type_=F', _kwargs_=<dict>, _predicate_type_=PredicateType.<expected>, _name__=…)`
  R concrete: `function(*<list>, **<dict>)` / `function(**<dict>)` / `super().__new__(cls[, *args, **kwargs])`
Normalisations (identity for every input): local names, aliases, parameter names, comments, docstrings, blank lines,
the equivalent spellings listed above, `ignore_first` passed positionally / by keyword / left to its default, `else`
after `return`, `if not T` with the branches swapped, order of the keywords of `Variable(...)`, class statements that
are no ancestors of the four argument classes.
"""
from __future__ import annotations

import ast
from pathlib import Path
from typing import Dict, List, Optional, Tuple


class TranslationError(Exception):
    pass


ARG_CLASSES = ["Variable", "Attribute", "Index", "Call"]  # the krrood classes of written arguments (Pred.Arg.pyClass)
Term = Tuple[str, str]  # (Lean term, type)  type in names | args | pairs | dict | nat | bool


def _skippable(s: ast.stmt) -> bool:
    return isinstance(s, ast.Pass) or (isinstance(s, ast.Expr) and isinstance(s.value, ast.Constant))


def _body(fn: ast.FunctionDef) -> List[ast.stmt]:
    return [s for s in fn.body if not _skippable(s)]


# ------------------------------------------------------------------------------------------------ class table

def class_table(sym: ast.Module) -> Dict[str, List[str]]:
    table: Dict[str, List[str]] = {}
    for c in sym.body:
        if isinstance(c, ast.ClassDef):
            if c.name in table:
                raise TranslationError(f"class {c.name} defined twice in symbolic.py")
            bases = []
            for b in c.bases:
                if isinstance(b, ast.Subscript):
                    b = b.value
                if not isinstance(b, (ast.Name, ast.Attribute)):
                    raise TranslationError(f"unsupported base {ast.unparse(b)} of class {c.name}")
                bases.append(ast.unparse(b).split(".")[-1])
            if c.keywords:
                raise TranslationError(f"class {c.name} has class keywords (metaclass?)")
            table[c.name] = bases
    for need in ARG_CLASSES:
        if need not in table:
            raise TranslationError(f"class {need} not found in symbolic.py")
    keep: List[str] = []
    todo = list(ARG_CLASSES)
    while todo:
        n = todo.pop()
        if n in keep or n not in table:
            continue
        keep.append(n)
        todo.extend(table[n])
    return {n: table[n] for n in sorted(keep)}


# ------------------------------------------------------------------------------------------------ the merge

class _Merge:
    def __init__(self, fn: ast.FunctionDef, names_fn: ast.FunctionDef):
        a = fn.args
        if a.vararg or a.kwarg or a.kwonlyargs or a.posonlyargs or len(a.args) != 4:
            raise TranslationError(f"merge_args_and_kwargs signature changed: {ast.unparse(a)}")
        self.p_function, self.p_args, self.p_kwargs, self.p_flag = [x.arg for x in a.args]
        if len(a.defaults) > 1 or (a.defaults and not (isinstance(a.defaults[0], ast.Constant)
                                                       and isinstance(a.defaults[0].value, bool))):
            raise TranslationError(f"merge_args_and_kwargs defaults changed: {ast.unparse(a)}")
        self.flag_default: Optional[bool] = a.defaults[0].value if a.defaults else None
        self.env: Dict[str, Term] = {self.p_args: ("args", "args"), self.p_kwargs: ("kwargs", "dict"),
                                     self.p_flag: ("ignore_first", "bool")}
        self.fresh: set = set()
        self.fn = fn
        _check_names_fn(names_fn)

    def expr(self, e: ast.AST) -> Term:
        if isinstance(e, ast.Name):
            if e.id in self.env:
                return self.env[e.id]
            raise TranslationError(f"unknown name {e.id} in merge_args_and_kwargs")
        if isinstance(e, ast.Constant):
            if isinstance(e.value, bool):
                return ("true" if e.value else "false", "bool")
            if isinstance(e.value, int) and e.value >= 0:
                return (str(e.value), "nat")
            raise TranslationError(f"unsupported constant {e.value!r}")
        if isinstance(e, ast.IfExp):
            t, a, b = self.expr(e.test), self.expr(e.body), self.expr(e.orelse)
            if t[1] != "bool" or a[1] != b[1]:
                raise TranslationError(f"unsupported conditional {ast.unparse(e)}")
            return (f"(if {t[0]} then {a[0]} else {b[0]})", a[1])
        if isinstance(e, ast.UnaryOp) and isinstance(e.op, ast.Not):
            t = self.expr(e.operand)
            if t[1] != "bool":
                raise TranslationError(f"`not` of a non-boolean: {ast.unparse(e)}")
            return (f"(!{t[0]})", "bool")
        if isinstance(e, ast.Subscript) and isinstance(e.slice, ast.Slice):
            v, sl = self.expr(e.value), e.slice
            if v[1] not in ("names", "args") or sl.step is not None or (sl.lower is None) == (sl.upper is None):
                raise TranslationError(f"unsupported slice {ast.unparse(e)}")
            i = self.expr(sl.lower if sl.lower is not None else sl.upper)
            if i[1] != "nat":
                raise TranslationError(f"slice bound is not a natural number: {ast.unparse(e)}")
            return (f"(List.{'drop' if sl.lower is not None else 'take'} {i[0]} {v[0]})", v[1])
        if isinstance(e, ast.DictComp):
            g = e.generators
            if (len(g) != 1 or g[0].ifs or g[0].is_async or not isinstance(g[0].target, ast.Tuple)
                    or len(g[0].target.elts) != 2 or not all(isinstance(x, ast.Name) for x in g[0].target.elts)
                    or not isinstance(e.key, ast.Name) or not isinstance(e.value, ast.Name)
                    or e.key.id != g[0].target.elts[0].id or e.value.id != g[0].target.elts[1].id
                    or e.key.id == e.value.id):
                raise TranslationError(f"unsupported dict comprehension {ast.unparse(e)}")
            it = self.expr(g[0].iter)
            if it[1] != "pairs":
                raise TranslationError(f"dict comprehension over something that is not name/argument pairs: {ast.unparse(e)}")
            return (f"(Dict.ofPairs {it[0]})", "dict")
        if isinstance(e, ast.Dict):
            if not e.values or any(k is not None for k in e.keys):
                raise TranslationError(f"unsupported dict display {ast.unparse(e)}")
            parts = [self.expr(v) for v in e.values]
            if any(p[1] != "dict" for p in parts):
                raise TranslationError(f"`**` of a non-dict in {ast.unparse(e)}")
            out = parts[0][0]
            for p in parts[1:]:
                out = f"(Dict.update {out} {p[0]})"
            return (out, "dict")
        if isinstance(e, ast.BinOp) and isinstance(e.op, ast.BitOr):
            a, b = self.expr(e.left), self.expr(e.right)
            if a[1] != "dict" or b[1] != "dict":
                raise TranslationError(f"`|` of non-dicts: {ast.unparse(e)}")
            return (f"(Dict.update {a[0]} {b[0]})", "dict")
        if isinstance(e, ast.Call):
            return self.call(e)
        raise TranslationError(f"unsupported expression {ast.unparse(e)}")

    def call(self, e: ast.Call) -> Term:
        f = e.func
        if isinstance(f, ast.Name):
            if f.id == "get_function_argument_names":
                if (len(e.args) != 1 or e.keywords or not isinstance(e.args[0], ast.Name)
                        or e.args[0].id != self.p_function):
                    raise TranslationError(f"argument names of something that is not the inspected function: {ast.unparse(e)}")
                return ("names", "names")
            if f.id == "zip":
                if len(e.args) != 2 or e.keywords:
                    raise TranslationError(f"unsupported zip {ast.unparse(e)}")
                a, b = self.expr(e.args[0]), self.expr(e.args[1])
                if a[1] != "names" or b[1] != "args":
                    raise TranslationError(f"zip of something else than (parameter names, positional arguments): {ast.unparse(e)}")
                return (f"(List.zip {a[0]} {b[0]})", "pairs")
            if f.id in ("list", "tuple") and len(e.args) == 1 and not e.keywords:
                a = self.expr(e.args[0])
                if a[1] in ("names", "args", "pairs"):
                    return a
            if f.id == "int" and len(e.args) == 1 and not e.keywords:
                a = self.expr(e.args[0])
                if a[1] == "bool":
                    return (f"(if {a[0]} then 1 else 0)", "nat")
            if f.id == "dict" and len(e.args) <= 1 and all(k.arg is None for k in e.keywords) and (e.args or e.keywords):
                parts = [self.expr(k.value) for k in e.keywords]
                if any(p[1] != "dict" for p in parts):
                    raise TranslationError(f"`**` of a non-dict in {ast.unparse(e)}")
                if e.args:
                    a = self.expr(e.args[0])
                    if a[1] == "pairs":
                        out = f"(Dict.ofPairs {a[0]})"
                    elif a[1] == "dict":
                        out = a[0]
                    else:
                        raise TranslationError(f"unsupported dict(...) argument in {ast.unparse(e)}")
                else:
                    out, parts = parts[0][0], parts[1:]
                for p in parts:
                    out = f"(Dict.update {out} {p[0]})"
                return (out, "dict")
        if isinstance(f, ast.Attribute) and f.attr == "copy" and not e.args and not e.keywords:
            a = self.expr(f.value)
            if a[1] == "dict":
                return a
        raise TranslationError(f"unsupported call {ast.unparse(e)}")

    def update(self, target: ast.AST, value: Term, what: str):
        if not isinstance(target, ast.Name) or target.id not in self.fresh:
            raise TranslationError(f"in-place update of something that is not a dict built in this function: {what}")
        if value[1] != "dict":
            raise TranslationError(f"update with a non-dict: {what}")
        self.env[target.id] = (f"(Dict.update {self.env[target.id][0]} {value[0]})", "dict")

    def run(self) -> str:
        result: Optional[Term] = None
        for s in _body(self.fn):
            if result is not None:
                raise TranslationError("statements after `return` in merge_args_and_kwargs")
            if isinstance(s, (ast.Assign, ast.AnnAssign)):
                targets = s.targets if isinstance(s, ast.Assign) else [s.target]
                if len(targets) != 1 or not isinstance(targets[0], ast.Name) or s.value is None:
                    raise TranslationError(f"unsupported assignment {ast.unparse(s)}")
                name = targets[0].id
                if name in (self.p_function, self.p_args, self.p_kwargs, self.p_flag):
                    raise TranslationError(f"parameter {name} is re-bound")
                v = self.expr(s.value)
                self.env[name] = v
                # a dict made by a comprehension / dict(...) / display / copy / `|` is a new object; a bare name is an alias
                if v[1] == "dict" and not isinstance(s.value, ast.Name):
                    self.fresh.add(name)
                else:
                    self.fresh.discard(name)
                continue
            if (isinstance(s, ast.Expr) and isinstance(s.value, ast.Call) and isinstance(s.value.func, ast.Attribute)
                    and s.value.func.attr == "update"):
                c = s.value
                if len(c.args) + len(c.keywords) != 1 or any(k.arg is not None for k in c.keywords):
                    raise TranslationError(f"unsupported update {ast.unparse(s)}")
                self.update(c.func.value, self.expr(c.args[0] if c.args else c.keywords[0].value), ast.unparse(s))
                continue
            if isinstance(s, ast.AugAssign) and isinstance(s.op, ast.BitOr):
                self.update(s.target, self.expr(s.value), ast.unparse(s))
                continue
            if isinstance(s, ast.Return) and s.value is not None:
                result = self.expr(s.value)
                continue
            raise TranslationError(f"unsupported statement in merge_args_and_kwargs: {ast.unparse(s)}")
        if result is None or result[1] != "dict":
            raise TranslationError("merge_args_and_kwargs does not return a dict")
        return result[0]


def _check_names_fn(fn: ast.FunctionDef):
    a = fn.args
    if len(a.args) != 1 or a.vararg or a.kwarg or a.kwonlyargs or a.defaults:
        raise TranslationError("get_function_argument_names signature changed")
    for d in fn.decorator_list:
        if ast.unparse(d.func if isinstance(d, ast.Call) else d).split(".")[-1] not in ("lru_cache", "cache"):
            raise TranslationError(f"unsupported decorator on get_function_argument_names: {ast.unparse(d)}")
    p = a.args[0].arg
    body = _body(fn)
    if len(body) != 1 or not isinstance(body[0], ast.Return) or body[0].value is None:
        raise TranslationError("get_function_argument_names is no longer a single return")
    src = ast.unparse(body[0].value)
    params = f"inspect.signature({p}).parameters"
    ok = {f"list({params}.keys())", f"list({params})", f"[*{params}]", f"[*{params}.keys()]"}
    v = body[0].value
    if isinstance(v, ast.ListComp) and len(v.generators) == 1 and not v.generators[0].ifs \
            and isinstance(v.elt, ast.Name) and isinstance(v.generators[0].target, ast.Name) \
            and v.elt.id == v.generators[0].target.id and ast.unparse(v.generators[0].iter) in (params, params + ".keys()"):
        return
    if src not in ok:
        raise TranslationError(f"get_function_argument_names no longer returns the parameter names of the signature: {src}")


# ------------------------------------------------------------------------------------------------ the decision

class _Decision:
    def __init__(self, fn: ast.FunctionDef, classes: Dict[str, List[str]], all_classes: set):
        a = fn.args
        if len(a.args) != 1 or a.vararg or a.kwarg or a.kwonlyargs or a.defaults:
            raise TranslationError("_any_of_the_kwargs_is_a_variable signature changed")
        self.p = a.args[0].arg
        self.fn = fn
        self.classes = classes
        self.all_classes = all_classes
        self.single_class: Optional[str] = None

    def cls(self, e: ast.AST) -> List[str]:
        if isinstance(e, ast.Tuple):
            return [c for x in e.elts for c in self.cls(x)]
        if isinstance(e, ast.Name):
            if e.id not in self.all_classes:
                raise TranslationError(f"isinstance against {e.id}, which is no class of symbolic.py")
            return [e.id]
        raise TranslationError(f"unsupported class expression {ast.unparse(e)}")

    def test(self, e: ast.AST, v: str) -> str:
        if isinstance(e, ast.BoolOp):
            op = " && " if isinstance(e.op, ast.And) else " || "
            return "(" + op.join(self.test(x, v) for x in e.values) + ")"
        if isinstance(e, ast.UnaryOp) and isinstance(e.op, ast.Not):
            return f"(!{self.test(e.operand, v)})"
        if (isinstance(e, ast.Call) and isinstance(e.func, ast.Name) and e.func.id == "isinstance" and len(e.args) == 2
                and not e.keywords and isinstance(e.args[0], ast.Name) and e.args[0].id == v):
            cs = self.cls(e.args[1])
            if not cs:
                raise TranslationError("isinstance against an empty tuple")
            return "(" + " || ".join(f'isInstance classTable v "{c}"' for c in cs) + ")"
        raise TranslationError(f"unsupported test {ast.unparse(e)}")

    def values_of(self, it: ast.AST):
        if not (isinstance(it, ast.Call) and isinstance(it.func, ast.Attribute) and it.func.attr == "values"
                and not it.args and not it.keywords and isinstance(it.func.value, ast.Name) and it.func.value.id == self.p):
            raise TranslationError(f"the decision iterates over something else than the values of the merged dict: {ast.unparse(it)}")

    def run(self) -> str:
        body = _body(self.fn)
        t = None
        if len(body) == 1 and isinstance(body[0], ast.Return) and isinstance(body[0].value, ast.Call):
            c = body[0].value
            if (isinstance(c.func, ast.Name) and c.func.id == "any" and len(c.args) == 1 and not c.keywords
                    and isinstance(c.args[0], (ast.GeneratorExp, ast.ListComp))):
                g = c.args[0].generators
                if len(g) != 1 or g[0].ifs or g[0].is_async or not isinstance(g[0].target, ast.Name):
                    raise TranslationError(f"unsupported generator {ast.unparse(c)}")
                self.values_of(g[0].iter)
                t = (c.args[0].elt, g[0].target.id)
        elif (len(body) == 2 and isinstance(body[0], ast.For) and not body[0].orelse and isinstance(body[0].target, ast.Name)
              and isinstance(body[1], ast.Return) and isinstance(body[1].value, ast.Constant) and body[1].value.value is False):
            loop = [s for s in body[0].body if not _skippable(s)]
            if (len(loop) == 1 and isinstance(loop[0], ast.If) and not loop[0].orelse and len(loop[0].body) == 1
                    and isinstance(loop[0].body[0], ast.Return) and isinstance(loop[0].body[0].value, ast.Constant)
                    and loop[0].body[0].value.value is True):
                self.values_of(body[0].iter)
                t = (loop[0].test, body[0].target.id)
        if t is None:
            raise TranslationError("unsupported body of _any_of_the_kwargs_is_a_variable")
        test = self.test(t[0], t[1])
        self.test_term = test
        e = t[0]
        if (isinstance(e, ast.Call) and isinstance(e.args[1], ast.Name)):
            self.single_class = e.args[1].id
        return f"(List.any (Dict.vals bindings) (fun v => {test}))"


# ------------------------------------------------------------------------------------------------ the dispatchers

class _Dispatcher:
    """`symbolic_function.wrapper` (kind = "fn") or `Predicate.__new__` (kind = "new")"""

    def __init__(self, fn: ast.FunctionDef, kind: str, merge: _Merge, function_name: Optional[str]):
        self.fn, self.kind, self.merge = fn, kind, merge
        a = fn.args
        want = [] if kind == "fn" else ["cls"]
        if [x.arg for x in a.args] != want or a.vararg is None or a.kwarg is None or a.kwonlyargs or a.defaults:
            raise TranslationError(f"signature of the {kind} dispatcher changed: {ast.unparse(a)}")
        self.args, self.kwargs = a.vararg.arg, a.kwarg.arg
        self.function = function_name
        self.env: Dict[str, Term] = {self.args: ("c.pos", "args"), self.kwargs: ("c.kw", "dict")}
        self.validated = False

    # the inspected function / the invoked callable
    def is_inspected(self, e: ast.AST) -> bool:
        return ast.unparse(e) == (self.function if self.kind == "fn" else "cls.__init__")

    def is_invoked(self, e: ast.AST) -> bool:
        return ast.unparse(e) == (self.function if self.kind == "fn" else "cls")

    def names(self) -> str:
        return "c.paramNames" if self.kind == "fn" else '("self" :: c.paramNames)'

    def expr(self, e: ast.AST) -> Term:
        if isinstance(e, ast.Name) and e.id in self.env:
            return self.env[e.id]
        if isinstance(e, ast.Call) and isinstance(e.func, ast.Name) and e.func.id == "merge_args_and_kwargs":
            m = self.merge
            pos = list(e.args)
            kws = {k.arg: k.value for k in e.keywords}
            if None in kws or len(pos) > 4 or len(pos) < 3 or set(kws) - {m.p_flag} or (len(pos) == 4 and kws):
                raise TranslationError(f"unsupported call of merge_args_and_kwargs: {ast.unparse(e)}")
            if not self.is_inspected(pos[0]):
                raise TranslationError(f"merge_args_and_kwargs inspects {ast.unparse(pos[0])}")
            if not (isinstance(pos[1], ast.Name) and pos[1].id == self.args
                    and isinstance(pos[2], ast.Name) and pos[2].id == self.kwargs):
                raise TranslationError(f"merge_args_and_kwargs is not given (*args, **kwargs) of the call: {ast.unparse(e)}")
            flag = pos[3] if len(pos) == 4 else kws.get(m.p_flag)
            if flag is None:
                if m.flag_default is None:
                    raise TranslationError("ignore_first is not passed and has no default")
                fl = m.flag_default
            elif isinstance(flag, ast.Constant) and isinstance(flag.value, bool):
                fl = flag.value
            else:
                raise TranslationError(f"ignore_first is not a boolean constant: {ast.unparse(e)}")
            return (f"(merge_args_and_kwargs {self.names()} c.pos c.kw {'true' if fl else 'false'})", "dict")
        raise TranslationError(f"unsupported expression in the {self.kind} dispatcher: {ast.unparse(e)}")

    def ret(self, s: ast.stmt) -> Tuple[str, str]:
        """a `return` -> ("symbolic" | "concrete", Lean term)"""
        if not isinstance(s, ast.Return) or not isinstance(s.value, ast.Call):
            raise TranslationError(f"expected `return <call>`: {ast.unparse(s)}")
        c = s.value
        if isinstance(c.func, ast.Name) and c.func.id == "Variable":
            if c.args or any(k.arg is None for k in c.keywords):
                raise TranslationError(f"Variable(...) must be built by keywords: {ast.unparse(c)}")
            kws = {k.arg: k.value for k in c.keywords}
            if set(kws) != {"_type_", "_name__", "_kwargs_", "_predicate_type_"}:
                raise TranslationError(f"unexpected keywords of Variable(...): {sorted(kws)}")
            if not self.is_invoked(kws["_type_"]):
                raise TranslationError(f"the condition will invoke {ast.unparse(kws['_type_'])}")
            want = "PredicateType.DecoratedMethod" if self.kind == "fn" else "PredicateType.SubClassOfPredicate"
            if ast.unparse(kws["_predicate_type_"]) != want:
                raise TranslationError(f"_predicate_type_ is {ast.unparse(kws['_predicate_type_'])}, expected {want}")
            d = self.expr(kws["_kwargs_"])
            if d[1] != "dict":
                raise TranslationError("_kwargs_ is not a dict")
            return ("symbolic", f".symbolic {d[0]}")
        if self.kind == "fn" and self.is_invoked(c.func):
            stars = [a for a in c.args if isinstance(a, ast.Starred)]
            if len(stars) != len(c.args) or len(stars) > 1 or any(k.arg is not None for k in c.keywords) or len(c.keywords) > 1:
                raise TranslationError(f"unsupported concrete call {ast.unparse(c)}")
            a = self.expr(stars[0].value) if stars else ("[]", "args")
            k = self.expr(c.keywords[0].value) if c.keywords else ("[]", "dict")
            if a[1] != "args" or k[1] != "dict":
                raise TranslationError(f"unsupported concrete call {ast.unparse(c)}")
            return ("concrete", f".concrete (callSpec Arg.lit c.params {a[0]} {k[0]})")
        if self.kind == "new" and ast.unparse(c) in ("super().__new__(cls)",
                                                      f"super().__new__(cls, *{self.args}, **{self.kwargs})"):
            # type.__call__ then runs cls.__init__(instance, *args, **kwargs): Python's own binding of the call as written
            return ("concrete", ".concrete (callSpec Arg.lit c.params c.pos c.kw)")
        raise TranslationError(f"unsupported return in the {self.kind} dispatcher: {ast.unparse(s)}")

    def run(self) -> str:
        body = _body(self.fn)
        decision = None
        i = 0
        while i < len(body):
            s = body[i]
            if isinstance(s, (ast.Assign, ast.AnnAssign)):
                targets = s.targets if isinstance(s, ast.Assign) else [s.target]
                if len(targets) != 1 or not isinstance(targets[0], ast.Name) or s.value is None:
                    raise TranslationError(f"unsupported assignment {ast.unparse(s)}")
                if targets[0].id in (self.args, self.kwargs, "cls", self.function):
                    raise TranslationError(f"{targets[0].id} is re-bound")
                self.env[targets[0].id] = self.expr(s.value)
                i += 1
                continue
            if isinstance(s, ast.Expr) and isinstance(s.value, ast.Call):
                a, k = self.args, self.kwargs
                want = ([f"inspect.signature({self.function}).bind(*{a}, **{k})"] if self.kind == "fn" else
                        [f"inspect.signature(cls).bind(*{a}, **{k})",
                         f"inspect.signature(cls.__init__).bind(None, *{a}, **{k})",
                         f"inspect.signature(cls.__init__).bind(cls, *{a}, **{k})"])
                if ast.unparse(s.value) not in want:
                    raise TranslationError(f"unsupported statement {ast.unparse(s)}")
                self.validated = True
                i += 1
                continue
            if isinstance(s, ast.If):
                t, neg = s.test, False
                if isinstance(t, ast.UnaryOp) and isinstance(t.op, ast.Not):
                    t, neg = t.operand, True
                if not (isinstance(t, ast.Call) and isinstance(t.func, ast.Name)
                        and t.func.id == "_any_of_the_kwargs_is_a_variable" and len(t.args) == 1 and not t.keywords):
                    raise TranslationError(f"unsupported condition {ast.unparse(s.test)}")
                d = self.expr(t.args[0])
                if d[1] != "dict":
                    raise TranslationError("the decision is not taken on a dict")
                then = [x for x in s.body if not _skippable(x)]
                rest = [x for x in s.orelse if not _skippable(x)] if s.orelse else body[i + 1:]
                if s.orelse and body[i + 1:]:
                    raise TranslationError("statements after if/else")
                if len(then) != 1 or len(rest) != 1:
                    raise TranslationError("each branch of the decision must be a single return")
                a, b = self.ret(then[0]), self.ret(rest[0])
                if neg:
                    a, b = b, a
                if a[0] != "symbolic" or b[0] != "concrete":
                    raise TranslationError("the branches of the decision are not (condition, concrete call)")
                decision = f"if any_of_the_kwargs_is_a_variable {d[0]} then {a[1]} else {b[1]}"
                break
            raise TranslationError(f"unsupported statement in the {self.kind} dispatcher: {ast.unparse(s)}")
        if decision is None:
            raise TranslationError(f"no symbolic/concrete decision found in the {self.kind} dispatcher")
        if self.validated:
            return ("if !Except.isOk' (bind c.params c.pos c.kw) then .concrete (callSpec Arg.lit c.params c.pos c.kw)\n  else "
                    + decision)
        return decision


# ------------------------------------------------------------------------------------------------ driver

def _top_fn(mod: ast.Module, name: str, where: str) -> ast.FunctionDef:
    fns = [f for f in mod.body if isinstance(f, ast.FunctionDef) and f.name == name]
    if len(fns) != 1:
        raise TranslationError(f"{name} not found in {where} (or defined twice)")
    return fns[0]


def translate(pred_src: str, sym_src: str) -> str:
    pred, sym = ast.parse(pred_src), ast.parse(sym_src)
    # the names used must be the ones of symbolic.py
    imported = {a.name for s in pred.body if isinstance(s, ast.ImportFrom) and s.module == "symbolic" and s.level == 1
                for a in s.names if a.asname is None}
    for need in ("_any_of_the_kwargs_is_a_variable", "Variable"):
        if need not in imported:
            raise TranslationError(f"predicate.py no longer imports {need} from .symbolic")
        if any(isinstance(s, (ast.FunctionDef, ast.ClassDef)) and s.name == need for s in pred.body):
            raise TranslationError(f"predicate.py redefines {need}")
    table = class_table(sym)
    all_classes = {c.name for c in sym.body if isinstance(c, ast.ClassDef)}
    merge = _Merge(_top_fn(pred, "merge_args_and_kwargs", "predicate.py"),
                   _top_fn(pred, "get_function_argument_names", "predicate.py"))
    merge_term = merge.run()
    dec = _Decision(_top_fn(sym, "_any_of_the_kwargs_is_a_variable", "symbolic.py"), table, all_classes)
    dec_term = dec.run()
    # symbolic_function(function): def wrapper(*args, **kwargs) ...; return wrapper
    sf = _top_fn(pred, "symbolic_function", "predicate.py")
    if len(sf.args.args) != 1 or sf.args.vararg or sf.args.kwarg or sf.args.kwonlyargs or sf.decorator_list:
        raise TranslationError("symbolic_function signature changed")
    fname = sf.args.args[0].arg
    sfb = _body(sf)
    if (len(sfb) != 2 or not isinstance(sfb[0], ast.FunctionDef) or not isinstance(sfb[1], ast.Return)
            or ast.unparse(sfb[1].value) != sfb[0].name):
        raise TranslationError("symbolic_function is no longer `def wrapper…; return wrapper`")
    if [ast.unparse(d) for d in sfb[0].decorator_list] not in ([f"wraps({fname})"], [f"functools.wraps({fname})"]):
        raise TranslationError("wrapper is no longer decorated with wraps(function) only")
    wrapper_term = _Dispatcher(sfb[0], "fn", merge, fname).run()
    pc = [c for c in pred.body if isinstance(c, ast.ClassDef) and c.name == "Predicate"]
    if len(pc) != 1:
        raise TranslationError("class Predicate not found")
    news = [f for f in pc[0].body if isinstance(f, ast.FunctionDef) and f.name == "__new__"]
    if len(news) != 1 or news[0].decorator_list:
        raise TranslationError("Predicate.__new__ not found")
    if any(isinstance(f, ast.FunctionDef) and f.name in ("__init__", "__init_subclass__", "__class_getitem__")
           for f in pc[0].body):
        raise TranslationError("Predicate defines __init__ / __init_subclass__ itself")
    if pc[0].keywords:
        raise TranslationError("Predicate has class keywords (metaclass?)")
    new_term = _Dispatcher(news[0], "new", merge, None).run()
    rows = ",\n    ".join('("%s", [%s])' % (n, ", ".join('"%s"' % b for b in bs)) for n, bs in table.items())
    if dec.single_class is not None:
        dec_proof = (f'  exact any_isInstance_eq_isSymbolic classTable "{dec.single_class}" (by decide) bindings')
    else:
        dec_proof = DEC_FALLBACK.replace("DECISION_TEST", dec.test_term)
    return TEMPLATE.format(rows=rows, merge=merge_term, decision=dec_term, wrapper=wrapper_term, new=new_term,
                           dec_proof=dec_proof)


DEC_FALLBACK = """  have h : ∀ a : Arg, (fun v => DECISION_TEST) a = a.isVar := by
    intro a
    cases a with
    | lit v => simp only [isInstance, Arg.pyClass, Arg.isVar]; decide
    | var i k => simp only [isInstance, Arg.pyClass, Arg.isVar]; (repeat' split) <;> decide
  simp only [any_of_the_kwargs_is_a_variable, Dict.vals, List.any_map, isSymbolic]
  congr 1
  funext kv
  exact h kv.2"""

TEMPLATE = """import KrroodVerif.Props.C12
import KrroodVerif.Drive.C12
set_option linter.unusedVariables false
set_option linter.unusedSimpArgs false
/-! GENERATED by harness/translate/c12_translate.py from src/krrood/entity_query_language/predicate.py and
symbolic.py — do not edit -/
namespace KrroodVerif.Pred.Translated
open KrroodVerif.Pred

/-- direct bases (as written in the `class` statements of symbolic.py) of every ancestor of the classes a written
argument can have -/
def classTable : ClassTable :=
  [ {rows} ]

/-- `merge_args_and_kwargs(function, args, kwargs, ignore_first)` with
`names = get_function_argument_names(function) = list(inspect.signature(function).parameters)` -/
def merge_args_and_kwargs {{α : Type}} (names : List String) (args : List α) (kwargs : Dict α) (ignore_first : Bool) :
    Dict α :=
  {merge}

/-- `_any_of_the_kwargs_is_a_variable(bindings)` -/
def any_of_the_kwargs_is_a_variable (bindings : Dict Arg) : Bool :=
  {decision}

/-- `symbolic_function(function).wrapper(*args, **kwargs)`: `c.paramNames` are the parameter names of `function`,
`callSpec Arg.lit c.params a k` is `function(*a, **k)` -/
def symbolic_function_wrapper (c : Call) : Dispatch :=
  {wrapper}

/-- `Predicate.__new__(cls, *args, **kwargs)` (+ Python's `cls.__init__(instance, *args, **kwargs)` when an instance
comes back): `"self" :: c.paramNames` are the parameter names of `cls.__init__` -/
def predicate_new (c : Call) : Dispatch :=
  {new}

def dispatchT (c : Call) : Dispatch :=
  match c.kind with
  | .symFn => symbolic_function_wrapper c
  | .pred => predicate_new c

/-- the merge of the current source is the model's `mergeArgs`, for every list of names, flag, positional list and
keyword dict -/
theorem C12_merge_translated_eq_model {{α : Type}} (names : List String) (ignore_first : Bool) (args : List α)
    (kwargs : Dict α) : merge_args_and_kwargs names args kwargs ignore_first = mergeArgs names ignore_first args kwargs := by
  cases ignore_first <;> first | rfl | simp [merge_args_and_kwargs, mergeArgs, Dict.ofPairs, Dict.update]

/-- the decision of the current source (which values are looked at, against which class, by the current class
statements) is the model's `isSymbolic`, for every merged dict -/
theorem C12_decision_translated_eq_model (bindings : Dict Arg) :
    any_of_the_kwargs_is_a_variable bindings = isSymbolic bindings := by
{dec_proof}

/-- the two dispatchers of the current source are the model's `dispatch` under the quirk setting the correspondence
uses for the code as it is — for every signature, every positional/keyword split and every argument pattern — or
under that setting with the open fix candidate F-C12-3 applied (the call is bound as written first), so that applying
the repair to the source does not break the tie -/
theorem C12_dispatch_translated_eq_model :
    (∀ c : Call, dispatchT c = dispatch Drive.C12.codeQuirks c) ∨
    (∀ c : Call, dispatchT c = dispatch {{ Drive.C12.codeQuirks with acceptsRejected := false }} c) := by
  first
  | (refine Or.inl (fun c => ?_)
     cases hk : c.kind <;>
       (simp only [dispatchT, hk, symbolic_function_wrapper, predicate_new, dispatch, Call.merged, Call.inspectedNames,
          ignoreFirst, Drive.C12.codeQuirks, C12_merge_translated_eq_model, C12_decision_translated_eq_model,
          Bool.not_true, Bool.not_false, Bool.false_and, Bool.true_and, Bool.false_eq_true, if_false] <;>
        first | rfl | (simp; done)))
  | (refine Or.inr (fun c => ?_)
     cases hk : c.kind <;>
       (simp only [dispatchT, hk, symbolic_function_wrapper, predicate_new, dispatch, Call.merged, Call.inspectedNames,
          ignoreFirst, Drive.C12.codeQuirks, C12_merge_translated_eq_model, C12_decision_translated_eq_model,
          Bool.not_true, Bool.not_false, Bool.false_and, Bool.true_and, Bool.false_eq_true, if_false] <;>
        first | rfl | (simp; done)))

/-- the property `C12_merge_eq_bind`, of the translated merge: on every call Python accepts it yields Python's own
binding, for every signature (positional-or-keyword and keyword-only parameters, defaults) and every split -/
theorem C12_translated_merge_eq_bind {{α : Type}} (ps : List Param) (hnd : (ps.map (·.name)).Nodup) (args : List α)
    (kw : Dict α) (hkw : kw.keys.Nodup) (b : Dict α) (hb : bind ps args kw = .ok b) (selfName : String)
    (paramsIncludeSelf : Bool) :
    DictEq (merge_args_and_kwargs (if paramsIncludeSelf then selfName :: ps.map (·.name) else ps.map (·.name))
      args kw paramsIncludeSelf) b := by
  rw [C12_merge_translated_eq_model]
  exact C12_merge_eq_bind ps hnd args kw hkw b hb selfName paramsIncludeSelf

/-- the property `C12_dispatch`, of the translated dispatchers: on every call Python accepts, no variable written ⇒
executed at once on Python's binding; some variable written ⇒ a condition carrying exactly Python's binding -/
theorem C12_translated_meets_property (c : Call) (hwf : c.WF) (b : Dict Arg) (hb : bind c.params c.pos c.kw = .ok b) :
    (c.hasVar = false → dispatchT c = .concrete (.ok (applyDefaults Arg.lit c.params b))) ∧
    (c.hasVar = true → ∃ d, dispatchT c = .symbolic d ∧ DictEq d b) := by
  rcases C12_dispatch_translated_eq_model with h | h <;>
    rw [h c, dispatch_accepted_eq_none _ (by decide) c hwf hb] <;> exact C12_dispatch c hwf b hb

end KrroodVerif.Pred.Translated
"""

OBLIGATIONS = ["KrroodVerif.Pred.Translated.C12_merge_translated_eq_model",
               "KrroodVerif.Pred.Translated.C12_decision_translated_eq_model",
               "KrroodVerif.Pred.Translated.C12_dispatch_translated_eq_model",
               "KrroodVerif.Pred.Translated.C12_translated_merge_eq_bind",
               "KrroodVerif.Pred.Translated.C12_translated_meets_property"]


def generate(repo: Path) -> str:
    base = Path(repo) / "src/krrood/entity_query_language"
    return translate((base / "predicate.py").read_text(), (base / "symbolic.py").read_text())


if __name__ == "__main__":
    import sys
    print(generate(Path(sys.argv[1] if len(sys.argv) > 1 else "/repo")))
