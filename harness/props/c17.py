"""C17 — class diagrams mirror the Python classes and derived views leave them intact.

A case is a small Python *program*: 1-6 dataclasses (plus enums) whose field annotations are terms of the grammar
`Ann` of lean/KrroodVerif/Model/ClassDiagram.lean, a class list (the argument of `ClassDiagram`: a *set* of classes in any order, maybe
a subset of the defined ones) and a sequence of read-only / derived-view operations.

Implementation side: the program is rendered to source in a scratch package (one or two modules, string forward
references, `from __future__ import annotations`, `TYPE_CHECKING`-only imports), imported, the real
`ClassDiagram` is built (in the given order and in the reverse order) and observed through its public surface:
`wrapped_classes`, `inheritance_relations`, `associations`, the `WrappedField` predicates of every discovered
field; then the operations are applied and every diagram that existed before an operation is snapshot again
(these snapshots read the graph only, so they do not warm any accessor cache). Operations include calling one
accessor for one class on any diagram — source or derived view, in any order. After the run every diagram's
per-class accessors (`get_out_edges`, `get_outgoing_relations`, `get_associations_with_condition`,
`get_outgoing/incoming_neighbors_with_relation_type`) are read for every class, original first or derived views
first (`(final b)`), and must report exactly that diagram's own graph (`R[...]` lists the ones that do not).
`(read d)` operations read EVERY public read accessor of diagram d — found by introspection over `ClassDiagram`
(properties, cached properties, query methods with up to two arguments from small domains: `parent_map`,
`all_ancestors(i)`, `get_assoc_keys_by_source(flag)`, …; anything added later is read too) — and compare the read-out
with the previous read-out of the same diagram and with the *pristine* read-out (each accessor read alone on a freshly
built equivalent diagram that went through the same derivations and nothing else): every accessor is a pure function of
the diagram, so all three must agree; every diagram that was read is read once more after the run.
Generic bases (`(generic …)`, `(gsub …)`): `class C0(Generic[T])`, `class C1(C0[int])`, `class C2(C0[T])`, plain
subclasses of those; the model sees `__bases__` only. Twin diagrams (`(twin t)`, 2-module layout): in the same process
further diagrams are built from the same m0 class objects and same-named m1 classes of a copy of m1 — every diagram
must mirror its own classes, so all of them must look like the main one.

Endpoint classes (`(sub float 0)`, `(mix int 0)`, `(plain 0)`): besides the listed builtin scalars, the dataclasses `C<i>` and
the plain enums `E<i>`, a field may end at a proper subclass of a builtin scalar (`class Sfloat0(float)`), at an enum
with a scalar mix-in (`class Mint0(enum.IntEnum)`, `class Mint1(int, enum.Enum)`, `class Mstr0(enum.StrEnum)`, …) or at
an unrelated plain class (`class P0`): none of them is builtin-valued, the mix-in enums are enums.

Field overriding: a subclass may re-declare a field name it inherits with another annotation (`f0: C4` over `f0: C3`,
`List[C4]` over `List[C3]`, `Optional[int]` over `int`, ...); the class then has ONE field of that name, analysed as its
own (most derived) declaration says — `typing.get_type_hints(cls)[name]` — while the base keeps its own.

Ground truth never comes from the code under test: the Lean driver computes `spec=` from the generating terms."""
from __future__ import annotations

import importlib
import itertools
import os
import shutil
import sys
import tempfile
from typing import Any, Dict, List, Optional, Sequence, Tuple

try:
    from core import Case
except ModuleNotFoundError:  # run as a script (render helper at the bottom): harness/ is one level up
    sys.path.insert(0, os.path.dirname(os.path.dirname(os.path.abspath(__file__))))
    from core import Case

PID = "C17"
LEAN_MODULES = ["KrroodVerif.Props.C17", "KrroodVerif.Props.C17Override"]
THEOREMS = [
    "KrroodVerif.CD.C17_classify",
    "KrroodVerif.CD.C17_classify_partial",
    "KrroodVerif.CD.C17_classify_current",
    "KrroodVerif.CD.C17_cex_nested",
    "KrroodVerif.CD.C17_cex_optional_spelling",
    "KrroodVerif.CD.C17_edges",
    "KrroodVerif.CD.C17_edges_perm",
    "KrroodVerif.CD.C17_edges_partial",
    "KrroodVerif.CD.C17_edges_current",
    "KrroodVerif.CD.C17_views_pure",
    "KrroodVerif.CD.C17_views_partial",
    "KrroodVerif.CD.C17_cex_subdiagram",
    "KrroodVerif.CD.C17_accessors",
    "KrroodVerif.CD.C17_accessors_pure",
    "KrroodVerif.CD.C17_consistent",
    "KrroodVerif.CD.C17_enum_one_to_one",
    # field overriding (Props/C17Override.lean)
    "KrroodVerif.CD.C17_fields_names_nodup",
    "KrroodVerif.CD.C17_public_names_nodup",
    "KrroodVerif.CD.C17_fieldsOf_unfold",
    "KrroodVerif.CD.C17_override_most_derived",
    "KrroodVerif.CD.C17_inherited_unless_redeclared",
    "KrroodVerif.CD.C17_override_keeps_position",
    "KrroodVerif.CD.C17_edges_any_fields",
]


def extra_obligations():
    """Second tie, by translation: regenerate the `WrappedField` accessors from /repo's CURRENT `wrapped_field.py`
    (Python ast -> Lean functions over `Ann` written in the primitives of Model/ClassDiagramPy.lean) and have the kernel
    re-check, for every annotation, that each translated accessor equals the hand-written model under `Quirks.current`,
    that the translated functions have the classification property, and that they are mutually consistent."""
    import re
    import subprocess
    import core
    from translate.c17_translate import generate as gen, TranslationError, THEOREM_NAMES
    try:
        text = gen(core.REPO)
    except (TranslationError, SyntaxError, OSError, RecursionError) as e:
        return [{"name": n, "ok": False, "detail": f"translator rejected the source: {e}"} for n in THEOREM_NAMES]
    tmp = core.LEAN_DIR / ".lake" / "audit"
    tmp.mkdir(parents=True, exist_ok=True)

    def check(diagnostics: bool):
        text = gen(core.REPO, diagnostics)
        f = tmp / f"C17Translated_{os.getpid()}.lean"
        f.write_text(text + "".join(f"#print axioms {n}\n" for n in THEOREM_NAMES))
        try:
            p = subprocess.run(["lake", "env", "lean", str(f)], cwd=str(core.LEAN_DIR), capture_output=True, text=True,
                               timeout=900)
        finally:
            try:
                f.unlink()
            except OSError:
                pass
        raw = (p.stdout or "") + (p.stderr or "")
        out = " ".join(raw.split())
        forbidden = re.search(r"\b(sorry|admit|native_decide|axiom)\b", text) is not None
        verdict = {}
        for n in THEOREM_NAMES:
            m = re.search(r"'" + re.escape(n) + r"' depends on axioms: \[([^\]]*)\]", out)
            none = re.search(r"'" + re.escape(n) + r"' does not depend on any axioms", out)
            ax = [a.strip() for a in m.group(1).split(",")] if m else ([] if none else None)
            # a theorem the kernel accepted with admissible axioms stands on its own, whatever else in the file failed
            verdict[n] = ((not forbidden) and ax is not None and set(ax) <= core.ALLOWED_AXIOMS, ax)
        return text, raw, verdict

    text, raw, verdict = check(False)
    if not all(ok for ok, _ in verdict.values()):
        # something broke: once more, with the probe annotations on which translation and model differ (`DIFF` lines)
        text, raw, verdict = check(True)
    res = []
    for n in THEOREM_NAMES:
        ok, ax = verdict[n]
        short = n.split(".C17_")[1].replace("_translated_eq_model", "")
        diffs = [ln for ln in raw.splitlines() if ln.startswith("DIFF ") and "none on" not in ln]
        mine = [ln for ln in diffs if ln.startswith(f"DIFF {short}:")]
        errs = [ln for ln in raw.splitlines() if ": error" in ln][:6]
        res.append({"name": n, "ok": ok, "axioms": ax,
                    "detail": "" if ok else "the accessors as regenerated from the current wrapped_field.py:\n"
                              + text[text.find("namespace KrroodVerif.CD.Translated"):text.find("/-! ### Proof obligations")][-1800:]
                              + "\n".join(errs) + "\n" + "\n".join(mine or diffs[:4])})
    return res


MODEL_FUNCTION = ("CD.flags / CD.endpoint / CD.build / CD.derive / CD.stepOp / CD.reported (Model/ClassDiagram.lean) = "
                  "wrapped_field.py predicates, ClassDiagram.__post_init__, to_subdiagram_without_inherited_associations")
TRUSTED = [
    "Lean 4.33 kernel; axioms of each theorem listed under coverage.theorems",
    "hand-written model Model/ClassDiagram.lean of wrapped_field.py / class_diagram.py / attribute_introspector.py",
    "this correspondence harness: the renderer Ann -> Python source, the observation of the real ClassDiagram, the "
    "S-expression driver and its printers",
    "second tie: the translator harness/translate/c17_translate.py (Python ast of wrapped_field.py -> Lean) and the Lean "
    "semantics of the primitives it targets (Model/ClassDiagramPy.lean)",
]
ASSUMPTIONS = [
    "CPython 3.12 typing: get_type_hints evaluates string annotations to the objects they name; get_origin/get_args "
    "as tabulated in CD.getOrigin/CD.getArgs (X | None is a types.UnionType, Union[None, X] keeps None first)",
    "dataclasses.fields: inherited fields first (bases right to left, no diamonds generated), then own fields; a name "
    "declared again (by the class itself or by a base listed earlier) keeps the position of its first introduction and "
    "takes the later declaration; typing.get_type_hints(cls)[name] is the annotation of the most derived declaration",
    "rustworkx PyDiGraph: edge_list() in insertion order; get_edge_data/remove_edge pick the most recently added "
    "parallel edge; graph.copy() is independent of the original",
    "fields annotated with a TypeVar (`x: T` in a Generic class) are not generated: a TypeVar is not a term of the "
    "annotation grammar (observed: the endpoint is the TypeVar itself, is_enum raises TypeError)",
    "endpoint classes: listed builtin scalar | proper subclass of a builtin scalar (class Sfloat0(float); bool cannot be "
    "subclassed) | plain Enum | Enum with a scalar mix-in (IntEnum, StrEnum, (int|str|float, Enum)) | dataclass of the "
    "world | other plain class; builtin-valued means exact membership in [int, float, str, bool, datetime, NoneType]",
    "a field name is declared at most once per class body (a subclass may re-declare the names it inherits, with any "
    "annotation of the grammar), every field has a default (so re-declaring never hits the dataclass rule about "
    "non-default fields after default ones), no Role classes, no bare containers, no Dict / "
    "FrozenSet / Any annotations (outside the supported grammar: container_types names the supported containers)",
]
RULE = ("small-scope exhaustive families (generic bases Generic[T] / C0[arg] / plain subclasses x class lists; twin "
        "diagrams sharing class objects in one process; every wrapper form x leaf x quoting on a two-class world; every pair of "
        "wrappers; inheritance shapes x class-list orders x sub-diagram sequences; field overriding: narrowing / widening / "
        "wrapper change / class <-> scalar x where in the hierarchy the name is re-declared, incl. the same name in two "
        "unrelated bases) plus seeded random programs (a subclass re-declares each inherited field with probability "
        "0 / 0.15 / 0.3 / 0.6 per program) from "
        "the annotation grammar; every case builds the diagram in the given and in the reversed class order; "
        "non-trivial = the specification demands at least one edge; distinct by case text")
EXHAUSTIVE = True

BUILTINS = ["int", "float", "str", "bool", "datetime"]
KINDS = ["list", "set", "tuple", "sequence", "blist", "bset", "btuple"]
STYLES = ["typing", "unionNone", "noneFirst", "pipe"]


def budget(tier: str) -> int:
    return 3000 if tier == "quick" else 40000


# ------------------------------------------------------------------------------------------- terms and lines

def sx(a) -> str:
    """annotation term -> S-expression"""
    t = a[0]
    if t in BUILTINS:
        return t
    if t in ("cls", "enum", "plain"):
        return f"({t} {a[1]})"
    if t in ("sub", "mix"):
        return f"({t} {a[1]} {a[2]})"
    if t == "opt":
        return f"(opt {a[1]} {sx(a[2])})"
    if t == "cont":
        return f"(cont {a[1]} {sx(a[2])})"
    if t == "type":
        return f"(type {sx(a[1])})"
    if t == "fwd":
        return f"(fwd {sx(a[1])})"
    if t == "union":
        return f"(union {sx(a[1])} {sx(a[2])} {'T' if a[3] else 'F'})"
    raise ValueError(a)


def _parse(line: str):
    toks = line.replace("(", " ( ").replace(")", " ) ").split()

    def rd(i):
        if toks[i] == "(":
            out = []
            i += 1
            while toks[i] != ")":
                x, i = rd(i)
                out.append(x)
            return out, i + 1
        return toks[i], i + 1

    return rd(0)[0]


def _ann_of(s):
    if isinstance(s, str):
        return (s,)
    t = s[0]
    if t in ("cls", "enum", "plain"):
        return (t, int(s[1]))
    if t in ("sub", "mix"):
        return (t, s[1], int(s[2]))
    if t == "opt":
        return ("opt", s[1], _ann_of(s[2]))
    if t == "cont":
        return ("cont", s[1], _ann_of(s[2]))
    if t in ("type", "fwd"):
        return (t, _ann_of(s[1]))
    if t == "union":
        return ("union", _ann_of(s[1]), _ann_of(s[2]), s[3] == "T")
    raise ValueError(s)


class Prog:
    """python-side structured form of a case"""

    def __init__(self, future=False, mods=1, imp=0, enums=0, defs=None, modof=None, order=None, ops=None, final=0,
                 generic=None, gsub=None, twin=0):
        # rendering only (the Lean side sees `__bases__`): classes declared `Generic[T]`, and for a class with a generic
        # base the type argument it writes: "T" (stays generic), "int", "str" or "C<n>"; no entry = the bare base
        self.generic: List[int] = list(generic or [])
        self.gsub: Dict[int, str] = dict(gsub or {})
        # 2-module layout only: further diagrams in the same process whose m1 classes are same-named *twins*
        # (0 none, 1 twin diagram first, 2 main first, 3 twin, main, another twin)
        self.twin = twin
        self.final = final  # 0: accessors are read original-first at the end, 1: derived views first
        self.future = future
        self.mods = mods
        self.imp = imp
        self.enums = enums
        self.defs: List[Tuple[int, List[int], List[Tuple[bool, int, tuple]]]] = defs or []
        self.modof: List[int] = modof or [0] * len(self.defs)
        self.order: List[int] = order or []
        self.ops: List[tuple] = ops or []

    def line(self) -> str:
        ds = []
        for cid, bases, fields in self.defs:
            fs = "".join(f" (f {1 if p else 0} {i} {sx(a)})" for p, i, a in fields)
            ds.append(f"(c {cid} (bases{''.join(' ' + str(b) for b in bases)}){fs})")
        ops = []
        for op in self.ops:
            if op[0] == "q":
                ops.append(f"(q {op[1]} {op[2]})")
            elif op[0] == "acc":
                ops.append(f"(acc {op[1]} {op[2]} {op[3]})")
            elif op[0] == "read":
                ops.append(f"(read {op[1]})")
            elif op[0] == "copy":
                ops.append(f"(copy {op[1]})")
            else:
                ops.append(f"({op[0]} {op[1]} {'T' if op[2] else 'F'})")
        return (f"(cd (future {1 if self.future else 0}) (mods {self.mods}) (imp {self.imp}) (enums {self.enums}) "
                f"(final {self.final}) (twin {self.twin}) "
                f"(generic{''.join(' ' + str(g) for g in self.generic)}) "
                f"(gsub{''.join(f' ({c} {v})' for c, v in sorted(self.gsub.items()))}) "
                f"(modof{''.join(' ' + str(m) for m in self.modof)}) (defs{''.join(' ' + d for d in ds)}) "
                f"(order{''.join(' ' + str(o) for o in self.order)}) (ops{''.join(' ' + o for o in ops)}))")

    @staticmethod
    def parse(line: str) -> "Prog":
        s = _parse(line)
        assert s[0] == "cd"
        items = {x[0]: x[1:] for x in s[1:]}
        defs = []
        for d in items["defs"]:
            cid = int(d[1])
            bases = [int(b) for b in d[2][1:]]
            fields = [(f[1] != "0", int(f[2]), _ann_of(f[3])) for f in d[3:]]
            defs.append((cid, bases, fields))
        ops = []
        for o in items.get("ops", []):
            if o[0] == "q":
                ops.append(("q", int(o[1]), int(o[2])))
            elif o[0] == "acc":
                ops.append(("acc", int(o[1]), int(o[2]), int(o[3])))
            elif o[0] == "read":
                ops.append(("read", int(o[1])))
            elif o[0] == "copy":
                ops.append(("copy", int(o[1])))
            else:
                ops.append((o[0], int(o[1]), o[2] == "T"))
        modof = [int(m) for m in items.get("modof", [])] or [0] * len(defs)
        return Prog(future=items.get("future", ["0"])[0] == "1", mods=int(items.get("mods", ["1"])[0]),
                    imp=int(items.get("imp", ["0"])[0]), enums=int(items.get("enums", ["0"])[0]), defs=defs,
                    modof=modof, order=[int(o) for o in items["order"]], ops=ops,
                    final=int(items.get("final", ["0"])[0]), twin=int(items.get("twin", ["0"])[0]),
                    generic=[int(g) for g in items.get("generic", [])],
                    gsub={int(x[0]): x[1] for x in items.get("gsub", [])})

    def copy(self) -> "Prog":
        return Prog(self.future, self.mods, self.imp, self.enums,
                    [(c, list(b), list(f)) for c, b, f in self.defs], list(self.modof), list(self.order),
                    list(self.ops), self.final, list(self.generic), dict(self.gsub), self.twin)


def strip_fwd(a):
    t = a[0]
    if t == "fwd":
        return strip_fwd(a[1])
    if t == "opt":
        return ("opt", a[1], strip_fwd(a[2]))
    if t == "cont":
        return ("cont", a[1], strip_fwd(a[2]))
    if t == "type":
        return ("type", strip_fwd(a[1]))
    if t == "union":
        return ("union", strip_fwd(a[1]), strip_fwd(a[2]), a[3])
    return a


def wrap_depth(a) -> int:
    t = a[0]
    if t == "opt" or t == "cont":
        return wrap_depth(a[2]) + 1
    if t == "type":
        return wrap_depth(a[1]) + 1
    if t == "fwd":
        return wrap_depth(a[1])
    return 0


def has_union(a) -> bool:
    t = a[0]
    if t == "union":
        return True
    if t in ("opt", "cont"):
        return has_union(a[2])
    if t in ("type", "fwd"):
        return has_union(a[1])
    return False


def plain(a) -> bool:
    """mirror of CD.plain: which fields are observed with all seven classifications"""
    return wrap_depth(a) <= 1 and not has_union(a)


def cls_refs(a) -> List[int]:
    t = a[0]
    if t == "cls":
        return [a[1]]
    if t in ("opt", "cont"):
        return cls_refs(a[2])
    if t in ("type", "fwd"):
        return cls_refs(a[1])
    if t == "union":
        return cls_refs(a[1]) + cls_refs(a[2])
    return []


def fkey(priv: bool, idx: int) -> str:
    return f"{'_f' if priv else 'f'}{idx}"


def effective_fields(defs) -> Dict[int, List[Tuple[bool, int, tuple]]]:
    """class id -> its dataclass fields as Python says (`dataclasses.fields` for the order, `typing.get_type_hints` for
    the type; hierarchies without diamonds): the fields of the bases right to left, then the own ones; a name that is
    declared again keeps the position of its first introduction and takes the annotation of the most derived
    declaration. Used to decide HOW a field is observed (all seven flags / `o=` only, mirror of CD.plain on the field the
    class really has) and by the generator to pick the names a subclass may re-declare; never as ground truth."""
    table: Dict[int, List[Tuple[bool, int, tuple]]] = {}
    for cid, bases, own in defs:
        acc: List[Tuple[bool, int, tuple]] = []
        for fld in [x for b in reversed(bases) for x in table.get(b, [])] + list(own):
            for k, g in enumerate(acc):
                if (g[0], g[1]) == (fld[0], fld[1]):
                    acc[k] = fld
                    break
            else:
                acc.append(fld)
        table.setdefault(cid, acc)
    return table


def has_override(defs) -> bool:
    """does some class re-declare a field name of one of its bases (or declare a name twice)?"""
    eff = effective_fields(defs)
    for cid, bases, own in defs:
        inherited = {(g[0], g[1]) for b in bases for g in eff.get(b, [])}
        names = [(g[0], g[1]) for g in own]
        if inherited & set(names) or len(set(names)) != len(names):
            return True
    return False


# ------------------------------------------------------------------------------------------- rendering

EXT = ("sub", "mix", "plain")


def ext_name(a) -> str:
    """class name of an endpoint class that is neither a listed builtin, nor a dataclass of the world, nor a plain Enum"""
    return {"sub": "S", "mix": "M"}[a[0]] + a[1] + str(a[2]) if a[0] != "plain" else f"P{a[1]}"


def ext_def(a) -> str:
    """source of such a class: `class Sfloat0(float)`; `class Mint0(enum.IntEnum)` / `class Mint1(int, enum.Enum)`;
    `class Mstr0(enum.StrEnum)` / `class Mstr1(str, enum.Enum)`; `class P0`"""
    n = ext_name(a)
    if a[0] == "plain":
        return f"\n\nclass {n}:\n    pass\n"
    if a[0] == "sub":
        return f"\n\nclass {n}({a[1]}):\n    pass\n"
    b, i = a[1], a[2]
    if b == "int":
        base = "enum.IntEnum" if i % 2 == 0 else "int, enum.Enum"
        body = "    A = 1\n    B = 2\n"
    elif b == "str":
        base = "enum.StrEnum" if i % 2 == 0 else "str, enum.Enum"
        body = '    A = "a"\n    B = "b"\n'
    elif b == "float":
        base, body = "float, enum.Enum", "    A = 1.5\n    B = 2.5\n"
    elif b == "datetime":
        base, body = "datetime, enum.Enum", "    A = (2020, 1, 1)\n    B = (2021, 1, 1)\n"
    else:
        raise ValueError(a)  # bool cannot be subclassed
    return f"\n\nclass {n}({base}):\n{body}"


def ext_leaves(a) -> list:
    t = a[0]
    if t in EXT:
        return [a]
    if t in ("opt", "cont"):
        return ext_leaves(a[2])
    if t in ("type", "fwd"):
        return ext_leaves(a[1])
    if t == "union":
        return ext_leaves(a[1]) + ext_leaves(a[2])
    return []


def render_ann(a, quoted: bool) -> str:
    """Ann -> Python annotation source. `quoted`: we are already inside a string literal."""
    t = a[0]
    if t in BUILTINS:
        return t
    if t == "cls":
        return f"C{a[1]}"
    if t == "enum":
        return f"E{a[1]}"
    if t in EXT:
        return ext_name(a)
    if t == "fwd":
        inner = render_ann(a[1], True)
        return inner if quoted else '"' + inner + '"'
    if t == "opt":
        st, x = a[1], a[2]
        if st == "pipe":
            if not quoted and _contains_fwd(x):
                # `"C0" | None` is a TypeError at class creation; the quotes go around the whole expression
                return '"' + render_ann(x, True) + ' | None"'
            return f"{render_ann(x, quoted)} | None"
        r = render_ann(x, quoted)
        return {"typing": f"Optional[{r}]", "unionNone": f"Union[{r}, None]", "noneFirst": f"Union[None, {r}]"}[st]
    if t == "cont":
        r = render_ann(a[2], quoted)
        return {"list": f"List[{r}]", "set": f"Set[{r}]", "tuple": f"Tuple[{r}, ...]", "sequence": f"Sequence[{r}]",
                "blist": f"list[{r}]", "bset": f"set[{r}]", "btuple": f"tuple[{r}, ...]"}[a[1]]
    if t == "type":
        return f"Type[{render_ann(a[1], quoted)}]"
    if t == "union":
        r = f"Union[{render_ann(a[1], quoted)}, {render_ann(a[2], quoted)}"
        return r + (", None]" if a[3] else "]")
    raise ValueError(a)


def _contains_fwd(a) -> bool:
    t = a[0]
    if t == "fwd":
        return True
    if t in ("opt", "cont"):
        return _contains_fwd(a[2])
    if t == "type":
        return _contains_fwd(a[1])
    if t == "union":
        return _contains_fwd(a[1]) or _contains_fwd(a[2])
    return False


HEADER = ("import enum\nfrom dataclasses import dataclass\nfrom datetime import datetime\n"
          "from typing import Optional, List, Set, Tuple, Sequence, Type, Union, TYPE_CHECKING, Generic, TypeVar\n")


def _render_bases(p: Prog, cid: int, bases: List[int]) -> str:
    """`(C1[int], C2, Generic[T])`: a generic base is subscripted with the class' type argument, if it has one"""
    parts = []
    arg = p.gsub.get(cid)
    used = False
    for b in bases:
        if b in p.generic and arg is not None and not used:
            parts.append(f"C{b}[{arg}]")
            used = True
        else:
            parts.append(f"C{b}")
    if cid in p.generic and not (used and arg == "T"):
        parts.append("Generic[T]")
    return "(" + ", ".join(parts) + ")" if parts else ""


def render(p: Prog) -> Dict[str, str]:
    """module name -> source"""
    out: Dict[str, str] = {"__init__": ""}
    nmods = 2 if p.mods == 2 else 1
    exts = sorted({x for d in p.defs for _, _, a in d[2] for x in ext_leaves(a)})
    for m in range(nmods):
        src = ("from __future__ import annotations\n" if p.future else "") + HEADER
        mine = [d for d, mo in zip(p.defs, p.modof) if mo == m]
        others = [f"C{d[0]}" for d, mo in zip(p.defs, p.modof) if mo != m]
        if m == 0:
            if nmods == 2 and others:
                src += "if TYPE_CHECKING:\n    from .m1 import " + ", ".join(others) + "\n"
            if p.generic:
                src += 'T = TypeVar("T")\n'
            for e in range(p.enums):
                src += f"\n\nclass E{e}(enum.Enum):\n    A = 1\n    B = 2\n"
            for x in exts:
                src += ext_def(x)
        else:
            names = others + [f"E{e}" for e in range(p.enums)] + [ext_name(x) for x in exts] + (["T"] if p.generic else [])
            if names:
                src += "from .m0 import " + ", ".join(names) + "\n"
        for cid, bases, fields in mine:
            b = _render_bases(p, cid, bases)
            src += f"\n\n@dataclass\nclass C{cid}{b}:\n"
            if not fields:
                src += "    pass\n"
            for priv, idx, ann in fields:
                src += f"    {'_f' if priv else 'f'}{idx}: {render_ann(ann, False)} = None\n"
        out[f"m{m}"] = src
    if nmods == 2:
        # twins of m1: the same source again, i.e. same-named but different class objects (still subclasses of / referring to
        # the one and only m0)
        for t in range({0: 0, 1: 1, 2: 1, 3: 2}.get(p.twin, 0)):
            out[f"m1t{t}"] = out["m1"]
    return out


# ------------------------------------------------------------------------------------------- real code

_COUNTER = itertools.count()


def _leaf_name(x) -> str:
    from datetime import datetime
    from types import NoneType
    table = {int: "int", float: "float", str: "str", bool: "bool", datetime: "datetime", NoneType: "None"}
    try:
        if x in table:
            return table[x]
    except TypeError:
        return "?"
    if isinstance(x, type):
        return x.__name__
    return "?"


def _flag(f, name: str) -> str:
    try:
        return "1" if getattr(f, name) else "0"
    except TypeError:
        return "E"
    except Exception as e:  # noqa: BLE001
        return "<" + type(e).__name__ + ">"


FLAG_NAMES = ["is_builtin_type", "is_optional", "is_enum", "is_container", "is_one_to_one_relationship",
              "is_one_to_many_relationship", "is_type_type"]


def _snapshot(d) -> str:
    nodes = sorted(w.clazz.__name__ for w in d.wrapped_classes)
    inh = sorted(f"{r.source.clazz.__name__}>{r.target.clazz.__name__}" for r in d.inheritance_relations)
    ass = sorted(f"{r.source.clazz.__name__}.{r.field.field.name}>{r.target.clazz.__name__}" for r in d.associations)
    return "N[" + ",".join(nodes) + "] I[" + ",".join(inh) + "] A[" + ",".join(ass) + "]"


def _static(d, anns: Dict[str, Dict[str, tuple]]) -> str:
    """`anns`: class name -> field name -> the annotation term the class has for that field (`effective_fields`)"""
    fl = []
    for w in d.wrapped_classes:
        for f in w.fields:
            name = f.field.name
            ann = anns.get(w.clazz.__name__, {}).get(name)
            head = f"{w.clazz.__name__}.{name}:"
            if ann is not None and not plain(ann):
                fl.append(head + "o=" + _flag(f, "is_optional"))
                continue
            try:
                ep = _leaf_name(f.type_endpoint)
            except Exception as e:  # noqa: BLE001
                ep = "<" + type(e).__name__ + ">"
            fl.append(head + "".join(_flag(f, n) for n in FLAG_NAMES) + ":" + ep)
    return _snapshot(d) + " F[" + ",".join(sorted(fl)) + "]"


def _query(d, k: int) -> None:
    """read-only accessors of ClassDiagram, bundle `k`; their results are irrelevant, only their (absent) effect"""
    from krrood.class_diagrams.class_diagram import Association, Inheritance, ClassRelation
    ws = list(d.wrapped_classes)
    k = k % 6
    if k == 0:
        for w in ws:
            d.get_out_edges(w)
            list(d.get_outgoing_relations(w.clazz))
            list(d.get_associations_with_condition(w, lambda a: True))
    elif k == 1:
        for w in ws:
            for rt in (Association, Inheritance, ClassRelation):
                d.get_neighbors_with_relation_type(w, rt)
                d.get_outgoing_neighbors_with_relation_type(w.clazz, rt)
                d.get_incoming_neighbors_with_relation_type(w, rt)
    elif k == 2:
        _ = d.parent_map
        for w in ws:
            d.all_ancestors(w.index)
    elif k == 3:
        d.get_assoc_keys_by_source(False)
        d.get_assoc_keys_by_source(True)
    elif k == 4:
        for w in ws:
            d.get_role_taker_associations_of_cls(w)
            for v in ws:
                d.get_common_role_taker_associations(w, v)
    else:
        _ = d.associations, d.inheritance_relations
        for w in ws:
            d.get_wrapped_class(w.clazz)
            for f in w.fields:
                _ = f.resolved_type, f.type_endpoint, f.is_optional, f.is_container


def _rel_str(r) -> str:
    f = getattr(r, "field", None)
    if f is None:
        return f"{r.source.clazz.__name__}>{r.target.clazz.__name__}"
    return f"{r.source.clazz.__name__}.{f.field.name}>{r.target.clazz.__name__}"


def _access(d, c: int, k: int) -> None:
    """one read-only accessor for class `C<c>` of diagram `d` (its result is irrelevant here, only what it leaves behind)"""
    from krrood.class_diagrams.class_diagram import Association, Inheritance
    ws = [w for w in d.wrapped_classes if w.clazz.__name__ == f"C{c}"]
    if not ws:
        return
    w = ws[0]
    k = k % 6
    if k == 0:
        d.get_out_edges(w)
    elif k == 1:
        d.get_out_edges(w.clazz)
    elif k == 2:
        list(d.get_outgoing_relations(w.clazz))
    elif k == 3:
        list(d.get_associations_with_condition(w, lambda a: True))
    elif k == 4:
        for rt in (Association, Inheritance):
            d.get_outgoing_neighbors_with_relation_type(w, rt)
            d.get_incoming_neighbors_with_relation_type(w, rt)
    else:
        d.get_role_taker_associations_of_cls(w)


def _reports(d, i: int) -> List[str]:
    """What the public per-class accessors of diagram `d` report, against the diagram's own graph (read through
    `inheritance_relations` / `associations`). Returns the disagreements; [] when every accessor reports the graph."""
    from krrood.class_diagrams.class_diagram import Association, Inheritance
    inh = sorted(_rel_str(r) for r in d.inheritance_relations)
    ass = sorted(_rel_str(r) for r in d.associations)
    truth = {
        "all": (inh, ass),
        "assoc": ([], ass),
    }
    ws = list(d.wrapped_classes)

    def split(rels):
        rels = list(rels)
        return (sorted(_rel_str(r) for r in rels if isinstance(r, Inheritance)),
                sorted(_rel_str(r) for r in rels if isinstance(r, Association)))

    views = {}
    try:
        views["get_out_edges"] = ("all", split(r for w in ws for r in d.get_out_edges(w)))
        views["get_out_edges(type)"] = ("all", split(r for w in ws for r in d.get_out_edges(w.clazz)))
        views["get_outgoing_relations"] = ("all", split(r for w in ws for r in d.get_outgoing_relations(w.clazz)))
        views["get_associations_with_condition"] = (
            "assoc", split(r for w in ws for r in d.get_associations_with_condition(w, lambda a: True)))
    except Exception as e:  # noqa: BLE001
        return [f"d{i}=<{type(e).__name__}>"]
    out = []
    main = views["get_out_edges"][1]
    for name, (key, got) in views.items():
        if got != truth[key]:
            out.append((name, got))
    # neighbour accessors: pairs (class, neighbour) per relation type, against the graph's pairs
    pair_truth = {
        Inheritance: sorted({(r.source.clazz.__name__, r.target.clazz.__name__) for r in d.inheritance_relations}),
        Association: sorted({(r.source.clazz.__name__, r.target.clazz.__name__) for r in d.associations}),
    }
    nb = []
    try:
        for rt in (Inheritance, Association):
            succ = sorted({(w.clazz.__name__, n.clazz.__name__) for w in ws
                           for n in d.get_outgoing_neighbors_with_relation_type(w, rt)})
            pred = sorted({(n.clazz.__name__, w.clazz.__name__) for w in ws
                           for n in d.get_incoming_neighbors_with_relation_type(w, rt)})
            if succ != pair_truth[rt]:
                nb.append(f"d{i}.outgoing_neighbors({rt.__name__})=" + ",".join(f"{a}>{b}" for a, b in succ))
            if pred != pair_truth[rt]:
                nb.append(f"d{i}.incoming_neighbors({rt.__name__})=" + ",".join(f"{a}>{b}" for a, b in pred))
    except Exception as e:  # noqa: BLE001
        nb.append(f"d{i}.neighbors=<{type(e).__name__}>")
    if not out and not nb:
        return []
    res = [f"d{i}=I[" + ",".join(main[0]) + "] A[" + ",".join(main[1]) + "]"]
    res += [f"d{i}.{name}=I[" + ",".join(g[0]) + "] A[" + ",".join(g[1]) + "]" for name, g in out if name != "get_out_edges"]
    return res + nb


# ---- the full accessor read-out: every public read accessor of ClassDiagram, found by introspection

MUTATING_VERBS = ("add", "remove", "clear", "visualize", "to_", "set", "update", "delete", "del_", "pop", "insert",
                  "discard", "reset", "build", "create", "register", "load", "save", "write")
"""public methods whose name starts with one of these are operations, not read accessors (`to_…` derives a new diagram)"""

_ACCESSORS: Dict[int, list] = {}
_ACCESSOR_NAMES: set = set()  # what introspection found in this process (printed into the evidence)


def _accessors(cls) -> list:
    """[(name, kind, [parameter kinds])]: properties, cached properties and public query methods with at most two
    parameters whose argument domain is known (a class of the diagram, a node index, a flag, a relation type, a
    predicate). Found by introspection, so an accessor added to ClassDiagram tomorrow is read as well."""
    import inspect
    from functools import cached_property
    got = _ACCESSORS.get(id(cls))
    if got is not None:
        return got
    out = []
    for name in sorted(dir(cls)):
        if name.startswith("_"):
            continue
        attr = inspect.getattr_static(cls, name)
        if isinstance(attr, (property, cached_property)):
            out.append((name, "prop", []))
            continue
        if isinstance(attr, (staticmethod, classmethod)) or not callable(attr):
            continue
        if name.startswith(MUTATING_VERBS):
            continue
        try:
            params = list(inspect.signature(attr).parameters.values())[1:]
        except (TypeError, ValueError):
            continue
        kinds = []
        for prm in params:
            ann = str(prm.annotation)
            pn = prm.name.lower()
            if prm.kind in (prm.VAR_POSITIONAL, prm.VAR_KEYWORD):
                continue
            if "relation" in pn or "ClassRelation" in ann:
                k = "reltype"
            elif "Callable" in ann or pn in ("condition", "predicate", "filter"):
                k = "pred"
            elif ann in ("bool", "<class 'bool'>") or isinstance(prm.default, bool):
                k = "flag"
            elif ann in ("int", "<class 'int'>") or "idx" in pn or "index" in pn:
                k = "index"
            elif "WrappedClass" in ann or "Type" in ann or pn in ("cls", "clazz", "cls1", "cls2", "class_", "klass"):
                k = "class"
            elif prm.default is not prm.empty:
                k = "default"
            else:
                k = None
            kinds.append(k)
        if None in kinds or len([k for k in kinds if k != "default"]) > 2:
            continue
        out.append((name, "method", [k for k in kinds if k != "default"]))
    _ACCESSORS[id(cls)] = out
    _ACCESSOR_NAMES.update(a[0] for a in out)
    return out


def _canon(v, depth=0) -> str:
    """canonical text of an accessor's value: names instead of objects, sets and dicts sorted"""
    import types
    from krrood.class_diagrams.class_diagram import ClassRelation, WrappedClass, ClassDiagram
    from krrood.class_diagrams.wrapped_field import WrappedField
    if depth > 6:
        return "…"
    if v is None or isinstance(v, (bool, int, str, float)):
        return repr(v)
    if isinstance(v, WrappedClass):
        return f"W({v.clazz.__name__})"
    if isinstance(v, ClassRelation):
        return type(v).__name__ + ":" + _rel_str(v)
    if isinstance(v, WrappedField):
        return f"{v.clazz.clazz.__name__}.{v.field.name}"
    if isinstance(v, ClassDiagram):
        return "<diagram>"
    if isinstance(v, type):
        return v.__name__
    if isinstance(v, dict):
        return "{" + ",".join(sorted(_canon(k, depth + 1) + ":" + _canon(x, depth + 1) for k, x in v.items())) + "}"
    if isinstance(v, (set, frozenset)):
        return "{" + ",".join(sorted(_canon(x, depth + 1) for x in v)) + "}"
    if isinstance(v, (list, tuple)):
        return "[" + ",".join(_canon(x, depth + 1) for x in v) + "]"
    if isinstance(v, types.GeneratorType) or hasattr(v, "__next__"):
        return "[" + ",".join(_canon(x, depth + 1) for x in v) + "]"
    return "<" + type(v).__name__ + ">"


def _readout(d, only: Optional[str] = None, reverse: bool = False) -> Dict[str, str]:
    """the value of every read accessor of diagram `d` (or of the one named `only`), for every argument of its (small)
    domain; accessors are read in alphabetical order, or in the reverse order"""
    from krrood.class_diagrams.class_diagram import Association, Inheritance, ClassRelation
    ws = list(d.wrapped_classes)
    dom = {
        "class": [(w.clazz.__name__, w) for w in ws],
        "index": [(str(w.index), w.index) for w in ws],
        "flag": [("F", False), ("T", True)],
        "reltype": [("Association", Association), ("Inheritance", Inheritance), ("ClassRelation", ClassRelation)],
        "pred": [("any", lambda a: True)],
    }
    out: Dict[str, str] = {}
    accs = [a for a in _accessors(type(d)) if only is None or a[0] == only]
    if reverse:
        accs = accs[::-1]
    for name, kind, kinds in accs:
        if kind == "prop":
            try:
                out[name] = _canon(getattr(d, name))
            except Exception as e:  # noqa: BLE001
                out[name] = "<" + type(e).__name__ + ">"
            continue
        for combo in itertools.product(*[dom[k] for k in kinds]):
            key = name + "(" + ",".join(c[0] for c in combo) + ")"
            try:
                out[key] = _canon(getattr(d, name)(*[c[1] for c in combo]))
            except Exception as e:  # noqa: BLE001
                out[key] = "<" + type(e).__name__ + ">"
    return out


def _pristine_readout(make) -> Dict[str, str]:
    """Ground truth of a read-out that owes nothing to the code's own bookkeeping: for each accessor a *pristine*
    equivalent diagram is made (`make()`: same classes, same derivation path, nothing else ever called on it) and only
    that accessor is read. Every accessor being a pure function of the diagram, this is what any read must return."""
    out: Dict[str, str] = {}
    probe = make()
    for name, _, _ in _accessors(type(probe)):
        out.update(_readout(make(), only=name))
    return out


def _readout_diff(old: Dict[str, str], new: Dict[str, str]) -> str:
    ks = [k for k in sorted(set(old) | set(new)) if old.get(k) != new.get(k)]
    return ",".join(f"{k}:{old.get(k)}->{new.get(k)}" for k in ks[:4])[:400]


def _apply(diagrams: list, op: tuple, scratch: str) -> None:
    import copy as _copy
    kind = op[0]
    if op[1] >= len(diagrams):
        return
    d = diagrams[op[1]]
    if kind == "q":
        _query(d, op[2])
    elif kind == "acc":
        _access(d, op[2], op[3])
    elif kind == "render":
        # rendering may fail for reasons that are not C17's (rustworkx_utils API); only its effect on the diagram counts
        try:
            d._build_rxnode_tree(add_association_relations=op[2])
        except Exception:  # noqa: BLE001
            pass
    elif kind == "copy":
        diagrams.append(_copy.copy(d))
    elif kind == "sub":
        diagrams.append(d.to_subdiagram_without_inherited_associations(op[2]))


def _cleanup_modules(pkg: str) -> None:
    for k in [k for k in sys.modules if k == pkg or k.startswith(pkg + ".")]:
        del sys.modules[k]
    try:
        from krrood.class_diagrams import wrapped_field as wf
        cc = getattr(getattr(wf, "manually_search_for_class_name", None), "cache_clear", None)
        if cc:
            cc()
    except Exception:  # noqa: BLE001
        pass


def _observe(p: Prog, root: str) -> str:
    from krrood.class_diagrams.class_diagram import ClassDiagram
    pkg = f"c17pkg_{os.getpid()}_{next(_COUNTER)}"
    pdir = os.path.join(root, pkg)
    os.makedirs(pdir)
    try:
        for name, src in render(p).items():
            with open(os.path.join(pdir, name + ".py"), "w") as fh:
                fh.write(src)
        importlib.invalidate_caches()
        nmods = 2 if p.mods == 2 else 1
        first = p.imp if p.imp < nmods else 0
        mods = {}
        for m in [first] + [m for m in range(nmods) if m != first]:
            mods[m] = importlib.import_module(f"{pkg}.m{m}")
        modof = {d[0]: mo for d, mo in zip(p.defs, p.modof)}
        classes = [getattr(mods[modof[c] if nmods == 2 else 0], f"C{c}") for c in p.order]
        anns = {f"C{c}": {fkey(pr, i): a for pr, i, a in fs} for c, fs in effective_fields(p.defs).items()}

        def twin_static(t: int) -> str:
            """a diagram of the same m0 class objects with same-named m1 classes of a twin module"""
            tm = importlib.import_module(f"{pkg}.m1t{t}")
            cl = [getattr(tm if modof[c] == 1 else mods[0], f"C{c}") for c in p.order]
            return _static(ClassDiagram(cl), anns)

        twin = p.twin if nmods == 2 else 0
        twins: List[str] = []
        if twin in (1, 3):
            twins.append(twin_static(0))
        d = ClassDiagram(list(classes))
        static = _static(d, anns)
        if twin == 2:
            twins.append(twin_static(0))
        if twin == 3:
            twins.append(twin_static(1))
        for k, ts in enumerate(twins):
            # same names, same definitions: each diagram must mirror ITS classes, i.e. look exactly like the main one
            if ts != static:
                return f"TWIN-DIFFERS main={static} twin{k}={ts}"
        d_rev = ClassDiagram(list(reversed(classes)))
        static_rev = _static(d_rev, anns)
        if static_rev != static:
            return "ORDER-DEPENDENT given=" + static + " reversed=" + static_rev
        diagrams = [d]
        chs = []
        seen: Dict[int, Dict[str, str]] = {}  # the last full read-out of each diagram that was read
        truth: Dict[int, Dict[str, str]] = {}  # its pristine read-out
        path: List[list] = [[]]  # how each diagram was derived from a freshly built one

        def pristine(i: int):
            import copy as _copy
            x = ClassDiagram(list(classes))
            for st in path[i]:
                x = _copy.copy(x) if st[0] == "copy" else x.to_subdiagram_without_inherited_associations(st[1])
            return x

        def read(i: int) -> List[str]:
            """full read-out of diagram i, forwards and backwards, against the pristine one and the previous one"""
            if i not in truth:
                truth[i] = _pristine_readout(lambda: pristine(i))
            msgs = []
            for rev in (False, True):
                ro = _readout(diagrams[i], reverse=rev)
                if ro != truth[i]:
                    msgs.append(f"d{i}:readout-differs-from-pristine " + _readout_diff(truth[i], ro))
                    break
                if i in seen and seen[i] != ro:
                    msgs.append(f"d{i}:readout-changed " + _readout_diff(seen[i], ro))
                    break
                seen[i] = ro
            seen.setdefault(i, ro)
            return msgs
        for op in p.ops:
            before = [_snapshot(x) for x in diagrams]
            _apply(diagrams, op, pdir)
            ch = []
            for i, b in enumerate(before):
                a = _snapshot(diagrams[i])
                if a != b:
                    ch.append(f"d{i}={a}")
            if op[0] in ("copy", "sub") and len(diagrams) > len(path):
                path.append(path[op[1]] + [("copy",) if op[0] == "copy" else ("sub", op[2])])
            if op[0] == "read" and op[1] < len(diagrams):
                ch.extend(read(op[1]))
            chs.append(";".join(ch))
        # after the run: what every diagram's accessors report, read original-first or derived-views-first
        idx = list(range(len(diagrams)))
        if p.final:
            idx.reverse()
        rep = {i: _reports(diagrams[i], i) for i in idx}
        reports = [r for i in sorted(rep) for r in rep[i]]
        # ... and every diagram that was read before is read once more: no accessor may have changed its value
        for i in sorted(seen):
            reports.extend(read(i))
        return static + " V[" + "|".join(chs) + "] R[" + ";".join(reports) + "]"
    finally:
        _cleanup_modules(pkg)
        shutil.rmtree(pdir, ignore_errors=True)


def _one(line: str, root: str) -> str:
    try:
        p = Prog.parse(line)
    except Exception as e:  # noqa: BLE001
        return "bad-case:" + type(e).__name__
    try:
        return _observe(p, root)
    except Exception as e:  # noqa: BLE001
        return "exc:" + type(e).__name__ + ":" + str(e)[:120].replace("\n", " ").replace("\t", " ")


def _worker(args) -> List[str]:
    repo_src, lines = args
    if repo_src not in sys.path:
        sys.path.insert(0, repo_src)
    import warnings
    import logging
    warnings.filterwarnings("ignore")
    logging.disable(logging.CRITICAL)
    root = tempfile.mkdtemp(prefix="c17_")
    sys.path.insert(0, root)
    try:
        return [_one(l, root) for l in lines]
    finally:
        try:
            sys.path.remove(root)
        except ValueError:
            pass
        shutil.rmtree(root, ignore_errors=True)


def run_impl(cases: Sequence[Case]) -> List[str]:
    import core
    repo_src = str(core.REPO / "src")
    lines = [c.line for c in cases]
    if len(lines) < 48:
        return _worker((repo_src, lines))
    # larger batches: fresh interpreters (spawn), so that nothing a case leaves behind reaches another batch
    import multiprocessing as mp
    nproc = max(1, min(8, (os.cpu_count() or 2) - 1, len(lines) // 24))
    chunks = [lines[i::nproc] for i in range(nproc)]
    try:
        ctx = mp.get_context("spawn")
        with ctx.Pool(nproc) as pool:
            res = pool.map_async(_worker, [(repo_src, ch) for ch in chunks]).get(timeout=600)
    except Exception:  # noqa: BLE001  (a pool that cannot start must not take the check down: run in-process)
        res = [_worker((repo_src, ch)) for ch in chunks]
    out: List[Optional[str]] = [None] * len(lines)
    for k, r in enumerate(res):
        for j, o in enumerate(r):
            out[k + j * nproc] = o
    return [o if o is not None else "exc:lost" for o in out]


# ------------------------------------------------------------------------------------------- generation

def _needs_quote(p: Prog, owner_pos: int, target: int) -> bool:
    """must a reference from the class at definition position `owner_pos` to class id `target` be a string?"""
    if p.future:
        return False
    pos = {d[0]: k for k, d in enumerate(p.defs)}
    if target not in pos:
        return True
    if p.mods == 2 and p.modof[owner_pos] != p.modof[pos[target]]:
        return p.modof[owner_pos] == 0  # m0 sees m1 only under TYPE_CHECKING; m1 imports m0 for real
    return pos[target] >= owner_pos


def _quote_fix(p: Prog, owner_pos: int, a, quoted=False):
    """wrap class leaves that cannot be named directly into `fwd`; keeps the term otherwise"""
    t = a[0]
    if t == "cls":
        if not quoted and _needs_quote(p, owner_pos, a[1]):
            return ("fwd", a)
        return a
    if t == "fwd":
        return ("fwd", _quote_fix(p, owner_pos, a[1], True))
    if t == "opt":
        return ("opt", a[1], _quote_fix(p, owner_pos, a[2], quoted))
    if t == "cont":
        return ("cont", a[1], _quote_fix(p, owner_pos, a[2], quoted))
    if t == "type":
        return ("type", _quote_fix(p, owner_pos, a[1], quoted))
    if t == "union":
        return ("union", _quote_fix(p, owner_pos, a[1], quoted), _quote_fix(p, owner_pos, a[2], quoted), a[3])
    return a


def normalize(p: Prog) -> Prog:
    """make a (possibly shrunk) program renderable: quoting, module rules, diagram rules of the 2-module layout"""
    q = p.copy()
    ids = [d[0] for d in q.defs]
    if len(q.modof) != len(q.defs):
        q.modof = [0] * len(q.defs)
    if q.mods != 2:
        q.modof = [0] * len(q.defs)
    pos = {c: k for k, c in enumerate(ids)}
    for k, (cid, bases, fields) in enumerate(q.defs):
        bases = [b for b in bases if b in pos and pos[b] < k]
        if q.mods == 2 and q.modof[k] == 0:
            bases = [b for b in bases if q.modof[pos[b]] == 0]
        q.defs[k] = (cid, bases, [(pr, i, _quote_fix(q, k, a)) for pr, i, a in fields])
    # generic declarations: `Generic[T]` roots have no generic base; a type argument needs a generic base; a class type
    # argument must be nameable where the class statement runs
    bases_of = {d[0]: d[1] for d in q.defs}
    gen: List[int] = []
    gsub: Dict[int, str] = {}
    for k, (cid, bases, _) in enumerate(q.defs):
        has_gen_base = any(b in gen for b in bases)
        arg = q.gsub.get(cid)
        if has_gen_base and arg is not None:
            if arg.startswith("C"):
                try:
                    n = int(arg[1:])
                except ValueError:
                    n = -1
                ok = n in pos and pos[n] < k and not (q.mods == 2 and q.modof[k] == 0 and q.modof[pos[n]] == 1)
                arg = arg if ok else "int"
            elif arg not in ("T", "int", "str"):
                arg = "int"
            gsub[cid] = arg
            if arg == "T":
                gen.append(cid)  # `class B(G[T])` is generic again
        elif cid in q.generic and not has_gen_base:
            gen.append(cid)
    q.generic, q.gsub = gen, gsub
    if q.mods != 2:
        q.twin = 0
    q.order = [o for o in q.order if o in pos]
    if q.mods == 2:
        # every m1 class named (under TYPE_CHECKING) by an m0 class of the diagram is in the diagram: a name that is
        # neither importable nor in the diagram makes get_type_hints fail for reasons outside C17
        changed = True
        while changed:
            changed = False
            for k, (cid, bases, fields) in enumerate(q.defs):
                if q.modof[k] != 0 or not _reaches(q, cid):
                    continue
                for _, _, a in fields:
                    for r in cls_refs(a):
                        if r in pos and q.modof[pos[r]] == 1 and r not in q.order:
                            q.order.append(r)
                            changed = True
    nd = 1
    ops = []
    for op in q.ops:
        if op[1] < nd:
            ops.append(op)
            if op[0] in ("copy", "sub"):
                nd += 1
    q.ops = ops
    return q


def _reaches(p: Prog, cid: int) -> bool:
    """is class `cid` in the diagram or an ancestor of a diagram class (its annotations get evaluated)"""
    bases = {d[0]: d[1] for d in p.defs}
    seen = set()
    stack = list(p.order)
    while stack:
        c = stack.pop()
        if c in seen:
            continue
        seen.add(c)
        stack.extend(bases.get(c, []))
    return cid in seen


def _ancestors(bases: Dict[int, List[int]], c: int) -> set:
    out, stack = set(), [c]
    while stack:
        x = stack.pop()
        if x in out:
            continue
        out.add(x)
        stack.extend(bases.get(x, []))
    return out


# endpoint classes that are proper subclasses of a builtin scalar, enums with a scalar mix-in, or unrelated classes
EXT_LEAVES = [("sub", "float", 0), ("sub", "int", 0), ("sub", "str", 0), ("sub", "datetime", 0),
              ("mix", "int", 0), ("mix", "int", 1), ("mix", "str", 0), ("mix", "str", 1), ("mix", "float", 0),
              ("plain", 0)]


def _gen_leaf(rng, n: int, enums: int, prefer_cls=0.5):
    r = rng.random()
    if r < prefer_cls:
        return ("cls", rng.randrange(n))
    if enums and r < prefer_cls + 0.18:
        return ("enum", rng.randrange(enums))
    if r > 0.93:
        return rng.choice(EXT_LEAVES)
    return (rng.choice(BUILTINS),)


def _maybe_fwd(rng, a, prob):
    return ("fwd", a) if rng.random() < prob else a


def _gen_style(rng):
    return rng.choices(STYLES, weights=[62, 10, 10, 18])[0]


def gen_ann(rng, n: int, enums: int, tags: set, allow_nested=True, allow_odd=True):
    leaf = _maybe_fwd(rng, _gen_leaf(rng, n, enums), 0.2)
    r = rng.random()
    if not allow_nested and 0.83 <= r < 0.95:
        r = rng.random() * 0.83
    if r < 0.30:
        tags.add("ann:leaf")
        a = leaf
    elif r < 0.52:
        st = _gen_style(rng) if allow_odd else rng.choices(["typing", "unionNone"], weights=[8, 2])[0]
        tags.add("ann:opt-" + st)
        a = ("opt", st, leaf)
    elif r < 0.76:
        tags.add("ann:cont")
        a = ("cont", rng.choice(KINDS), leaf)
    elif r < 0.83:
        tags.add("ann:type")
        a = ("type", leaf)
    elif r < 0.95:
        tags.add("ann:nested")
        shape = rng.randrange(7)
        k1, k2 = rng.choice(KINDS), rng.choice(KINDS)
        st = rng.choices(["typing", "unionNone", "noneFirst"], weights=[7, 1, 2 if allow_odd else 0])[0]
        if shape == 0:
            a = ("opt", st, ("cont", k1, leaf))
        elif shape == 1:
            a = ("cont", k1, ("opt", _gen_style(rng) if allow_odd else "typing", leaf))
        elif shape == 2:
            a = ("cont", k1, ("cont", k2, leaf))
        elif shape == 3:
            a = ("opt", st, ("type", leaf))
        elif shape == 4:
            a = ("cont", k1, ("type", leaf))
        elif shape == 5:
            a = ("opt", st, ("cont", k1, ("cont", k2, leaf)))
        else:
            a = ("cont", k1, ("opt", "typing", ("cont", k2, leaf)))
    else:
        tags.add("ann:union")
        x = _gen_leaf(rng, n, enums, 0.6)
        y = _gen_leaf(rng, n, enums, 0.4)
        if x == y:
            y = ("str",) if x != ("str",) else ("int",)
        a = ("union", _maybe_fwd(rng, x, 0.15), _maybe_fwd(rng, y, 0.15), rng.random() < 0.4)
        if rng.random() < 0.25:
            a = ("cont", rng.choice(KINDS), a)
    if rng.random() < 0.12:
        a = ("fwd", strip_fwd(a))
        tags.add("ann:whole-string")
    return a


def _leaf_of(a):
    t = a[0]
    if t in ("opt", "cont"):
        return _leaf_of(a[2])
    if t in ("type", "fwd"):
        return _leaf_of(a[1])
    return a


def gen_override(rng, old, n: int, enums: int, tags: set, allow_nested=True, allow_odd=True):
    """the annotation with which a subclass re-declares an inherited field annotated `old`: the same wrappers around
    another endpoint (narrowing / widening / unrelated), the same endpoint in another wrapper (`X` -> `Optional[X]`,
    `List[X]` -> `Set[X]`, `Optional[X]` -> `X`, ...), or any other term of the grammar"""
    old = strip_fwd(old)
    r = rng.random()
    if r < 0.4:
        tags.add("override:retarget")
        leaf = _gen_leaf(rng, n, enums, 0.7)
        if leaf == _leaf_of(old):
            leaf = _gen_leaf(rng, n, enums, 0.7)
        a = _sub_leaf(old, _maybe_fwd(rng, leaf, 0.2))
    elif r < 0.8:
        tags.add("override:rewrap")
        leaf = _leaf_of(old)
        if leaf[0] == "union":
            leaf = _gen_leaf(rng, n, enums)
        leaf = _maybe_fwd(rng, leaf, 0.2)
        st = _gen_style(rng) if allow_odd else rng.choices(["typing", "unionNone"], weights=[8, 2])[0]
        forms = [leaf, ("opt", st, leaf), ("cont", rng.choice(KINDS), leaf), ("type", leaf)]
        forms = [x for x in forms if strip_fwd(x) != old] or forms
        a = rng.choice(forms)
    else:
        tags.add("override:fresh")
        a = gen_ann(rng, n, enums, tags, allow_nested, allow_odd)
    return a


def gen_prog(rng, tags: set) -> Prog:
    n = rng.choice([1, 2, 2, 3, 3, 3, 4, 4, 5, 6])
    enums = rng.choice([0, 1, 1, 2])
    p = Prog(future=rng.random() < 0.25, mods=2 if (n >= 2 and rng.random() < 0.22) else 1, enums=enums)
    p.imp = rng.randrange(2) if p.mods == 2 else 0
    # two thirds of the programs stay inside the fragment on which the code as it is must equal the specification
    allow_nested = rng.random() < 0.2
    allow_odd = rng.random() < 0.2
    # field overriding: a subclass re-declares each field it inherits with probability `over`
    over = rng.choice([0.0, 0.0, 0.0, 0.15, 0.3, 0.6])
    bases: Dict[int, List[int]] = {}
    fidx = 0
    modof = []
    for i in range(n):
        m = rng.randrange(2) if p.mods == 2 else 0
        cand = [j for j in range(i) if not (p.mods == 2 and m == 0 and modof[j] == 1)]
        bs: List[int] = []
        r = rng.random()
        if cand and r < 0.55:
            bs = [rng.choice(cand)]
            if len(cand) > 1 and rng.random() < 0.2:
                anc0 = _ancestors(bases, bs[0])
                others = [j for j in cand if not (_ancestors(bases, j) & anc0)]
                if others:
                    bs.append(rng.choice(others))
        bases[i] = bs
        modof.append(m)
        fields = []
        for _ in range(rng.choice([0, 1, 1, 2, 2, 3, 4])):
            fields.append((rng.random() < 0.15, fidx, gen_ann(rng, n, enums, tags, allow_nested, allow_odd)))
            fidx += 1
        if bs and over:
            inherited = effective_fields(p.defs + [(i, bs, [])])[i]
            for pr, idx, old in inherited:
                if rng.random() < over:
                    new = (pr, idx, gen_override(rng, old, n, enums, tags, allow_nested, allow_odd))
                    fields.insert(rng.randrange(len(fields) + 1), new)
        p.defs.append((i, bs, fields))
    p.modof = modof
    ids = list(range(n))
    if rng.random() < 0.65:
        order = ids[:]
    else:
        order = rng.sample(ids, rng.randrange(1, n + 1))
        tags.add("order:subset")
    rng.shuffle(order)
    p.order = order
    nd = 1
    for _ in range(rng.choice([0, 1, 1, 2, 3, 4, 5])):
        r = rng.random()
        d = rng.randrange(nd)
        if r < 0.40:
            p.ops.append(("sub", d, rng.random() < 0.5))
            nd += 1
        elif r < 0.53:
            p.ops.append(("q", d, rng.randrange(6)))
        elif r < 0.73:
            p.ops.append(("acc", d, rng.choice(order), rng.randrange(6)))
        elif r < 0.84:
            p.ops.append(("render", d, rng.random() < 0.5))
        else:
            p.ops.append(("copy", d))
            nd += 1
    if p.ops and rng.random() < 0.6:
        # full accessor read-outs around the operations: (read, op, read, …) — every diagram that exists at that point
        ops, nd = [], 1
        if rng.random() < 0.8:
            ops.append(("read", 0))
        for op in p.ops:
            ops.append(op)
            if op[0] in ("sub", "copy"):
                nd += 1
            if rng.random() < 0.6:
                ops.append(("read", rng.randrange(nd)))
        p.ops = ops
        tags.add("readouts")
    p.final = rng.randrange(2)
    if rng.random() < 0.3:
        # generic bases: some roots become `Generic[T]`; classes below a generic class write a type argument or not
        roots = [i for i in range(n) if not bases[i]]
        p.generic = [i for i in roots if rng.random() < 0.6]
        for i in range(n):
            if bases[i] and rng.random() < 0.6:
                p.gsub[i] = rng.choice(["int", "str", "T", "T", f"C{rng.randrange(n)}"])
    if p.mods == 2 and rng.random() < 0.6:
        p.twin = rng.choice([1, 2, 3])
    if p.future:
        tags.add("future-annotations")
    if p.mods == 2:
        tags.add("two-modules")
    if any(len(b) > 1 for b in bases.values()):
        tags.add("multiple-bases")
    if any(bases[b] for bs in bases.values() for b in bs):
        tags.add("multi-level")
    p = normalize(p)
    if has_override(p.defs):
        tags.add("field-override")
    if p.generic:
        tags.add("generic-bases")
    if p.twin:
        tags.add(f"twin-diagrams:{p.twin}")
    return p


def _mk(p: Prog, tags, origin) -> Case:
    p = normalize(p)
    return Case(line=p.line(), tags=tuple(sorted(tags)), origin=origin)


def _exhaustive_forms(tier: str) -> List[Case]:
    """family (a): every wrapper form x leaf x quoting, on `C0` (owner, one field) and `C1` (target)"""
    cases = []
    leaves = [("int",), ("str",), ("datetime",), ("cls", 1), ("cls", 0), ("enum", 0),
              # endpoint classes deriving from a builtin scalar (not builtin-valued: membership is exact), mix-in enums
              # (enums, not builtin-valued), an unrelated class
              ("sub", "float", 0), ("mix", "int", 0), ("mix", "str", 1), ("plain", 0)]
    if tier != "quick":
        leaves += [("float",), ("bool",)] + [x for x in EXT_LEAVES if x not in leaves]

    def forms(x):
        yield "leaf", x
        for st in STYLES:
            yield "opt-" + st, ("opt", st, x)
        for k in KINDS:
            yield "cont", ("cont", k, x)
        yield "type", ("type", x)

    for leaf in leaves:
        for tag, a in forms(leaf):
            for quoting in ("none", "leaf", "whole"):
                if quoting == "leaf":
                    b = _sub_leaf(a, ("fwd", leaf))
                elif quoting == "whole":
                    b = ("fwd", a)
                else:
                    b = a
                for target_first in (False, True):
                    # definition order: target before or after the owner (forces / does not force forward references)
                    ids = [1, 0] if target_first else [0, 1]
                    p = Prog(enums=1, defs=[(c, [], [(False, 0, b)] if c == 0 else [(False, 1, ("int",))]) for c in ids],
                             order=[0, 1], ops=[])
                    cases.append(_mk(p, {"exh:form", "ann:" + tag, "quote:" + quoting}, "exhaustive"))
    # private field, target outside the diagram, future annotations, diagram of the owner alone
    for a in [("cls", 1), ("opt", "typing", ("cls", 1)), ("cont", "list", ("cls", 1)), ("type", ("cls", 1))]:
        for priv in (False, True):
            for order in ([0, 1], [1, 0], [0], [1]):
                for fut in (False, True):
                    p = Prog(future=fut, enums=0, defs=[(0, [], [(priv, 0, a)]), (1, [], [(False, 1, ("int",))])],
                             order=order)
                    cases.append(_mk(p, {"exh:membership", "private" if priv else "public"}, "exhaustive"))
    return cases


def _sub_leaf(a, new):
    t = a[0]
    if t in ("opt", "cont"):
        return (t, a[1], _sub_leaf(a[2], new))
    if t == "type":
        return ("type", _sub_leaf(a[1], new))
    return new


def _exhaustive_nested(tier: str) -> List[Case]:
    """family (b): every pair of wrappers over int / class / enum; general unions"""
    cases = []
    kinds = ["list", "bset"] if tier == "quick" else KINDS

    def wrappers():
        for st in STYLES:
            yield ("opt", st)
        for k in kinds:
            yield ("cont", k)
        yield ("type",)

    def ap(w, x):
        return ("type", x) if w[0] == "type" else (w[0], w[1], x)

    for leaf in [("int",), ("cls", 1), ("enum", 0), ("mix", "int", 0)] + ([("sub", "str", 0)] if tier != "quick" else []):
        for w1 in wrappers():
            for w2 in wrappers():
                if w1[0] == "opt" and w2[0] == "opt":
                    continue  # Optional[Optional[X]] is Optional[X] for typing: not a term of the grammar
                if w1 == ("opt", "pipe"):
                    continue  # `List[X] | None` is a typing.Union, not a types.UnionType: spelled with Optional instead
                if w1[0] == "type" and w2[0] != "type" and leaf[0] != "cls":
                    pass
                a = ap(w1, ap(w2, leaf))
                p = Prog(enums=1, defs=[(1, [], [(False, 1, ("int",))]), (0, [], [(False, 0, a)])], order=[0, 1])
                cases.append(_mk(p, {"exh:nested", "ann:nested"}, "exhaustive"))
    for x, y in [(("cls", 1), ("int",)), (("int",), ("cls", 1)), (("cls", 1), ("cls", 0)), (("int",), ("str",)),
                 (("enum", 0), ("cls", 1))]:
        for wn in (False, True):
            for outer in (None, "list"):
                a = ("union", x, y, wn)
                if outer:
                    a = ("cont", outer, a)
                p = Prog(enums=1, defs=[(1, [], [(False, 1, ("int",))]), (0, [], [(False, 0, a)])], order=[1, 0])
                cases.append(_mk(p, {"exh:union", "ann:union"}, "exhaustive"))
    return cases


def _exhaustive_hier(tier: str) -> List[Case]:
    """family (c): inheritance shapes over C0..C3 (C3 = association target) x class lists x derived-view sequences"""
    cases = []
    T = 3
    shapes = {
        "chain": {0: [], 1: [0], 2: [1]},
        "tree": {0: [], 1: [0], 2: [0]},
        "flat": {0: [], 1: [], 2: [1]},
        "two-bases": {0: [], 1: [], 2: [0, 1]},
    }
    fieldsets = {
        "root-ref": {0: [("cls", T)], 1: [], 2: []},
        "each-ref": {0: [("cls", T)], 1: [("opt", "typing", ("cls", T))], 2: [("cont", "list", ("cls", T))]},
        "parallel": {0: [("cls", T), ("cont", "set", ("cls", T))], 1: [("cls", T)], 2: []},
        "to-sub": {0: [("fwd", ("cls", 1)), ("cls", T)], 1: [], 2: [("cls", 0)]},
    }
    opseqs = [[], [("sub", 0, False)], [("sub", 0, True)], [("sub", 0, False), ("sub", 0, True)],
              [("copy", 0), ("sub", 1, True), ("q", 0, 2)], [("sub", 0, True), ("sub", 1, False), ("render", 0, True)],
              # single accessor calls on the derived view and on the source, in both orders
              [("sub", 0, False), ("acc", 1, 2, 0)], [("sub", 0, False), ("acc", 0, 2, 0), ("acc", 1, 2, 0)],
              [("sub", 0, True), ("acc", 1, 1, 3), ("acc", 0, 1, 3)], [("acc", 0, 2, 1), ("sub", 0, False), ("acc", 1, 2, 2)],
              [("sub", 0, False), ("q", 1, 0), ("q", 0, 0)]]
    orders = [[0, 1, 2, 3], [3, 2, 1, 0], [2, 0, 3, 1], [0, 2, 3], [1, 2, 3], [2, 3], [0, 1, 2], [1, 3, 0]]
    if tier == "quick":
        orders = orders[:6]
    for sname, sh in shapes.items():
        for fname, fs in fieldsets.items():
            for order in orders:
                for k, ops in enumerate(opseqs):
                    if tier == "quick" and k in (2, 5) and order != orders[0]:
                        continue
                    fidx = 0
                    defs = [(T, [], [(False, 90, ("int",))])]
                    for c in (0, 1, 2):
                        fl = []
                        for a in fs[c]:
                            fl.append((False, fidx, a))
                            fidx += 1
                        defs.append((c, list(sh[c]), fl))
                    # final accessor read-out: original first; and derived views first when there is a derived view
                    finals = (0, 1) if any(o[0] in ("sub", "copy") for o in ops) and (k >= 6 or order in orders[:2]) \
                        else (0,)
                    for fin in finals:
                        p = Prog(defs=defs, order=list(order), ops=list(ops), final=fin)
                        cases.append(_mk(p, {"exh:hier", "shape:" + sname, "fields:" + fname, f"ops:{len(ops)}",
                                             f"final:{'derived-first' if fin else 'original-first'}"}, "exhaustive"))
    return cases


def _exhaustive_generic(tier: str) -> List[Case]:
    """family (d): `C0(Generic[T])`, `C1(C0[arg])`, plain `C2(C1)`, `C3(C2)`; `C4` = association target / type argument"""
    cases = []
    T = 4
    shapes = {
        "chain": {0: [], 1: [0], 2: [1], 3: [2]},
        "fork": {0: [], 1: [0], 2: [1], 3: [1]},
        "second-base": {0: [], 1: [0], 2: [1, 5], 3: [2]},  # C5: a plain mixin
        "generic-below": {0: [], 1: [0], 2: [1], 3: [2]},   # with C1(C0[T]) and C2(C1[int])
    }
    args = ["int", "T", f"C{T}", None]
    orders = [[0, 1, 2, 3, 4], [3, 2, 1, 0, 4], [0, 2, 4], [1, 2, 3], [0, 3], [2, 3, 1]]
    fieldsets = [{}, {0: [("cls", T)]}, {1: [("opt", "typing", ("cls", T))], 2: [("cont", "list", ("cls", 0))]}]
    for sname, sh in shapes.items():
        for arg in args:
            if sname == "generic-below" and arg != "T":
                continue
            for order in orders:
                for fi, fs in enumerate(fieldsets):
                    for ops in ([], [("sub", 0, False), ("acc", 1, 3, 0)]):
                        if ops and (fi == 0 or (tier == "quick" and order is not orders[0])):
                            continue
                        defs = [(T, [], [(False, 90, ("int",))]), (5, [], [])]
                        fidx = 0
                        for c in (0, 1, 2, 3):
                            fl = []
                            for a in fs.get(c, []):
                                fl.append((False, fidx, a))
                                fidx += 1
                            defs.append((c, list(sh[c]), fl))
                        gsub = {1: arg} if arg else {}
                        if sname == "generic-below":
                            gsub[2] = "int"
                        o = list(order) + ([5] if sname == "second-base" and 2 in order else [])
                        p = Prog(defs=defs, order=o, ops=list(ops), generic=[0], gsub=gsub)
                        cases.append(_mk(p, {"exh:generic", "generic-bases", "shape:" + sname, f"targ:{arg}"},
                                         "exhaustive"))
    return cases


def _exhaustive_deep(tier: str) -> List[Case]:
    """family (f): inheritance chains three and four deep inside the diagram, with full accessor read-outs before and
    after every kind of read-only operation (read, derive, read; read, query, read; …)"""
    cases = []
    T = 5
    shapes = {
        "chain5": {0: [], 1: [0], 2: [1], 3: [2], 4: [3]},
        "chain4+leaf": {0: [], 1: [0], 2: [1], 3: [2], 4: [1]},
        "two-chains": {0: [], 1: [0], 2: [1], 3: [], 4: [3, 2]},
    }
    fieldsets = {
        "root-ref": {0: [("cls", T)]},
        "root+leaf": {0: [("cls", T)], 4: [("opt", "typing", ("cls", T))], 2: [("cont", "list", ("cls", 0))]},
        "none": {},
    }
    opseqs = [
        [("read", 0), ("sub", 0, False), ("read", 0)],
        [("read", 0), ("sub", 0, True), ("read", 0), ("read", 1)],
        [("read", 0), ("q", 0, 2), ("read", 0)],
        [("read", 0), ("q", 0, 0), ("q", 0, 1), ("q", 0, 3), ("read", 0)],
        [("read", 0), ("read", 0)],
        [("read", 0), ("acc", 0, 4, 4), ("acc", 0, 4, 0), ("read", 0)],
        [("read", 0), ("render", 0, True), ("read", 0)],
        [("read", 0), ("copy", 0), ("sub", 1, False), ("read", 1), ("read", 0), ("read", 2)],
        [("sub", 0, False), ("read", 1), ("read", 0), ("sub", 1, True), ("read", 1), ("read", 0)],
        [("q", 0, 2), ("sub", 0, False), ("q", 1, 2)],   # no explicit read: only the final read-out
    ]
    orders = [[0, 1, 2, 3, 4, 5], [5, 4, 3, 2, 1, 0], [1, 2, 3, 4, 5], [0, 2, 3, 4], [3, 1, 5, 0, 2]]
    for sname, sh in shapes.items():
        for fname, fs in fieldsets.items():
            for oi, order in enumerate(orders):
                for k, ops in enumerate(opseqs):
                    if fname == "none" and k not in (2, 4):
                        continue
                    if tier == "quick" and oi >= 3 and k not in (0, 2):
                        continue
                    defs = [(T, [], [(False, 90, ("int",))])]
                    fidx = 0
                    for c in range(5):
                        fl = []
                        for a in fs.get(c, []):
                            fl.append((False, fidx, a))
                            fidx += 1
                        defs.append((c, list(sh[c]), fl))
                    for fin in ((0, 1) if k in (0, 7) else (0,)):
                        p = Prog(defs=defs, order=list(order), ops=list(ops), final=fin)
                        cases.append(_mk(p, {"exh:deep", "shape:" + sname, "fields:" + fname, "readouts",
                                             f"ops:{len(ops)}"}, "exhaustive"))
    return cases


def _exhaustive_override(tier: str) -> List[Case]:
    """family (g): a subclass re-declares a field of one of its bases with another annotation (narrowing, widening, wrapper
    change, class <-> scalar). `C0 {f0: A, f1: int}`, `C1(C0)`, `C2(C1)`; `C3` and `C4(C3)` are the association targets, `C5`
    an unrelated base that declares the same name. The most derived declaration is the one the class has."""
    cases = []
    pairs = [
        (("cls", 3), ("cls", 4)),                                             # narrowing
        (("cls", 4), ("cls", 3)),                                             # widening
        (("cont", "list", ("cls", 3)), ("cont", "list", ("cls", 4))),         # narrowed element type
        (("cont", "list", ("cls", 3)), ("cont", "bset", ("cls", 3))),         # another container
        (("int",), ("opt", "typing", ("int",))),                              # scalar becomes optional
        (("opt", "typing", ("cls", 3)), ("cls", 3)),                          # optional becomes required
        (("cls", 3), ("opt", "typing", ("cls", 4))),
        (("cls", 3), ("cont", "set", ("cls", 3))),                            # one-to-one becomes one-to-many
        (("cls", 3), ("int",)),                                               # the association goes away
        (("str",), ("cls", 3)),                                               # an association appears
        (("cls", 3), ("enum", 0)),
        (("cls", 3), ("type", ("cls", 3))),
        (("opt", "unionNone", ("cls", 4)), ("opt", "pipe", ("cls", 3))),
        (("cls", 3), ("fwd", ("cls", 2))),                                    # narrowed to the class itself
    ]
    if tier == "quick":
        pairs = pairs[:3] + pairs[4:10] + pairs[13:]
    I = ("int",)
    shapes = ["leaf", "middle", "back", "twice", "other-base-last", "other-base-first", "private"]
    orders = [[0, 1, 2, 3, 4, 5], [5, 4, 3, 2, 1, 0], [2, 3, 4], [4, 1, 3, 2]]
    opseqs = [[], [("sub", 0, False)], [("sub", 0, True), ("read", 0), ("read", 1)]]
    for a, b in pairs:
        for shape in shapes:
            pr = shape == "private"
            own: Dict[int, list] = {0: [(pr, 0, a), (False, 1, I)], 1: [], 2: [], 5: []}
            bases: Dict[int, List[int]] = {0: [], 1: [0], 2: [1], 5: []}
            if shape in ("leaf", "private"):
                own[2] = [(False, 2, I), (pr, 0, b)]
            elif shape == "middle":
                own[1] = [(pr, 0, b)]
                own[2] = [(False, 2, I)]
            elif shape == "back":
                own[1] = [(pr, 0, b)]
                own[2] = [(pr, 0, a), (False, 2, I)]
            elif shape == "twice":
                own[1] = [(False, 1, b), (pr, 0, b)]     # f1: int is re-declared as well
                own[2] = [(False, 1, a)]
            else:
                own[5] = [(False, 3, I), (pr, 0, b)]
                bases[2] = [1, 5] if shape == "other-base-last" else [5, 1]
            for oi, order in enumerate(orders):
                for k, ops in enumerate(opseqs):
                    if tier == "quick" and (oi == 3 or (k == 2 and oi != 0) or (k == 1 and oi == 1)):
                        continue
                    defs = [(3, [], [(False, 90, I)]), (4, [3], []), (5, [], own[5])]
                    defs += [(c, list(bases[c]), list(own[c])) for c in (0, 1, 2)]
                    for fut in ((False, True) if (oi == 0 and k == 0) else (False,)):
                        p = Prog(future=fut, enums=1, defs=defs, order=list(order), ops=list(ops))
                        cases.append(_mk(p, {"exh:override", "field-override", "shape:" + shape, f"ops:{len(ops)}"},
                                         "exhaustive"))
    return cases


def _exhaustive_twins(tier: str) -> List[Case]:
    """family (e): 2-module programs whose m0 classes name m1 classes under TYPE_CHECKING only, built into two or three
    diagrams of one process that share the m0 class objects and supply same-named twins of the m1 classes"""
    cases = []
    forms = [("cls", 1), ("opt", "typing", ("cls", 1)), ("cont", "list", ("cls", 1)), ("type", ("cls", 1)),
             ("fwd", ("cont", "set", ("cls", 1))), ("cont", "blist", ("opt", "typing", ("cls", 1)))]
    for a in forms:
        for twin in (1, 2, 3):
            for fut in (False, True):
                for shape in ("flat", "sub-in-m0", "sub-in-m1"):
                    if tier == "quick" and fut and shape != "flat":
                        continue
                    defs = [(0, [], [(False, 0, a), (False, 1, ("cont", "tuple", ("cls", 1)))]), (1, [], [(False, 2, ("int",))])]
                    modof = [0, 1]
                    if shape == "sub-in-m0":
                        defs.append((2, [0], [(False, 3, ("cls", 1))]))
                        modof.append(0)
                    elif shape == "sub-in-m1":
                        defs.append((2, [0], [(False, 3, ("cls", 0))]))
                        modof.append(1)
                    order = [d[0] for d in defs]
                    for ops in ([], [("sub", 0, False)]):
                        if ops and shape == "flat":
                            continue
                        p = Prog(future=fut, mods=2, imp=twin % 2, defs=defs, modof=modof, order=order, ops=list(ops),
                                 twin=twin)
                        cases.append(_mk(p, {"exh:twins", "two-modules", f"twin-diagrams:{twin}"}, "exhaustive"))
    return cases


def generate(rng, tier, n):
    cases: List[Case] = []
    cases += _exhaustive_forms(tier)
    cases += _exhaustive_nested(tier)
    cases += _exhaustive_hier(tier)
    cases += _exhaustive_generic(tier)
    cases += _exhaustive_twins(tier)
    cases += _exhaustive_deep(tier)
    cases += _exhaustive_override(tier)
    for _ in range(n):
        tags: set = set()
        p = gen_prog(rng, tags)
        tags.add(f"classes:{len(p.defs)}")
        tags.add(f"ops:{len(p.ops)}")
        cases.append(Case(line=p.line(), tags=tuple(sorted(tags)), origin="random"))
    return cases


def nontrivial(case: Case, spec: str) -> bool:
    return "I[]" not in spec.split(" F[")[0] or "A[]" not in spec.split(" F[")[0]


def revive(case: Case) -> Case:
    return case


def extra_coverage() -> Dict[str, Any]:
    try:  # the accessors are discovered in the worker processes; discover them here too for the evidence
        from krrood.class_diagrams.class_diagram import ClassDiagram
        _accessors(ClassDiagram)
    except Exception:  # noqa: BLE001
        pass
    return {
        "class_orders_per_case": 2,
        "observed": "wrapped_classes, inheritance_relations, associations (with field names), the seven WrappedField "
                    "predicates + type_endpoint of every discovered field, snapshot of every existing diagram after "
                    "each operation",
        "operations": "q = six bundles of read-only accessors; acc = one accessor for one class on one diagram (source "
                      "or derived view); render = _build_rxnode_tree; copy = copy.copy(diagram); "
                      "sub = to_subdiagram_without_inherited_associations(include_field_name)",
        "accessor_readout": "`read d`: every public read accessor found by introspection over ClassDiagram ("
                            + ", ".join(sorted(_ACCESSOR_NAMES)) + "), all arguments of small domains, read forwards and "
                            "backwards, compared with the previous read-out of d and with the pristine read-out",
        "accessor_reports": "after the run, for every diagram (original first / derived views first): get_out_edges "
                            "(by wrapped class and by class), get_outgoing_relations, get_associations_with_condition, "
                            "get_outgoing/incoming_neighbors_with_relation_type for every class, compared with the "
                            "diagram's own graph",
        "restricted_observation": "annotations with more than one wrapper or a general Union: is_optional and the "
                                  "association edge only (mirror of CD.plain)",
    }


# ------------------------------------------------------------------------------------------- shrinking

def _ann_shrinks(a):
    t = a[0]
    if t in ("opt", "cont"):
        yield a[2]
        for s in _ann_shrinks(a[2]):
            yield (t, a[1], s)
    elif t in ("type", "fwd"):
        yield a[1]
        for s in _ann_shrinks(a[1]):
            yield (t, s)
    elif t == "union":
        yield a[1]
        yield a[2]
    elif t in ("cls", "enum") or t in EXT:
        yield ("int",)


def shrink(case: Case):
    p = Prog.parse(case.line)
    out = []

    def emit(q: Prog):
        try:
            q = normalize(q)
            if q.order and q.defs:
                out.append(Case(line=q.line(), tags=case.tags, origin="shrink"))
        except Exception:  # noqa: BLE001
            pass

    for k in range(len(p.ops)):
        q = p.copy()
        del q.ops[k]
        emit(q)
    for k, (cid, bases, fields) in enumerate(p.defs):
        refs = [r for d in p.defs for _, _, a in d[2] for r in cls_refs(a)]
        if len(p.defs) > 1 and cid not in refs:
            q = p.copy()
            del q.defs[k]
            if len(q.modof) > k:
                del q.modof[k]
            q.order = [o for o in q.order if o != cid]
            emit(q)
        for j in range(len(fields)):
            q = p.copy()
            q.defs[k] = (cid, list(bases), fields[:j] + fields[j + 1:])
            emit(q)
            for s in _ann_shrinks(fields[j][2]):
                q = p.copy()
                q.defs[k] = (cid, list(bases), fields[:j] + [(fields[j][0], fields[j][1], s)] + fields[j + 1:])
                emit(q)
        for b in bases:
            q = p.copy()
            q.defs[k] = (cid, [x for x in bases if x != b], list(fields))
            emit(q)
    for k in range(len(p.order)):
        if len(p.order) > 1:
            q = p.copy()
            del q.order[k]
            emit(q)
    if p.future:
        q = p.copy()
        q.future = False
        emit(q)
    if p.mods == 2:
        q = p.copy()
        q.mods = 1
        emit(q)
    if p.twin:
        for t in (0, 1, 2):
            if t < p.twin:
                q = p.copy()
                q.twin = t
                emit(q)
    for g in p.generic:
        q = p.copy()
        q.generic = [x for x in p.generic if x != g]
        emit(q)
    for c in p.gsub:
        q = p.copy()
        del q.gsub[c]
        emit(q)
        if p.gsub[c] != "int":
            q = p.copy()
            q.gsub[c] = "int"
            emit(q)
    if p.enums:
        used = [a for d in p.defs for _, _, a in d[2] if "enum" in sx(a)]
        if not used:
            q = p.copy()
            q.enums = 0
            emit(q)
    seen = {case.line}
    res = []
    for c in out:
        if c.line not in seen and len(c.line) <= len(case.line):
            seen.add(c.line)
            res.append(c)
    return res


if __name__ == "__main__":  # python harness/props/c17.py '<case line>'  -> the Python program the case stands for
    for _name, _src in render(Prog.parse(sys.argv[1])).items():
        if _src:
            print(f"# ---- {_name}.py\n{_src}")
