"""C09 — result quantifiers enforce exactly the stated solution count.

Implementation side: the real `an(entity(x), quantification=c)` / `the(entity(x))` over an n-element domain, and
the real constraint constructors. Observation: (yielded values, exception class) — exactly what the property
talks about."""
from __future__ import annotations

from core import Case

PID = "C09"
LEAN_MODULES = ["KrroodVerif.Props.C09"]
THEOREMS = [
    "KrroodVerif.Quant.C09_run_eq_spec",
    "KrroodVerif.Quant.C09_mk_wf",
    "KrroodVerif.Quant.C09_ctor_rejects",
    "KrroodVerif.Quant.C09_never_exceeds_upper",
    "KrroodVerif.Quant.C09_all_iff_satisfies",
    "KrroodVerif.Quant.C09_the",
]
MODEL_FUNCTION = "Quant.run / Quant.assertSat / Quant.mkSingle / Quant.mkRange / Quant.theRun (Model/Quantifier.lean)"
TRUSTED = [
    "Lean 4.33 kernel; axioms of each theorem listed under coverage.theorems",
    "hand-written model Model/Quantifier.lean of result_quantification_constraint.py and ResultQuantifier._evaluate__/The",
    "this correspondence harness (exhaustive grid over the real API) and the S-expression driver",
]
ASSUMPTIONS = [
    "the child query over a plain list domain yields exactly its n elements (that is C01/C02's subject, not C09's)",
    "CPython generator protocol: an exception raised inside the generator surfaces at the next() that triggers it",
]
RULE = ("exhaustive grid: every constraint kind x bounds 0..B x n 0..N through the real an()/the() API, every "
        "constructor on -3..B, plus random larger values; non-trivial = the constraint is present and n is within "
        "2 of one of its bounds (the region where outcomes change); distinct by case text")
EXHAUSTIVE = True


def extra_obligations():
    """Regenerate the Lean transcription of the assert_satisfaction / __post_init__ bodies from /repo's CURRENT source
    and have the kernel re-check that it equals the hand-written model (a second, translator-based tie)."""
    import re
    import subprocess
    import core
    sys_path_repo = core.REPO
    names = ["KrroodVerif.Quant.Translated.C09_assert_translated_eq_model",
             "KrroodVerif.Quant.Translated.C09_post_init_translated_eq_model"]
    from translate.c09_translate import generate as gen, TranslationError
    try:
        text = gen(sys_path_repo)
    except (TranslationError, SyntaxError, OSError) as e:
        return [{"name": n, "ok": False, "detail": f"translator rejected the source: {e}"} for n in names]
    tmp = core.LEAN_DIR / ".lake" / "audit"
    tmp.mkdir(parents=True, exist_ok=True)
    f = tmp / f"C09Translated_{__import__('os').getpid()}.lean"
    f.write_text(text + "".join(f"#print axioms {n}\n" for n in names))
    try:
        p = subprocess.run(["lake", "env", "lean", str(f)], cwd=str(core.LEAN_DIR), capture_output=True, text=True, timeout=600)
    finally:
        try:
            f.unlink()
        except OSError:
            pass
    out = " ".join(((p.stdout or "") + (p.stderr or "")).split())
    res = []
    for n in names:
        m = re.search(r"'" + re.escape(n) + r"' depends on axioms: \[([^\]]*)\]", out)
        none = re.search(r"'" + re.escape(n) + r"' does not depend on any axioms", out)
        ax = [a.strip() for a in m.group(1).split(",")] if m else ([] if none else None)
        ok = p.returncode == 0 and ax is not None and set(ax) <= core.ALLOWED_AXIOMS
        res.append({"name": n, "ok": ok, "axioms": ax, "detail": (p.stdout or "")[-2000:] + (p.stderr or "")[-1000:]})
    return res


def budget(tier: str) -> int:
    return 200 if tier == "quick" else 3000


def generate(rng, tier, n):
    B, N = (6, 8) if tier == "quick" else (12, 15)
    cases = []
    for k in range(N + 1):
        cases.append(Case(f"(run (none) {k})", ("run", "none"), "exhaustive"))
        cases.append(Case(f"(the {k})", ("the",), "exhaustive"))
    for kind in ("exactly", "atLeast", "atMost"):
        for v in range(B + 1):
            for k in range(N + 1):
                cases.append(Case(f"(run ({kind} {v}) {k})", ("run", kind), "exhaustive"))
        for v in range(-3, B + 1):
            cases.append(Case(f"(mk {kind} {v})", ("mk", kind), "exhaustive"))
    for a in range(-2, B + 1):
        for b in range(-2, B + 1):
            cases.append(Case(f"(mkrange {a} {b})", ("mkrange",), "exhaustive"))
            if 0 <= a <= b:
                for k in range(N + 1):
                    cases.append(Case(f"(run (range {a} {b}) {k})", ("run", "range"), "exhaustive"))
    # histories: ONE query object evaluated several times, earlier iterators left suspended (kept alive)
    for _ in range(max(40, n // 2)):
        kind = rng.choice(["exactly", "atLeast", "atMost", "range"])
        v = rng.randrange(0, 5)
        c = f"(range {v} {v + rng.randrange(0, 3)})" if kind == "range" else f"({kind} {v})"
        nn = max(0, v + rng.randrange(-2, 3))
        ks = [rng.choice([-1, 0, 1, 1, 2, 3]) for _ in range(rng.randrange(2, 5))]
        cases.append(Case(f"(hist {c} {nn} {' '.join(map(str, ks))})", ("hist", kind), "random"))
    for _ in range(n):
        kind = rng.choice(["exactly", "atLeast", "atMost", "range"])
        v = rng.randrange(0, 60)
        k = max(0, v + rng.randrange(-3, 4))
        if kind == "range":
            w = v + rng.randrange(0, 5)
            k = rng.choice([max(0, v - 1), v, w, w + 1, w + 2])
            cases.append(Case(f"(run (range {v} {w}) {k})", ("run", "range", "large"), "random"))
        else:
            cases.append(Case(f"(run ({kind} {v}) {k})", ("run", kind, "large"), "random"))
    return cases


def nontrivial(case: Case, spec: str) -> bool:
    import re
    nums = [int(x) for x in re.findall(r"-?\d+", case.line)]
    if case.line.startswith("(run (none)"):
        return False
    if case.line.startswith("(hist"):
        return True
    if case.line.startswith("(run"):
        *bounds, n = nums
        return any(abs(n - b) <= 2 for b in bounds)
    return True


# ---------------------------------------------------------------------------------------------- real code

def _parse(line: str):
    toks = line.replace("(", " ( ").replace(")", " ) ").split()
    def rd(i):
        if toks[i] == "(":
            out = []; i += 1
            while toks[i] != ")":
                x, i = rd(i); out.append(x)
            return out, i + 1
        return toks[i], i + 1
    return rd(0)[0]


def _exc_name(e: BaseException) -> str:
    from krrood.entity_query_language import failures as F
    table = [
        (F.NegativeQuantificationError, "negative"),
        (F.QuantificationConsistencyError, "inconsistent"),
        (F.NoSolutionFound, "noSolution"),
        (F.MultipleSolutionFound, "multipleSolutions"),
        (F.GreaterThanExpectedNumberOfSolutions, "greater"),
        (F.LessThanExpectedNumberOfSolutions, "less"),
    ]
    for cls, name in table:
        if type(e) is cls:
            return name
    for cls, name in table:
        if isinstance(e, cls):
            return name
    return "exc:" + type(e).__name__


def _mk(c):
    from krrood.entity_query_language.result_quantification_constraint import Exactly, AtLeast, AtMost, Range
    if c[0] == "none":
        return None
    if c[0] == "exactly":
        return Exactly(int(c[1]))
    if c[0] == "atLeast":
        return AtLeast(int(c[1]))
    if c[0] == "atMost":
        return AtMost(int(c[1]))
    if c[0] == "range":
        return Range(AtLeast(int(c[1])), AtMost(int(c[2])))
    raise ValueError(c)


def _show_constraint(c) -> str:
    from krrood.entity_query_language.result_quantification_constraint import Exactly, AtLeast, AtMost, Range
    if type(c) is Exactly:
        return f"exactly {c.value}"
    if type(c) is AtLeast:
        return f"atLeast {c.value}"
    if type(c) is AtMost:
        return f"atMost {c.value}"
    if type(c) is Range:
        return f"range {c.at_least.value} {c.at_most.value}"
    return "?"


class _Item:
    """domain elements: plain truthy objects carrying their index (ints would make 0 falsy: that is C01's F-C01-3)"""
    __slots__ = ("i",)
    def __init__(self, i): self.i = i


def _one(case: Case) -> str:
    from krrood.entity_query_language.entity import let, entity
    from krrood.entity_query_language.quantify_entity import an, the
    s = _parse(case.line)
    try:
        if s[0] == "mk":
            return "ok " + _show_constraint(_mk([s[1], s[2]]))
        if s[0] == "mkrange":
            return "ok " + _show_constraint(_mk(["range", s[1], s[2]]))
        if s[0] == "the":
            n = int(s[1])
            x = let(_Item, [_Item(i) for i in range(n)])
            r = the(entity(x)).evaluate()
            return f"value {r.i}"
        if s[0] == "hist":
            c = _mk(s[1])
            n = int(s[2])
            x = let(_Item, [_Item(i) for i in range(n)])
            q = an(entity(x), quantification=c) if c is not None else an(entity(x))
            alive, outs = [], []
            for k in (int(t) for t in s[3:]):
                it = iter(q.evaluate())
                alive.append(it)          # earlier evaluations stay suspended
                got, seen = [], "open"
                try:
                    while k < 0 or len(got) < k:
                        got.append(next(it).i)
                except StopIteration:
                    seen = "ok"
                except Exception as e:  # noqa: BLE001
                    seen = _exc_name(e)
                outs.append("[" + ",".join(map(str, got)) + "] " + seen)
            return " ; ".join(outs)
        if s[0] == "run":
            c = _mk(s[1])
            n = int(s[2])
            if int(case.key()[:4], 16) % 3 == 0:
                # the same quantifier over an entity DESCRIBED BY A MATCH PATTERN (entity_matching(T, domain)):
                # the constraint must reach the quantifier whichever way the entity is described
                from krrood.entity_query_language.match import entity_matching
                m = entity_matching(_Item, [_Item(i) for i in range(n)])
                q = an(m, quantification=c) if c is not None else an(m)
            else:
                x = let(_Item, [_Item(i) for i in range(n)])
                q = an(entity(x), quantification=c) if c is not None else an(entity(x))
            got = []
            try:
                for r in q.evaluate():
                    got.append(r.i)
                out = "ok"
            except Exception as e:  # noqa: BLE001
                out = _exc_name(e)
            return "[" + ",".join(map(str, got)) + "] " + out
    except Exception as e:  # noqa: BLE001
        return _exc_name(e)
    return "bad-case"


def run_impl(cases):
    return [_one(c) for c in cases]
