"""C09 — result quantifiers enforce exactly the stated solution count.

Implementation side: the real `an(entity(x), quantification=c)` / `the(entity(x))` over an n-element domain, and
the real constraint constructors. Observation: (yielded values, exception class) — exactly what the property
talks about."""
from __future__ import annotations

from core import Case

PID = "C09"
LEAN_MODULES = ["KrroodVerif.Props.C09", "KrroodVerif.Props.C09Lazy", "KrroodVerif.Props.C09Shape", "KrroodVerif.Props.C09Sched"]
THEOREMS = [
    "KrroodVerif.Quant.C09_run_eq_spec",
    "KrroodVerif.Quant.C09_mk_wf",
    "KrroodVerif.Quant.C09_ctor_rejects",
    "KrroodVerif.Quant.C09_never_exceeds_upper",
    "KrroodVerif.Quant.C09_all_iff_satisfies",
    "KrroodVerif.Quant.C09_the",
    "KrroodVerif.Quant.C09_value_blind",
    "KrroodVerif.Quant.C09_the_value_blind",
    "KrroodVerif.Quant.C09_history_independent",
    "KrroodVerif.Quant.C09_consumed",
    "KrroodVerif.Quant.C09_consumed_upper",
    "KrroodVerif.Quant.C09_interleaving_independent",
    "KrroodVerif.Quant.C09_shape_is_model",
    "KrroodVerif.Quant.C09_shape_ok_eq_run",
    "KrroodVerif.Quant.C09_shape_ok_eq_spec",
    "KrroodVerif.Quant.C09_shape_ok_consumed",
    "KrroodVerif.Quant.C09_shape_ok_the",
    "KrroodVerif.Quant.C09_shape_the_is_model",
    "KrroodVerif.Quant.C09_shape_ok_sched",
]
MODEL_FUNCTION = ("Quant.run / Quant.assertSat / Quant.mkSingle / Quant.mkRange / Quant.theRun (Model/Quantifier.lean); "
                  "Quant.interpLoop / interpThe / interpSched over the regenerated LoopShape (Model/QuantShape.lean)")
TRUSTED = [
    "Lean 4.33 kernel; axioms of each theorem listed under coverage.theorems",
    "hand-written model Model/Quantifier.lean of result_quantification_constraint.py and ResultQuantifier._evaluate__/The",
    "this correspondence harness (exhaustive grid over the real API) and the S-expression driver",
    "the two translators harness/translate/c09_translate.py (constraint classes) and c09_loop_translate.py (counting loop "
    "-> LoopShape): strict (unrecognised statements are rejected), their reading of the recognised statements and the "
    "interpreter Model/QuantShape.lean of a LoopShape are trusted (interpSched reproduces, by `decide`, what the real code "
    "showed under the seeded changes C03-m2 and C09-m1: Props/C09Sched.lean)",
]
ASSUMPTIONS = [
    "the child query yields exactly its n solutions (that is C01/C02's subject, not C09's); the model is parametric in the "
    "solutions' type, i.e. never inspects a value (falsy solutions count like any other)",
    "CPython generator protocol: an exception raised inside the generator surfaces at the next() that triggers it",
]
RULE = ("exhaustive grid: every constraint kind x bounds 0..B x n 0..N through the real an()/the() API, every "
        "constructor on -3..B, plus random larger values; the same grid over solutions that are falsy Python values "
        "(__bool__/__len__ objects, the int 0) bound by a condition; evaluation histories of one query object (partial "
        "consumption, retries after a too-many-solutions failure; list and one-shot generator domains, with and without a "
        "binding condition); non-trivial = the constraint is present and n is within "
        "2 of one of its bounds (the region where outcomes change); distinct by case text")
EXHAUSTIVE = True


def _check_generated(tag: str, text: str, names):
    """compile one generated Lean file; per obligation: does the kernel accept it, and on which axioms"""
    import os
    import re
    import subprocess
    import core
    tmp = core.LEAN_DIR / ".lake" / "audit"
    tmp.mkdir(parents=True, exist_ok=True)
    f = tmp / f"C09{tag}_{os.getpid()}.lean"
    f.write_text(text + "".join(f"#print axioms {n}\n" for n in names))
    try:
        p = subprocess.run(["lake", "env", "lean", str(f)], cwd=str(core.LEAN_DIR), capture_output=True, text=True, timeout=600)
    finally:
        try:
            f.unlink()
        except OSError:
            pass
    raw = (p.stdout or "") + (p.stderr or "")
    out = " ".join(raw.split())
    res = []
    for n in names:
        m = re.search(r"'" + re.escape(n) + r"' depends on axioms: \[([^\]]*)\]", out)
        none = re.search(r"'" + re.escape(n) + r"' does not depend on any axioms", out)
        ax = [a.strip() for a in m.group(1).split(",")] if m else ([] if none else None)
        ok = p.returncode == 0 and ax is not None and set(ax) <= core.ALLOWED_AXIOMS
        res.append({"name": n, "ok": ok, "axioms": ax, "detail": (p.stdout or "")[-2000:] + (p.stderr or "")[-1000:]})
    return res


LOOP_SHAPE = {}


def extra_obligations():
    """Second, translator-based tie. From /repo's CURRENT source regenerate
    (1) the Lean transcription of the assert_satisfaction / __post_init__ bodies (result_quantification_constraint.py) and
    (2) the description `LoopShape` of the counting loop that calls them (ResultQuantifier._evaluate__ / evaluate,
        The._evaluate__ / evaluate / default constraint in symbolic.py),
    and have the kernel re-check (1) translated = hand-written model for all arguments, (2) `ShapeOk rawShape` and
    `shape = Quant.shape` by `decide` (Props/C09Shape.lean turns these into statements about all inputs)."""
    import core
    res = []
    from translate.c09_translate import generate as gen, TranslationError
    names = ["KrroodVerif.Quant.Translated.C09_assert_translated_eq_model",
             "KrroodVerif.Quant.Translated.C09_post_init_translated_eq_model"]
    try:
        res += _check_generated("Translated", gen(core.REPO), names)
    except (TranslationError, SyntaxError, OSError) as e:
        res += [{"name": n, "ok": False, "detail": f"translator rejected the source: {e}"} for n in names]
    from translate import c09_loop_translate as lt
    try:
        src = (core.REPO / "src/krrood/entity_query_language/symbolic.py").read_text()
        d = lt.describe(src)
        LOOP_SHAPE.clear(); LOOP_SHAPE.update(d)
        res += _check_generated("Loop", lt.render(d), lt.OBLIGATIONS)
    except (lt.TranslationError, SyntaxError, OSError) as e:
        res += [{"name": n, "ok": False, "detail": f"translator rejected the source: {e}"} for n in lt.OBLIGATIONS]
    for r in res:
        if not r["ok"]:
            d = r.get("detail", "")
            why = d if d.startswith("translator rejected") else "the kernel no longer accepts it"
            print(f"obligation broken: {r['name']} ({why}); searching a concrete failing input through the correspondence")
    return res


def budget(tier: str) -> int:
    return 200 if tier == "quick" else 3000


def generate(rng, tier, n):
    B, N = (6, 8) if tier == "quick" else (12, 15)
    cases = []
    for k in range(N + 1):
        cases.append(Case(f"(run (none) {k})", ("run", "none"), "exhaustive"))
        cases.append(Case(f"(the {k})", ("the",), "exhaustive"))
    for kind in ("exactly", "atLeast", "atMost"):
        for v in range(B + 1):
            for k in range(N + 1):
                cases.append(Case(f"(run ({kind} {v}) {k})", ("run", kind), "exhaustive"))
        for v in range(-3, B + 1):
            cases.append(Case(f"(mk {kind} {v})", ("mk", kind), "exhaustive"))
    for a in range(-2, B + 1):
        for b in range(-2, B + 1):
            cases.append(Case(f"(mkrange {a} {b})", ("mkrange",), "exhaustive"))
            if 0 <= a <= b:
                for k in range(N + 1):
                    cases.append(Case(f"(run (range {a} {b}) {k})", ("run", "range"), "exhaustive"))
    # solutions that are falsy Python values (the count is about solutions, not about their truthiness)
    for pat in ("bool", "len", "int"):
        for k in range(min(N, 5) + 1):
            cases.append(Case(f"(thef {k} {pat})", ("the", "falsy-values"), "exhaustive"))
            cases.append(Case(f"(runf (none) {k} {pat})", ("run", "none", "falsy-values"), "exhaustive"))
            for kind in ("exactly", "atLeast", "atMost"):
                for v in range(0, 5):
                    cases.append(Case(f"(runf ({kind} {v}) {k} {pat})", ("run", kind, "falsy-values"), "exhaustive"))
            for a, b in ((0, 1), (1, 2), (2, 4), (3, 3)):
                cases.append(Case(f"(runf (range {a} {b}) {k} {pat})", ("run", "range", "falsy-values"), "exhaustive"))
    # retried evaluations: an evaluation that failed because of too many solutions is repeated on the same query object
    for kind in ("exactly", "atMost", "range"):
        for v in range(0, 4):
            for extra in (1, 2, 3):
                c = f"(range {max(0, v - 1)} {v})" if kind == "range" else f"({kind} {v})"
                ks = " ".join(["-1"] * (extra + 2))
                cases.append(Case(f"(hist {c} {v + extra} {ks})", ("hist", kind, "retry"), "exhaustive"))
                ks2 = " ".join([str(v + 1)] * (extra + 1) + ["-1"])
                cases.append(Case(f"(hist {c} {v + extra} {ks2})", ("hist", kind, "retry"), "exhaustive"))
                for h, tg in (("histg", ("generator-domain",)), ("histc", ("condition",)), ("histgc", ("generator-domain", "condition"))):
                    cases.append(Case(f"({h} {c} {v + extra} {ks})", ("hist", kind, "retry") + tg, "exhaustive"))
                    cases.append(Case(f"({h} {c} {v + extra} {ks2})", ("hist", kind, "retry") + tg, "exhaustive"))
    # the(...) as an operand of an enclosing query; Symbol-typed list domains (other instances of the type alive elsewhere)
    for k in range(4):
        for k2 in range(4):
            cases.append(Case(f"(nthem {k} {k2})", ("the", "nested-operand", "data-changed"), "exhaustive"))
    for k in range(min(N, 5) + 1):
        cases.append(Case(f"(nthe {k})", ("the", "nested-operand"), "exhaustive"))
        for extra in (0, 2):
            cases.append(Case(f"(runs (none) {k} {extra})", ("run", "none", "symbol-domain"), "exhaustive"))
            for kind in ("exactly", "atLeast", "atMost"):
                for v in range(0, 3):
                    cases.append(Case(f"(runs ({kind} {v}) {k} {extra})", ("run", kind, "symbol-domain"), "exhaustive"))
    # elements taken from a lazily produced domain by a full evaluation (an upper bound stops the evaluation early)
    for kind in ("exactly", "atLeast", "atMost", "range"):
        for v in range(0, 4):
            for k in range(0, 8):
                c = f"(range {max(0, v - 1)} {v})" if kind == "range" else f"({kind} {v})"
                cases.append(Case(f"(pulls {c} {k})", ("pulls", kind), "exhaustive"))
    # interleaved evaluations of one query object (domain cached by an earlier evaluation of another query)
    for _ in range(max(40, n // 2)):
        kind = rng.choice(["exactly", "atLeast", "atMost", "range", "none"])
        v = rng.randrange(0, 4)
        c = "(none)" if kind == "none" else f"(range {v} {v + rng.randrange(0, 3)})" if kind == "range" else f"({kind} {v})"
        nn = max(0, v + rng.randrange(-1, 3))
        js = [rng.randrange(0, 3) for _ in range(rng.randrange(2, 2 * nn + 6))]
        cases.append(Case(f"(histi {c} {nn} {' '.join(map(str, js))})", ("histi", kind), "random"))
    # histories: ONE query object evaluated several times, earlier iterators left suspended (kept alive)
    for _ in range(max(40, n // 2)):
        kind = rng.choice(["exactly", "atLeast", "atMost", "range"])
        v = rng.randrange(0, 5)
        c = f"(range {v} {v + rng.randrange(0, 3)})" if kind == "range" else f"({kind} {v})"
        nn = max(0, v + rng.randrange(-2, 3))
        ks = [rng.choice([-1, 0, 1, 1, 2, 3]) for _ in range(rng.randrange(2, 5))]
        h = rng.choice(["hist", "histg", "histc", "histgc"])
        cases.append(Case(f"({h} {c} {nn} {' '.join(map(str, ks))})", ("hist", kind) + (("generator-domain",) if "g" in h[4:] else ())
                          + (("condition",) if h.endswith("c") else ()), "random"))
    for _ in range(n):
        kind = rng.choice(["exactly", "atLeast", "atMost", "range"])
        v = rng.randrange(0, 60)
        k = max(0, v + rng.randrange(-3, 4))
        if kind == "range":
            w = v + rng.randrange(0, 5)
            k = rng.choice([max(0, v - 1), v, w, w + 1, w + 2])
            cases.append(Case(f"(run (range {v} {w}) {k})", ("run", "range", "large"), "random"))
        else:
            cases.append(Case(f"(run ({kind} {v}) {k})", ("run", kind, "large"), "random"))
    return cases


def nontrivial(case: Case, spec: str) -> bool:
    import re
    nums = [int(x) for x in re.findall(r"-?\d+", case.line)]
    if case.line.startswith("(run (none)"):
        return False
    if case.line.startswith("(hist") or case.line.startswith("(pulls") or case.line.startswith("(nthe"):
        return True
    if case.line.startswith("(runs (none)"):
        return False
    if case.line.startswith("(runs"):
        *bounds, n, _extra = nums
        return any(abs(n - b) <= 2 for b in bounds)
    if case.line.startswith("(runf (none)"):
        return False
    if case.line.startswith("(runf"):
        *bounds, n = nums
        return any(abs(n - b) <= 2 for b in bounds)
    if case.line.startswith("(run"):
        *bounds, n = nums
        return any(abs(n - b) <= 2 for b in bounds)
    return True


# ---------------------------------------------------------------------------------------------- real code

def _parse(line: str):
    toks = line.replace("(", " ( ").replace(")", " ) ").split()
    def rd(i):
        if toks[i] == "(":
            out = []; i += 1
            while toks[i] != ")":
                x, i = rd(i); out.append(x)
            return out, i + 1
        return toks[i], i + 1
    return rd(0)[0]


def _exc_name(e: BaseException) -> str:
    from krrood.entity_query_language import failures as F
    table = [
        (F.NegativeQuantificationError, "negative"),
        (F.QuantificationConsistencyError, "inconsistent"),
        (F.NoSolutionFound, "noSolution"),
        (F.MultipleSolutionFound, "multipleSolutions"),
        (F.GreaterThanExpectedNumberOfSolutions, "greater"),
        (F.LessThanExpectedNumberOfSolutions, "less"),
    ]
    for cls, name in table:
        if type(e) is cls:
            return name
    for cls, name in table:
        if isinstance(e, cls):
            return name
    return "exc:" + type(e).__name__


def _mk(c):
    from krrood.entity_query_language.result_quantification_constraint import Exactly, AtLeast, AtMost, Range
    if c[0] == "none":
        return None
    if c[0] == "exactly":
        return Exactly(int(c[1]))
    if c[0] == "atLeast":
        return AtLeast(int(c[1]))
    if c[0] == "atMost":
        return AtMost(int(c[1]))
    if c[0] == "range":
        return Range(AtLeast(int(c[1])), AtMost(int(c[2])))
    raise ValueError(c)


def _show_constraint(c) -> str:
    from krrood.entity_query_language.result_quantification_constraint import Exactly, AtLeast, AtMost, Range
    if type(c) is Exactly:
        return f"exactly {c.value}"
    if type(c) is AtLeast:
        return f"atLeast {c.value}"
    if type(c) is AtMost:
        return f"atMost {c.value}"
    if type(c) is Range:
        return f"range {c.at_least.value} {c.at_most.value}"
    return "?"


class _Item:
    """domain elements: plain truthy objects carrying their index (ints would make 0 falsy; a falsy BOUND operand was
    C01's F-C01-3, repaired since - falsy solutions are exercised separately by the `runf` / `thef` cases)"""
    __slots__ = ("i",)
    def __init__(self, i): self.i = i


class _TagItem(_Item):
    """domain elements with a mutable attribute the sub-query's condition reads"""
    __slots__ = ("tag",)
    def __init__(self, i): self.i = i; self.tag = 0


class _Done:
    """an evaluation that has ended (by StopIteration or by an error): every further next() is 'stop'"""
    _done = True
    def __iter__(self): return self
    def __next__(self): raise StopIteration


_SYMBOL_ITEM = []


def _symbol_item_class():
    if not _SYMBOL_ITEM:
        from dataclasses import dataclass
        from krrood.entity_query_language.predicate import Symbol

        @dataclass(eq=False)
        class C09SymbolItem(Symbol):
            i: int
        _SYMBOL_ITEM.append(C09SymbolItem)
    return _SYMBOL_ITEM[0]


class _BoolItem(_Item):
    """user objects that define their own truthiness: every even element is falsy"""
    __slots__ = ()
    def __bool__(self): return self.i % 2 == 1


class _LenItem(_Item):
    """container-like user objects: element i has length i % 3 (every third element is empty, hence falsy)"""
    __slots__ = ()
    def __len__(self): return self.i % 3


def _falsy_query(pat: str, n: int):
    """(described entity, projection to the element's index): the selected variable is BOUND by a condition that every
    element satisfies, so all n elements are solutions — some of them falsy values"""
    from krrood.entity_query_language.entity import let, entity
    if pat == "int":
        x = let(int, list(range(n)))
        return entity(x, x >= 0), (lambda r: r)
    cls = _BoolItem if pat == "bool" else _LenItem
    x = let(cls, [cls(i) for i in range(n)])
    return entity(x, x.i >= 0), (lambda r: r.i)


def _one(case: Case) -> str:
    from krrood.entity_query_language.entity import let, entity
    from krrood.entity_query_language.quantify_entity import an, the
    s = _parse(case.line)
    try:
        if s[0] == "nthe":
            # the(...) used as an operand: the enclosing query evaluates it through its parent, not through The.evaluate()
            n = int(s[1])
            outer = [_Item(i) for i in range(3)]
            inner = [_Item(i) for i in range(n)]
            x = let(_Item, outer)
            y = let(_Item, inner)
            got = [r.i for r in an(entity(x, x.i == the(entity(y, y.i >= 0)).i)).evaluate()]
            return f"value {got[0]}" if len(got) == 1 else f"rows {got}"
        if s[0] == "nthem":
            # the(...) as an operand, the enclosing query evaluated TWICE; between the evaluations the data change so that
            # the sub-query has n1, then n2 solutions: every evaluation enforces the count there is when it runs
            n1, n2 = int(s[1]), int(s[2])
            outer = [_Item(i) for i in range(3)]
            inner = [_TagItem(i) for i in range(max(n1, n2, 1))]
            x = let(_Item, outer)
            y = let(_TagItem, inner)
            q = an(entity(x, x.i == the(entity(y, y.tag == 1)).i))
            outs = []
            for n in (n1, n2):
                for j, it in enumerate(inner):
                    it.tag = 1 if j < n else 0
                try:
                    got = [r.i for r in q.evaluate()]
                    outs.append(f"value {got[0]}" if len(got) == 1 else f"rows {got}")
                except Exception as ex:  # noqa: BLE001
                    outs.append(_exc_name(ex))
            return " ; ".join(outs)
        if s[0] == "runs":
            c = _mk(s[1])
            n, extra = int(s[2]), int(s[3])
            cls = _symbol_item_class()
            elsewhere = [cls(100 + i) for i in range(extra)]      # alive, NOT in the domain
            x = let(cls, [cls(i) for i in range(n)])
            q = an(entity(x), quantification=c) if c is not None else an(entity(x))
            got = []
            try:
                for r in q.evaluate():
                    got.append(r.i)
                out = "ok"
            except Exception as ex:  # noqa: BLE001
                out = _exc_name(ex)
            del elsewhere
            return "[" + ",".join(map(str, got)) + "] " + out
        if s[0] == "pulls":
            c = _mk(s[1])
            n = int(s[2])
            pulled = [0]
            def gen():
                for i in range(n):
                    pulled[0] += 1
                    yield _Item(i)
            x = let(_Item, gen())
            q = an(entity(x, x.i >= 0), quantification=c) if c is not None else an(entity(x, x.i >= 0))
            try:
                for _r in q.evaluate():
                    pass
            except Exception:  # noqa: BLE001
                pass
            return str(pulled[0])
        if s[0] == "histi":
            c = _mk(s[1])
            n = int(s[2])
            x = let(_Item, [_Item(i) for i in range(n)])
            list(an(entity(x, x.i >= 0)).evaluate())        # another query over x: the domain is now fully cached
            q = an(entity(x, x.i >= 0), quantification=c) if c is not None else an(entity(x, x.i >= 0))
            its, outs = {}, []
            for j in (int(t) for t in s[3:]):
                if j not in its:
                    its[j] = iter(q.evaluate())
                try:
                    outs.append(f"{j}:{next(its[j]).i}")
                except StopIteration:
                    outs.append(f"{j}:" + ("stop" if its[j] is None or getattr(its[j], "_done", False) else "ok"))
                    its[j] = _Done()
                except Exception as ex:  # noqa: BLE001
                    outs.append(f"{j}:" + _exc_name(ex))
                    its[j] = _Done()
            return " ".join(outs)
        if s[0] == "thef":
            e, proj = _falsy_query(s[2], int(s[1]))
            return f"value {proj(the(e).evaluate())}"
        if s[0] == "runf":
            c = _mk(s[1])
            e, proj = _falsy_query(s[3], int(s[2]))
            q = an(e, quantification=c) if c is not None else an(e)
            got = []
            try:
                for r in q.evaluate():
                    got.append(proj(r))
                out = "ok"
            except Exception as ex:  # noqa: BLE001
                out = _exc_name(ex)
            return "[" + ",".join(map(str, got)) + "] " + out
        if s[0] == "mk":
            return "ok " + _show_constraint(_mk([s[1], s[2]]))
        if s[0] == "mkrange":
            return "ok " + _show_constraint(_mk(["range", s[1], s[2]]))
        if s[0] == "the":
            n = int(s[1])
            x = let(_Item, [_Item(i) for i in range(n)])
            r = the(entity(x)).evaluate()
            return f"value {r.i}"
        if s[0] in ("hist", "histg", "histc", "histgc"):
            c = _mk(s[1])
            n = int(s[2])
            items = [_Item(i) for i in range(n)]
            x = let(_Item, (it for it in items) if "g" in s[0][4:] else items)
            e = entity(x, x.i >= 0) if s[0].endswith("c") else entity(x)
            q = an(e, quantification=c) if c is not None else an(e)
            alive, outs = [], []
            for k in (int(t) for t in s[3:]):
                it = iter(q.evaluate())
                alive.append(it)          # earlier evaluations stay suspended
                got, seen = [], "open"
                try:
                    while k < 0 or len(got) < k:
                        got.append(next(it).i)
                except StopIteration:
                    seen = "ok"
                except Exception as e:  # noqa: BLE001
                    seen = _exc_name(e)
                outs.append("[" + ",".join(map(str, got)) + "] " + seen)
            return " ; ".join(outs)
        if s[0] == "run":
            c = _mk(s[1])
            n = int(s[2])
            if int(case.key()[:4], 16) % 3 == 0:
                # the same quantifier over an entity DESCRIBED BY A MATCH PATTERN (entity_matching(T, domain)):
                # the constraint must reach the quantifier whichever way the entity is described
                from krrood.entity_query_language.match import entity_matching
                m = entity_matching(_Item, [_Item(i) for i in range(n)])
                q = an(m, quantification=c) if c is not None else an(m)
            else:
                x = let(_Item, [_Item(i) for i in range(n)])
                q = an(entity(x), quantification=c) if c is not None else an(entity(x))
            got = []
            try:
                for r in q.evaluate():
                    got.append(r.i)
                out = "ok"
            except Exception as e:  # noqa: BLE001
                out = _exc_name(e)
            return "[" + ",".join(map(str, got)) + "] " + out
    except Exception as e:  # noqa: BLE001
        return _exc_name(e)
    return "bad-case"


def run_impl(cases):
    return [_one(c) for c in cases]
