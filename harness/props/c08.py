"""C08 — rule trees follow except-if / else-if / also-if semantics.

Implementation side: a generated *rule program* (nested `with refinement(..) / alternative(..) / next_rule(..)`
blocks, one `Add(views, inference(K_c)(src=x))` per block) is EXECUTED against the real API (`rule.py`,
`conclusion_selector.py`, the `with` machinery of `symbolic.py`) and the query is evaluated once.
Observation = the SET of (class of the inferred instance, element it was constructed from); multiplicity and
order are not part of the property. Since every written branch concludes its own class, "no written branch is
silently ignored" is part of that set: a branch that must fire for some element and never does is a missing row.

Case line (also the Lean driver's input):
  (prog (dom d..) (root (h e..) (c k..) KID..))     KID = (ref|alt|next (h e..) (c k..) KID..)
At the top level of `root`, `(reenter)` (close the `with rule:` block, open `with rule:` again on the same rule) and
`(here)` (the base rule's Add statements stand here instead of first) may stand between the kids: multi-step authoring.
`h` = the domain elements for which the block's condition holds (realised as `in_(x.a, [...])`), `c` = classes
concluded in the block, kids in textual order."""
from __future__ import annotations

import itertools
from dataclasses import dataclass, field

from core import Case

PID = "C08"
LEAN_MODULES = ["KrroodVerif.Props.C08", "KrroodVerif.Props.C08Build", "KrroodVerif.Props.C08Tables"]
THEOREMS = [
    "KrroodVerif.Rdr.C08_build",
    "KrroodVerif.Rdr.C08_build_layout",
    "KrroodVerif.Rdr.C08_end_to_end",
    "KrroodVerif.Rdr.C08_build_authored",
    "KrroodVerif.Rdr.C08_end_to_end_authored_full",
    "KrroodVerif.Rdr.C08_build_authored_at",
    "KrroodVerif.Rdr.C08_eval",
    "KrroodVerif.Rdr.C08_eval_partial",
    "KrroodVerif.Rdr.C08_today_end_to_end",
    "KrroodVerif.Rdr.C08_build_partial",
    "KrroodVerif.Rdr.C08_authoring",
    "KrroodVerif.Rdr.C08_build_partial_authored",
    "KrroodVerif.Rdr.C08_today_end_to_end_authored",
    "KrroodVerif.Rdr.C08_two_variables_conservative",
    "KrroodVerif.Rdr.C08_spec_conservative",
    "KrroodVerif.Rdr.C08_cex_third_alternative",
    "KrroodVerif.Rdr.C08_cex_nested_refinement",
    "KrroodVerif.Rdr.C08_cex_next_same_binding",
    # second tie (tables regenerated from the AST): Props/C08Tables.lean
    "KrroodVerif.Rdr.build_eq_buildWith",
    "KrroodVerif.Rdr.buildA_eq_buildAWith",
    "KrroodVerif.Rdr.evalT_eq_evalWith",
    "KrroodVerif.Rdr.C08_end_to_end_of_tables",
    "KrroodVerif.Rdr.C08_end_to_end_tables",
]
# proof obligations regenerated from /repo's CURRENT source on every run (harness/translate/c08_translate.py)
TRANSLATED = ["KrroodVerif.Rdr.C08_translated_surgery_eq_model", "KrroodVerif.Rdr.C08_translated_selectors_eq_model",
              "KrroodVerif.Rdr.C08_end_to_end_translated"]


def extra_obligations():
    """Second tie: regenerate the surgery table (`rule.refinement`, `rule.alternative_or_next`) and the selector decision
    tables (`ExceptIf` / `Alternative` / `Next`, `update_conclusion`) from /repo's CURRENT source and have the kernel
    re-check that they equal the hand tables `Rdr.surgery` / `Rdr.selectors` — for which `build_eq_buildWith` /
    `evalT_eq_evalWith` prove that the table interpreters ARE the model's builder and evaluator — and `C08_end_to_end`
    restated for the regenerated tables."""
    import os
    import re
    import subprocess
    import core
    from translate.c08_translate import generate_parts
    short = {n.split(".")[-1]: n for n in TRANSLATED}
    try:
        text, errs = generate_parts(core.REPO)
    except Exception as e:  # the translator itself failed: every obligation is open
        return [{"name": n, "ok": False, "detail": f"translator failed: {type(e).__name__}: {e}"} for n in TRANSLATED]
    errs = {short.get(k, k): v for k, v in errs.items()}
    tmp = core.LEAN_DIR / ".lake" / "audit"
    tmp.mkdir(parents=True, exist_ok=True)
    f = tmp / f"C08Translated_{os.getpid()}.lean"
    f.write_text(text + "".join(f"#print axioms {n}\n" for n in TRANSLATED))
    try:
        p = subprocess.run(["lake", "env", "lean", str(f)], cwd=str(core.LEAN_DIR), capture_output=True, text=True, timeout=600)
    finally:
        try:
            f.unlink()
        except OSError:
            pass
    out = " ".join(((p.stdout or "") + (p.stderr or "")).split())
    tables = text[text.find("namespace KrroodVerif.Rdr.Translated"):text.find("end KrroodVerif.Rdr.Translated")]
    res = []
    for n in TRANSLATED:
        if n in errs:
            res.append({"name": n, "ok": False, "axioms": None, "detail": errs[n]})
            continue
        m = re.search(r"'" + re.escape(n) + r"' depends on axioms: \[([^\]]*)\]", out)
        none = re.search(r"'" + re.escape(n) + r"' does not depend on any axioms", out)
        ax = [a.strip() for a in m.group(1).split(",")] if m else ([] if none else None)
        ok = ax is not None and set(ax) <= core.ALLOWED_AXIOMS  # a failed `decide` leaves `sorryAx` in ITS axioms line
        # a table equality that fails is not added to the environment (no axioms line), and the theorem that uses it
        # then fails too: each obligation is judged by its own `#print axioms` line
        res.append({"name": n, "ok": ok, "axioms": ax,
                    "detail": "regenerated tables:\n" + tables + (p.stdout or "")[-1500:] + (p.stderr or "")[-800:]})
    return res

MODEL_FUNCTION = ("Rdr.modelA = Rdr.buildA (authoring schedule: several `with rule:` blocks) / Rdr.model = Rdr.build (BState.step/doRefinement/doAltOrNext) + Rdr.evalT / Rdr.evalK "
                  "(Model/Rule.lean); specification Rdr.fire / Rdr.spec")
TRUSTED = [
    "Lean 4.33 kernel; axioms of each theorem listed under coverage.theorems",
    "hand-written model Model/Rule.lean of rule.py (tree surgery over left/right/_child_ + rx parent pointers + "
    "expression stack + cached conditions root) and conclusion_selector.py (ExceptIf/Alternative/Next, "
    "concluded_before), checked against the code by this correspondence (testing)",
    "this correspondence harness (executes generated nested with-blocks against the real API) and the "
    "S-expression driver",
]
ASSUMPTIONS = [
    "abstraction: one enumerated variable x over a domain of pairwise distinct objects; each branch condition is a "
    "predicate on x (in_(x.a, [...])); each conclusion is Add(views, inference(K_c)(src=x)), one per block",
    "the query is evaluated once per freshly built rule program (re-evaluation is C03's subject)",
    "two rule variables: a block's condition is on x (in_(x.a, [...])) or relates x and y (in_(x, y.r_k)); evaluating the "
    "latter with y unbound enumerates y's domain; conclusions are built from x (K_c(src=x)) or from both "
    "(KY_c(src=x, aux=y), classes >= 1000) and mention y only where y is bound. Not generated, because the code's "
    "else-if is per result while its except-if is per rule and the property text does not say which reading applies: "
    "an alternative written after a member of its chain that introduces y; more than one refinement of one rule "
    "introducing y (only the first written may). Also not generated over two variables (left over from before fix 6d59379, when such a refinement stayed unlinked and a shared condition leaf made the result depend on dict aliasing): a refinement that is not the first branch of the rule's own block followed by an alternative/next_rule in the same block. Theorems cover the y-free fragment (conservative-extension "
    "theorems); two-variable programs are covered by the correspondence only",
    "multi-step authoring is generated at the rule's own level only (several `with rule:` blocks, base Add anywhere "
    "between the branches); branch blocks are written once, conclusions first",
    "programs in which an alternative is written after a next_rule inside one chain are not generated: the property "
    "text does not say whether such an alternative is an else-if of the rule or of everything written so far",
    "CPython set iteration order decides which of two conclusions leaked into one _conclusion_ set binds last "
    "(only reachable through the already broken sharing of a Next node; the model prints both candidates)",
]
RULE = ("corpus; exhaustive: every unambiguous program skeleton with <=3 branches (kinds x nestings x textual "
        "orders, with and without conclusions on the base) over the full truth-table domain (one element per subset "
        "of the conditions), each also written in two `with rule:` blocks with the base conclusion in the second "
        "block; random: programs with nesting <=3, <=4 siblings, <=9 branches, domains of 1-5 "
        "elements and random condition sets, half of them drawn from the class today's surgery builds correctly, "
        "two in five authored in several `with rule:` blocks on the same rule (1-3 re-entries at random points, "
        "base conclusion at a random point), one in three over two rule variables (1-3 values of y in either order, "
        "random relations, conclusions over {x} or {x, y}); "
        "non-trivial = at least one branch and a specification result that is neither empty nor 'every class for "
        "every element'; distinct by case text")

MAXDEPTH, MAXKIDS, MAXSIZE = 3, 4, 9
NCLASSES = 64


def budget(tier: str) -> int:
    return 6000 if tier == "quick" else 60000


# ---------------------------------------------------------------------------------------------- programs

@dataclass
class Block:
    kind: str  # root | ref | alt | next
    holds: list
    concl: list
    kids: list
    # root only — multi-step authoring: (position, marker) pairs, marker "reenter" (the `with rule:` block is closed
    # and `with rule:` is opened again) or "here" (the base rule's Add statements stand here; default: first);
    # a marker at position i stands before kid i (i == len(kids): after the last kid)
    marks: list = field(default_factory=list)
    # two rule variables: `rel` = the (x, y) pairs for which the block's condition `in_(x, y.r)` holds (None: the
    # condition is `holds`, on x alone); `domy` (root only) = the domain of y (None: the program never mentions y)
    rel: list = None
    domy: list = None

    def size(self) -> int:
        return 1 + sum(k.size() for k in self.kids)

    def depth(self) -> int:
        return 1 + max((k.depth() for k in self.kids), default=0)

    def show(self) -> str:
        if self.rel is None:
            cnd = "(h" + "".join(f" {e}" for e in self.holds) + ")"
        else:
            cnd = "(r" + "".join(f" ({a} {b})" for a, b in self.rel) + ")"
        s = f"({self.kind} {cnd} (c" + "".join(f" {c}" for c in self.concl) + ")"
        for tok in self.tokens():
            s += " " + (tok.show() if isinstance(tok, Block) else f"({tok})")
        return s + ")"

    def tokens(self):
        """kids interleaved with the authoring markers, in the order written"""
        out = []
        for i in range(len(self.kids) + 1):
            out.extend(m for pos, m in self.marks if pos == i)
            if i < len(self.kids):
                out.append(self.kids[i])
        return out

    def sessions(self):
        """the top-level tokens split at the `reenter` markers: one list per `with rule:` block"""
        out = [[]]
        for tok in self.tokens():
            if tok == "reenter":
                out.append([])
            else:
                out[-1].append(tok)
        if not any(t == "here" for sess in out for t in sess):
            out[0].insert(0, "here")
        return out

    def copy(self) -> "Block":
        return Block(self.kind, list(self.holds), list(self.concl), [k.copy() for k in self.kids], list(self.marks),
                     None if self.rel is None else list(self.rel), None if self.domy is None else list(self.domy))

    def drop_kid(self, j, replacement=()):
        """remove kid j (put `replacement` in its place), keeping the markers where they were written"""
        shift = len(replacement) - 1
        self.kids[j:j + 1] = list(replacement)
        self.marks = [(pos + shift if pos > j else pos, m) for pos, m in self.marks]

    def walk(self):
        yield self
        for k in self.kids:
            yield from k.walk()


def show_prog(dom, root: Block) -> str:
    domy = "" if root.domy is None else "(domy" + "".join(f" {e}" for e in root.domy) + ") "
    return "(prog (dom" + "".join(f" {d}" for d in dom) + ") " + domy + root.show() + ")"


def _tokens(line: str):
    return line.replace("(", " ( ").replace(")", " ) ").split()


def _read(toks, i):
    if toks[i] == "(":
        out = []
        i += 1
        while toks[i] != ")":
            x, i = _read(toks, i)
            out.append(x)
        return out, i + 1
    return toks[i], i + 1


def parse_prog(line: str):
    s = _read(_tokens(line), 0)[0]
    assert s[0] == "prog" and s[1][0] == "dom"
    dom = [int(x) for x in s[1][1:]]

    def blk(b):
        assert b[1][0] in ("h", "r") and b[2][0] == "c"
        if b[1][0] == "h":
            out = Block(b[0], [int(x) for x in b[1][1:]], [int(x) for x in b[2][1:]], [])
        else:
            out = Block(b[0], [], [int(x) for x in b[2][1:]], [], rel=[(int(u), int(v)) for u, v in b[1][1:]])
        for item in b[3:]:
            if item in (["reenter"], ["here"]):
                assert b[0] == "root"
                out.marks.append((len(out.kids), item[0]))
            else:
                out.kids.append(blk(item))
        return out

    if s[2][0] == "domy":
        root = blk(s[3])
        root.domy = [int(x) for x in s[2][1:]]
        return dom, root
    return dom, blk(s[2])


YCLASS = 1000  # classes numbered >= YCLASS are constructed from x and y (Rdr.classUsesY)


def y_context(root: Block):
    """per block (by id): is y bound in the bindings its condition is evaluated from? A refinement sees what its rule
    binds; an alternative / next_rule is evaluated from the bindings its rule was evaluated from"""
    ctx = {}

    def go(b, c):
        ctx[id(b)] = c
        for k in b.kids:
            go(k, (c or b.rel is not None) if k.kind == "ref" else c)

    go(root, False)
    return ctx


def well_scoped(root: Block) -> bool:
    """the two-variable programs that are generated: (a) a conclusion mentions y only where y is bound; (b) in one
    chain no alternative is written after a member whose condition introduces y — the code's else-if is per result
    (it would run for every y that fails), its except-if is per rule (any y that holds): the property text does not
    say which reading an alternative after such a member has"""
    ctx = y_context(root)
    ok = [True]
    for b in root.walk():
        if any(c >= YCLASS for c in b.concl) and not (ctx[id(b)] or b.rel is not None):
            ok[0] = False

    def scope(n):
        introduced = [n.rel is not None and not ctx[id(n)]]

        def walk(b):
            for k in b.kids:
                if k.kind == "ref":
                    scope(k)
                else:
                    if k.kind == "alt" and introduced[0]:
                        ok[0] = False
                    if k.kind == "alt" and k.rel is not None and not ctx[id(k)]:
                        introduced[0] = True
                    walk(k)

        walk(n)

    scope(root)
    # (d) no orphaned refinement that a later alternative/next_rule of the same block re-attaches: today's surgery
    # then shares the *condition leaf* between two parents; re-evaluated with its id already in the bindings it hands
    # back the caller's dict object, which the query descriptor has meanwhile extended by `views` — with several
    # results per x that aliasing changes the keys of concluded_before (not modelled)
    if any(b.rel is not None for b in root.walk()):
        for b in root.walk():
            orphan = False
            for i, k in enumerate(b.kids):
                if k.kind == "ref":
                    orphan = orphan or not (b is root and i == 0)
                elif orphan:
                    ok[0] = False
    # (c) of several refinements of one rule only the first written may introduce y: the repaired surgery nests them
    # (last written innermost, evaluated first), so a y bound by a later one would reach the earlier ones
    for b in root.walk():
        refs = [k for k in b.kids if k.kind == "ref"]
        if not (ctx[id(b)] or b.rel is not None):
            for k in refs[1:]:
                if any(d.rel is not None for d in k.walk()):
                    ok[0] = False
    return ok[0]


def unambiguous(root: Block) -> bool:
    """inside one chain scope no alternative is written after a next_rule (Rdr.Prog.unambiguous)"""
    ok = [True]

    def go(b, scope):
        for k in b.kids:
            if k.kind == "ref":
                go(k, [False])
            elif k.kind == "alt":
                if scope[0]:
                    ok[0] = False
                go(k, scope)
            else:
                scope[0] = True
                go(k, scope)

    go(root, [False])
    return ok[0]


def _trig_ref(root: Block) -> bool:
    """python copy of Rdr.Prog.trigRef, used ONLY to steer generation (verdicts use the Lean driver's trig=)"""
    bad = [False]

    def go(b, is_root):
        for i, k in enumerate(b.kids):
            if k.kind == "ref" and not (is_root and i == 0):
                bad[0] = True
            go(k, False)

    go(root, True)
    return bad[0]


def _trig_climb(root: Block) -> bool:
    """python copy of Rdr.Prog.trigClimb, used ONLY to steer generation"""
    bad = [False]

    def scope(n, m0):
        ops = []

        def walk(b, idx):
            for k in b.kids:
                if k.kind == "ref":
                    scope(k, 0)
                else:
                    ops.append(idx)
                    walk(k, len(ops))

        walk(n, 0)
        for i, w in enumerate(ops, 1):
            if (w == 0 and m0 + i - 1 >= 2) or (w != 0 and w < i - 1):
                bad[0] = True

    scope(root, 1 if (root.kids and root.kids[0].kind == "ref") else 0)
    return bad[0]


# ---------------------------------------------------------------------------------------------- generation

def _gen_block(rng, kind, depth, counter, dom, scope, p_hold, small):
    holds = [d for d in dom if rng.random() < p_hold]
    concl = []
    if rng.random() < 0.88:
        concl = [counter[0]]
        counter[0] += 1
    b = Block(kind, holds, concl, [])
    if depth < MAXDEPTH:
        if small:
            nk = rng.choice([0, 0, 1, 1, 2]) if depth == 0 else rng.choice([0, 0, 0, 1])
        else:
            nk = rng.choice([0, 1, 1, 2, 2, 3, 3, 4]) if depth == 0 else rng.choice([0, 0, 0, 1, 1, 2, 3])
        for _ in range(min(nk, MAXKIDS)):
            k = rng.choice(["ref", "alt", "alt", "next"])
            if k == "alt" and scope[0]:
                k = rng.choice(["ref", "next"])
            if k == "ref":
                b.kids.append(_gen_block(rng, k, depth + 1, counter, dom, [False], p_hold, small))
            else:
                if k == "next":
                    scope[0] = True
                b.kids.append(_gen_block(rng, k, depth + 1, counter, dom, scope, p_hold, small))
    return b


MAXCHAIN = 5  # alternative/next_rule branches per chain: today's surgery shares a node per extra branch written in
# one block, and both the engine and the model then evaluate it twice per level (2^k; 8 next_rules: 100 s)


def _longest_chain(root: Block) -> int:
    best = [0]

    def scope(n):
        cnt = [0]

        def walk(b):
            for k in b.kids:
                if k.kind == "ref":
                    scope(k)
                else:
                    cnt[0] += 1
                    walk(k)

        walk(n)
        best[0] = max(best[0], cnt[0])

    scope(root)
    return best[0]


def _gen_clean_scope(rng, node: Block, depth, m0, counter, dom, p_hold):
    """branches of one chain scope, placed where one climb step of today's surgery suffices (not Prog.trigClimb):
    the first in the scope rule's block, the second there too (only when nothing is above the rule yet) or in the
    first branch's block, every later one in the block of the branch just before it; alternatives before nexts"""
    k = rng.choice([0, 1, 1, 2, 2, 3])
    kinds = sorted((rng.choice(["alt", "alt", "next"]) for _ in range(k)), key=lambda z: z != "alt")
    blocks = [node]
    depths = [depth]
    for i, kd in enumerate(kinds, 1):
        if i == 1:
            w = 0
        elif i == 2 and m0 == 0 and rng.random() < 0.5:
            w = 0
        else:
            w = i - 1
        if depths[w] + 1 > MAXDEPTH:
            break
        concl = []
        if rng.random() < 0.9:
            concl = [counter[0]]
            counter[0] += 1
        b = Block(kd, [d for d in dom if rng.random() < p_hold], concl, [])
        blocks[w].kids.append(b)
        blocks.append(b)
        depths.append(depths[w] + 1)


def _gen_prog(rng, clean: bool):
    n = rng.choice([1, 2, 3, 4, 5, 5, 5])
    dom = list(range(n))
    p_hold = rng.choice([0.3, 0.55, 0.55, 0.8])
    if clean:
        counter = [0]
        root = Block("root", [d for d in dom if rng.random() < max(p_hold, 0.55)], [], [])
        if rng.random() < 0.85:
            root.concl = [counter[0]]
            counter[0] += 1
        m0 = 0
        if rng.random() < 0.5:
            concl = []
            if rng.random() < 0.9:
                concl = [counter[0]]
                counter[0] += 1
            r = Block("ref", [d for d in dom if rng.random() < p_hold], concl, [])
            root.kids.append(r)
            _gen_clean_scope(rng, r, 1, 0, counter, dom, p_hold)
            m0 = 1
        _gen_clean_scope(rng, root, 0, m0, counter, dom, p_hold)
        assert not _trig_ref(root) and not _trig_climb(root)
        return dom, root
    while True:
        root = _gen_block(rng, "root", 0, [0], dom, [False], p_hold, False)
        if root.size() <= MAXSIZE + 1 and _longest_chain(root) <= MAXCHAIN:
            return dom, root


def _skeletons(nbranches: int):
    """all ordered forests of `nbranches` nodes with a kind per node, as nested lists [(kind, kids)]"""
    def forests(n):
        if n == 0:
            yield []
            return
        for first in range(1, n + 1):  # size of the first tree
            for sub in forests(first - 1):
                for rest in forests(n - first):
                    for k in ("ref", "alt", "next"):
                        yield [(k, sub)] + rest
    yield from forests(nbranches)


def _exhaustive(tier: str):
    out = []
    maxb = 3
    for nb in range(0, maxb + 1):
        for forest in _skeletons(nb):
            for base_concl in ((True, False) if nb <= 2 else (True,)):
                nconds = nb + 1
                dom = list(range(2 ** nconds))
                counter = [0]
                idx = [0]

                def mk(kind, kids):
                    j = idx[0]
                    idx[0] += 1
                    holds = [e for e in dom if (e >> j) & 1]
                    concl = []
                    if kind != "root" or base_concl:
                        concl = [counter[0]]
                        counter[0] += 1
                    b = Block(kind, holds, concl, [])
                    b.kids = [mk(k, ks) for k, ks in kids]
                    return b

                root = mk("root", forest)
                if not unambiguous(root):
                    continue
                out.append(Case(show_prog(dom, root), ("exhaustive", f"branches{nb}"), "exhaustive"))
                if base_concl and root.kids:
                    # the same rule written in two steps: a first `with rule:` block with the first branch, a
                    # second one with the rest; the base conclusion stands in the second block, or at its end
                    for here_pos in (1, len(root.kids)):
                        r2 = root.copy()
                        r2.marks = [(1, "reenter"), (here_pos, "here")]
                        out.append(Case(show_prog(dom, r2), ("exhaustive", f"branches{nb}", "multi-block"),
                                        "exhaustive"))
    return out


def _add_schedule(rng, root: Block):
    """multi-step authoring: close and re-open `with rule:` 1-3 times, base conclusion anywhere"""
    n = len(root.kids)
    marks = [(rng.randrange(0, n + 1), "reenter") for _ in range(rng.choice([1, 1, 2, 3]))]
    if rng.random() < 0.8:
        marks.append((rng.randrange(0, n + 1), "here"))
    rng.shuffle(marks)
    root.marks = sorted(marks, key=lambda pm: pm[0])  # stable: the shuffled order decides ties


def _add_second_variable(rng, dom, root: Block):
    """turn some conditions into relations between x and y and some conclusions into classes built from both
    (a few attempts: the draw may leave every condition on x alone — then the program simply stays one-variable)"""
    for _ in range(8):
        r = root.copy()
        _draw_second_variable(rng, dom, r)
        if any(b.rel is not None for b in r.walk()) and well_scoped(r):
            return r
    return root


def _draw_second_variable(rng, dom, root: Block):
    ny = rng.choice([1, 2, 2, 3, 3])
    domy = list(range(ny))
    if rng.random() < 0.5:
        domy.reverse()
    root.domy = domy
    p_hold = rng.choice([0.3, 0.5, 0.7])
    ctx = {}

    def mk_rel(b):
        b.rel = [(x, y) for x in dom for y in domy if rng.random() < p_hold]
        b.holds = []

    def scope(n, c):
        # members of the chain scope in the order written; only the last chain member (the scope's rule or an
        # alternative with no alternative after it) and next_rules may introduce y
        members = []

        def collect(b):
            for k in b.kids:
                if k.kind != "ref":
                    members.append(k)
                    collect(k)

        collect(n)
        last_alt = max((i for i, m in enumerate(members) if m.kind == "alt"), default=-1)
        may = {id(n): last_alt == -1}
        for i, m in enumerate(members):
            may[id(m)] = m.kind == "next" or i == last_alt
        for b in [n] + members:
            ctx[id(b)] = c
            if rng.random() < (0.45 if (c or may[id(b)]) else 0.0):
                mk_rel(b)
        for b in [n] + members:
            for k in b.kids:
                if k.kind == "ref":
                    scope(k, c or b.rel is not None)

    scope(root, False)
    for b in root.walk():
        if b.concl and (ctx[id(b)] or b.rel is not None) and rng.random() < 0.6:
            b.concl = [c + YCLASS for c in b.concl]


DEEP_MAXDEPTH, DEEP_MAXSIZE, DEEP_MAXCHAIN = 7, 14, 10


def _gen_deep_prog(rng):
    """programs beyond every finite table of the build theorems' old kind — 5-14 branches, nesting up to 7, chains of
    up to 10 alternatives/next_rules — the region `C08_build` (unbounded) now covers: grown by appending a random
    branch to a random block, kept unambiguous; one in four is a single long chain written in one block or nested"""
    n = rng.choice([2, 3, 4, 5])
    dom = list(range(n))
    p_hold = rng.choice([0.3, 0.5, 0.5, 0.7])
    counter = [0]

    def mk(kind):
        concl = []
        if kind == "root" or rng.random() < 0.9:
            concl = [counter[0]]
            counter[0] += 1
        return Block(kind, [d for d in dom if rng.random() < (max(p_hold, 0.5) if kind == "root" else p_hold)], concl, [])

    root = mk("root")
    target = rng.randint(5, DEEP_MAXSIZE)
    if rng.random() < 0.25:
        # one long chain: alternatives then next_rules, each written in the rule's block or in the previous branch
        k = rng.randint(6, DEEP_MAXCHAIN)
        nalt = rng.randint(0, k)
        prev, depth = root, 0
        host = root
        if rng.random() < 0.4:
            host = mk("ref")
            root.kids.append(host)
            prev, depth = host, 1
        for j in range(k):
            b = mk("alt" if j < nalt else "next")
            if depth + 1 <= DEEP_MAXDEPTH and rng.random() < 0.5:
                prev.kids.append(b)
                prev, depth = b, depth + 1
            else:
                (host if rng.random() < 0.5 else prev).kids.append(b)
                if rng.random() < 0.5:
                    prev = b
                    depth = depth + 1 if prev is not host else depth
            if not unambiguous(root) or root.depth() - 1 > DEEP_MAXDEPTH:
                # undo: find and drop b
                for blk in root.walk():
                    if b in blk.kids:
                        blk.kids.remove(b)
                host.kids.append(b)
                prev = b
                if not unambiguous(root):
                    host.kids.remove(b)
        if rng.random() < 0.5:
            for blk in list(root.walk()):
                if blk.kind != "root" and rng.random() < 0.3 and root.depth() - 1 < DEEP_MAXDEPTH:
                    blk.kids.insert(0, mk("ref"))
        return dom, root
    tries = 0
    while root.size() - 1 < target and tries < 200:
        tries += 1
        blocks = list(root.walk())
        host = rng.choice(blocks[-3:] if rng.random() < 0.5 else blocks)  # half of the time: grow deep
        b = mk(rng.choice(["ref", "ref", "alt", "alt", "next"]))
        host.kids.append(b)
        if (not unambiguous(root) or root.depth() - 1 > DEEP_MAXDEPTH or _longest_chain(root) > DEEP_MAXCHAIN):
            host.kids.remove(b)
    return dom, root


def generate(rng, tier, n):
    cases = list(_exhaustive(tier))
    for i in range(max(n // 20, 40)):
        dom, root = _gen_deep_prog(rng)
        assert unambiguous(root)
        multi = i % 3 == 0
        if multi:
            _add_schedule(rng, root)
        kinds = sorted({b.kind for b in root.walk()} - {"root"})
        tags = ("random", "deep-wide", f"size{min(root.size() - 1, 14)}", f"depth{root.depth() - 1}",
                f"chain{_longest_chain(root)}", "kinds:" + "+".join(kinds), f"dom{len(dom)}")
        if multi:
            tags += ("multi-block", f"blocks{len(root.sessions())}")
        cases.append(Case(show_prog(dom, root), tags, "random"))
    for i in range(n):
        clean = i % 2 == 0
        dom, root = _gen_prog(rng, clean)
        assert unambiguous(root)
        multi = i % 5 < 2
        if multi:
            _add_schedule(rng, root)
        twovar = i % 3 == 1
        if twovar:
            root = _add_second_variable(rng, dom, root)
            twovar = root.domy is not None
            assert well_scoped(root), show_prog(dom, root)
        kinds = sorted({b.kind for b in root.walk()} - {"root"})
        tags = ("random", "clean-class" if clean else "general", f"size{min(root.size() - 1, 9)}",
                f"depth{root.depth() - 1}", "kinds:" + "+".join(kinds), f"dom{len(dom)}")
        if multi:
            tags += ("multi-block", f"blocks{len(root.sessions())}")
        if twovar:
            nrel = sum(b.rel is not None for b in root.walk())
            ny = sum(any(c >= YCLASS for c in b.concl) for b in root.walk())
            tags += ("two-variables", f"relations{min(nrel, 4)}", f"xy-conclusions{min(ny, 4)}", f"domy{len(root.domy)}")
        cases.append(Case(show_prog(dom, root), tags, "random"))
    return cases


def nontrivial(case: Case, spec: str) -> bool:
    dom, root = parse_prog(case.line)
    if root.size() < 2:
        return False
    rows = [r for r in spec.strip("[]").split(",") if r]
    nconcl = sum(len(b.concl) for b in root.walk())
    return 0 < len(rows) < nconcl * len(dom)


def shrink(case: Case):
    dom, root = parse_prog(case.line)

    def paths(b, pre=()):
        yield pre
        for i, k in enumerate(b.kids):
            yield from paths(k, pre + (i,))

    def get(b, path):
        for i in path:
            b = b.kids[i]
        return b

    def emit(d, r):
        if r.domy is not None and all(b.rel is None and all(c < YCLASS for c in b.concl) for b in r.walk()):
            r.domy = None
        if unambiguous(r) and well_scoped(r):
            yield Case(show_prog(d, r), ("shrink",), "shrink")

    for path in list(paths(root)):
        if path:
            r = root.copy()
            get(r, path[:-1]).drop_kid(path[-1])
            yield from emit(dom, r)
            r = root.copy()
            par = get(r, path[:-1])
            par.drop_kid(path[-1], par.kids[path[-1]].kids)
            yield from emit(dom, r)
    for i in range(len(root.marks)):
        r = root.copy()
        del r.marks[i]
        yield from emit(dom, r)
    if len(dom) > 1:
        for d in dom:
            r = root.copy()
            for b in r.walk():
                b.holds = [e for e in b.holds if e != d]
                if b.rel is not None:
                    b.rel = [(u, v) for u, v in b.rel if u != d]
            yield from emit([e for e in dom if e != d], r)
    if root.domy is not None and len(root.domy) > 1:
        for d in root.domy:
            r = root.copy()
            r.domy = [e for e in r.domy if e != d]
            for b in r.walk():
                if b.rel is not None:
                    b.rel = [(u, v) for u, v in b.rel if v != d]
            yield from emit(dom, r)
    for path in list(paths(root)):
        b = get(root, path)
        if b.rel is not None:
            for pr in b.rel:
                r = root.copy()
                get(r, path).rel.remove(pr)
                yield from emit(dom, r)
            r = root.copy()  # a relation becomes a condition on x
            bb = get(r, path)
            bb.holds, bb.rel = sorted({u for u, _ in b.rel}), None
            yield from emit(dom, r)
        if any(c >= YCLASS for c in b.concl):
            r = root.copy()
            get(r, path).concl = [c % YCLASS for c in b.concl]
            yield from emit(dom, r)
    for path in list(paths(root)):
        b = get(root, path)
        for e in b.holds:
            r = root.copy()
            get(r, path).holds.remove(e)
            yield from emit(dom, r)
        if b.concl:
            r = root.copy()
            get(r, path).concl = []
            yield from emit(dom, r)


def compare(impl: str, other: str) -> bool:
    """string equality, except that a model row `a|b:x` (or `a:x|b:x.y`) stands for exactly one of its candidates"""
    if "|" not in other:
        return impl == other
    if not (impl.startswith("[") and other.startswith("[")):
        return False
    got = {r for r in impl.strip("[]").split(",") if r}
    base, alts = set(), []
    for r in other.strip("[]").split(","):
        if not r:
            continue
        if "|" in r:
            parts = r.split("|")
            if all(":" in q for q in parts):  # two-variable rows: every candidate carries its own arguments
                alts.append(set(parts))
            else:
                cs, x = r.split(":")
                alts.append({f"{c}:{x}" for c in cs.split("|")})
        else:
            base.add(r)
    if not base <= got:
        return False
    if any(not (a & got) for a in alts):
        return False
    rest = got - base
    return all(any(r in a for a in alts) for r in rest)


# ---------------------------------------------------------------------------------------------- real code

_CLASSES = None
_STATS = {"exceptions": {}, "evaluated": 0, "instances": 0}


NREL = 16  # relation attributes r0..r15 of the second variable's class (one per block whose condition relates x and y)


def _classes():
    """harness-owned classes: the elements of x (P) and of y (Q), the inferred view base class and, per branch, one
    subclass built from x (K_i) and one built from x and y (KY_i)"""
    global _CLASSES
    if _CLASSES is None:
        @dataclass(eq=False)
        class P:
            a: int

        qfields = {"__annotations__": {"b": int, **{f"r{i}": list for i in range(NREL)}}}
        for i in range(NREL):
            qfields[f"r{i}"] = field(default_factory=list)
        Q = dataclass(eq=False)(type("Q", (), qfields))

        @dataclass
        class View:
            src: P

        kls = [dataclass(type(f"K{i}", (View,), {"__annotations__": {}, "_k": i})) for i in range(NCLASSES)]
        kys = [dataclass(type(f"KY{i}", (View,), {"__annotations__": {"aux": Q}, "_k": YCLASS + i}))
               for i in range(NCLASSES)]
        _CLASSES = (P, Q, View, kls, kys)
    return _CLASSES


def _one(case: Case) -> str:
    from krrood.entity_query_language.conclusion import Add
    from krrood.entity_query_language.entity import let, entity, inference, in_
    from krrood.entity_query_language.quantify_entity import an
    from krrood.entity_query_language.rule import refinement, alternative, next_rule
    from krrood.entity_query_language.symbolic import SymbolicExpression

    P, Q, View, kls, kys = _classes()
    try:
        dom, root = parse_prog(case.line)
        objs = {d: P(100 + d) for d in dom}
        back = {id(o): d for d, o in objs.items()}
        x = let(P, [objs[d] for d in dom], name="x")
        views = inference(View)()
        y, backy = None, {}
        relattr = {}
        if root.domy is not None:
            qobjs = {e: Q(200 + e) for e in root.domy}
            backy = {id(o): e for e, o in qobjs.items()}
            for b in root.walk():
                if b.rel is not None:
                    if len(relattr) >= NREL:
                        return "bad-case"
                    name = relattr[id(b)] = f"r{len(relattr)}"
                    for e, o in qobjs.items():
                        setattr(o, name, [objs[u] for u, v in b.rel if v == e and u in objs])
            if root.domy:
                y = let(Q, [qobjs[e] for e in root.domy], name="y")

        def cond(b: Block):
            if b.rel is not None:
                # `x in y.r`: holds for the pairs of b.rel; with y unbound the engine enumerates y's domain
                return in_(x, getattr(y, relattr[id(b)]))
            # -1 keeps the container non-empty; attribute values are >= 100 (never falsy: F-C01-3 is not C08's subject)
            return in_(x.a, [-1] + [100 + e for e in b.holds])

        def add(c):
            if c >= YCLASS:
                Add(views, inference(kys[c - YCLASS])(src=x, aux=y))
            else:
                Add(views, inference(kls[c])(src=x))

        query = an(entity(views, cond(root)))
        fn = {"ref": refinement, "alt": alternative, "next": next_rule}

        def body(b: Block):
            for c in b.concl:
                add(c)
            for k in b.kids:
                with fn[k.kind](cond(k)):
                    body(k)

        for session in root.sessions():  # one `with rule:` block each
            with query:
                for tok in session:
                    if tok == "here":
                        for c in root.concl:
                            add(c)
                    else:
                        with fn[tok.kind](cond(tok)):
                            body(tok)
        rows = set()
        for r in query.evaluate():
            _STATS["instances"] += 1
            src = back.get(id(r.src))
            if src is None or (type(r) not in kls and type(r) not in kys):
                return "bad-instance"
            if type(r) in kys:
                aux = backy.get(id(r.aux))
                if aux is None:
                    return "bad-instance"
                rows.add(f"{type(r)._k:04d}:{src}.{aux}")
            else:
                rows.add(f"{type(r)._k:04d}:{src}")
        _STATS["evaluated"] += 1
        return "[" + ",".join(sorted(rows)) + "]"
    except Exception as e:  # noqa: BLE001
        SymbolicExpression._symbolic_expression_stack_.clear()
        name = type(e).__name__
        _STATS["exceptions"][name] = _STATS["exceptions"].get(name, 0) + 1
        return "exc:" + name


class _Timeout(BaseException):
    pass


def _guarded(case: Case, seconds: int = 20) -> str:
    """one case under a wall-clock limit: a rule tree whose evaluation does not terminate must become an
    observation (and so a VIOLATION with a replay), not a hung check"""
    import signal
    import threading

    if threading.current_thread() is not threading.main_thread() or not hasattr(signal, "SIGALRM"):
        return _one(case)

    def on_alarm(signum, frame):
        raise _Timeout()

    old = signal.signal(signal.SIGALRM, on_alarm)
    signal.alarm(seconds)
    try:
        return _one(case)
    except _Timeout:
        from krrood.entity_query_language.symbolic import SymbolicExpression
        SymbolicExpression._symbolic_expression_stack_.clear()
        _STATS["exceptions"]["Timeout"] = _STATS["exceptions"].get("Timeout", 0) + 1
        return "exc:Timeout"
    finally:
        signal.alarm(0)
        signal.signal(signal.SIGALRM, old)


def run_impl(cases):
    return [_guarded(c) for c in cases]


def extra_coverage():
    return {"impl_runs": dict(_STATS)}
