"""C11 — pattern matching (`entity_matching` / `match` / `select` / `match_any` / `match_all`) is equivalent to the
explicit query it abbreviates.

Implementation side: the real `an(entity_matching(T, dom)(**kwargs)).evaluate()` over harness-defined `Symbol`
dataclasses (props/c11_classes.py).  Observation: the SET of result rows, a row being the values of the query's selected
expressions in order (objects by identity = index in the case's object table), or the class of the escaping exception.
A case may carry `steps`: the query object is built once and evaluated before the first and after every step (a step =
attribute assignments on the real objects, creation of objects, dropping of objects); the observation then is the
` | `-separated list of the per-evaluation observations, and the model/spec of the k-th evaluation is the pattern on the
data of that moment (`Match.runSeq`, theorem `C11_history_independent`).  Between (and before) the complete evaluations
the same query object may also be evaluated and ABANDONED after k results (`peek`: the suspended iterator is kept alive or
dropped), and the domain may be handed over as a list, a tuple, a one-shot generator or an iterator (`domkind`): the
domain contents are the same, so the expected answers are (`C11_abandoned_irrelevant`); the rows an abandoned evaluation
did hand out must be among the specified rows of that moment.

The Lean spec printed by the driver is cross-checked on every case against `oracle_rows`, a direct Python predicate
over the real objects that never looks at the Lean side or at krrood (run-time `isinstance`, `==`, `in`, `set`).
"""
from __future__ import annotations

import os
from typing import Any, Dict, List, Optional, Tuple

import eqlgen as G
from core import Case, CheckBroken, Driver

PID = "C11"
LEAN_MODULES = ["KrroodVerif.Props.C11", "KrroodVerif.Props.C11T"]
THEOREMS = [
    "KrroodVerif.Match.C11_equiv_partial",
    "KrroodVerif.Match.C11_model_eq_spec_partial",
    "KrroodVerif.Match.C11_equiv_partial_now",
    "KrroodVerif.Match.C11_full",
    "KrroodVerif.Match.C11_full_now",
    "KrroodVerif.Match.desugar_now",
    "KrroodVerif.Match.C11_equiv_gen",
    "KrroodVerif.Match.C11_matches_iff_rows",
    "KrroodVerif.Match.C11_history_independent",
    "KrroodVerif.Match.C11_seq_equiv_partial",
    "KrroodVerif.Match.C11_abandoned_irrelevant",
    "KrroodVerif.Match.chain_wit_assigns",
    "KrroodVerif.Match.wit_iff_matchesAssigns",
    "KrroodVerif.Match.existsFilter_segments",
    "KrroodVerif.Match.trueOf_andChain",
    "KrroodVerif.Match.C11_cex_any_dedup",
    "KrroodVerif.Match.C11_cex_cross_product",
    "KrroodVerif.Match.C11_cex_builtin_collection",
    "KrroodVerif.Match.C11_cex_subclass_attribute",
    "KrroodVerif.Match.C11_cex_lazy_flatten",
    "KrroodVerif.Match.C11_cex_falsy_value",
    # the desugaring as a table interpreter (Model/MatchTable.lean, Props/C11T.lean): second tie by translation
    "KrroodVerif.Match.tableOk_table",
    "KrroodVerif.Match.desugar_eq_interp",
    "KrroodVerif.Match.desugar_eq_interp_table",
    "KrroodVerif.Match.resolveAssignsWith_eq",
    "KrroodVerif.Match.C11_equiv_of_tableOk",
    "KrroodVerif.Match.C11_full_of_tableOk",
    "KrroodVerif.Match.C11T_cex_tables",
]
TRANSLATED = [
    "KrroodVerif.Match.Translated.C11_table_translated_eq_model",
    "KrroodVerif.Match.Translated.C11_table_translated_ok",
    "KrroodVerif.Match.Translated.C11_translated_meets_property",
]


def extra_obligations():
    """Second tie: regenerate the decision table of the desugaring from /repo's CURRENT `match.py` (Python ast, truth
    tables of the source's own Boolean expressions) and have the kernel re-check that it equals the model's table
    (`Match.table`; `desugar_eq_interp`: the interpreter run on a `TableOk` table builds the query `desugar Quirks.now`
    builds, for every pattern) and that it is `TableOk`."""
    import re
    import subprocess
    import core
    from translate.c11_translate import generate as gen, TranslationError
    try:
        text = gen(core.REPO)
    except (TranslationError, SyntaxError, OSError, RecursionError) as e:
        return [{"name": n, "ok": False, "detail": f"translator rejected the source: {e}"} for n in TRANSLATED]
    tmp = core.LEAN_DIR / ".lake" / "audit"
    tmp.mkdir(parents=True, exist_ok=True)
    f = tmp / f"C11Translated_{os.getpid()}.lean"
    f.write_text(text + "".join(f"#print axioms {n}\n" for n in TRANSLATED))
    try:
        p = subprocess.run(["lake", "env", "lean", str(f)], cwd=str(core.LEAN_DIR), capture_output=True, text=True,
                           timeout=600)
    finally:
        try:
            f.unlink()
        except OSError:
            pass
    out = " ".join(((p.stdout or "") + (p.stderr or "")).split())
    res = []
    for n in TRANSLATED:
        m = re.search(r"'" + re.escape(n) + r"' depends on axioms: \[([^\]]*)\]", out)
        none = re.search(r"'" + re.escape(n) + r"' does not depend on any axioms", out)
        ax = [a.strip() for a in m.group(1).split(",")] if m else ([] if none else None)
        # an error in one theorem must not hide the verdict of the others: Lean reports per declaration
        failed = re.search(r"error[^']*" + re.escape(n.rsplit(".", 1)[1]), out) is not None
        ok = ax is not None and set(ax) <= core.ALLOWED_AXIOMS and not failed and "sorryAx" not in (m.group(1) if m else "")
        res.append({"name": n, "ok": ok, "axioms": ax,
                    "detail": "regenerated table:\n" + text[text.find("def table"):text.find("/-- the decisions")]
                              + (p.stdout or "")[-1500:] + (p.stderr or "")[-800:]})
    return res

MODEL_FUNCTION = ("Match.run with Quirks.now (F-C11-3..6 repaired, F-C11-1/2 open) = Match.desugar (Match._resolve, AttributeAssignment.resolve, "
                  "infer_condition_between_attribute_and_assigned_value) + Match.evalQuery/evalCond/evalT "
                  "(Model/Match.lean, on the value level of Model/Eql.lean)")
TRUSTED = [
    "Lean 4.33 kernel; axioms of each theorem listed under coverage.theorems",
    "hand-written model Model/Match.lean of match.py and of the evaluation of the (non tree-shaped) queries it builds; "
    "value level (Val/Obj/World/valEq/applyContains/isInstance) shared with Model/Eql.lean",
    "this correspondence harness, the S-expression driver and the independent Python oracle for the Lean spec",
]
ASSUMPTIONS = [
    "between two evaluations of one query object only attributes of the objects change (the domain list and the "
    "pattern's literal containers are not edited); edits keep the data conforming to the annotations",
    "objects conform to their dataclass annotations (a List[Drawer] field holds a list of Drawer instances, ...)",
    "dataclass __eq__/__hash__ as generated (eq=True: same class and equal fields; eq=False: identity); "
    "object truthiness is the default (always true); attribute access has no side effects",
    "kwargs of one match are a dict: attribute names are distinct",
    "match_any/match_all/select_any/select_all on a value are given a list; flags on type patterns "
    "(match_any(Drawer)(...)) are not generated (the code ignores them); nested types are the declared type of the "
    "attribute, a subclass of it, or absent",
]
RULE = ("corpus, then random patterns (depth<=3 over Cabinet/Drawer/Handle-like Symbol dataclasses with scalar, "
        "reference, relationship-collection and builtin-collection attributes and subclasses; every value form: plain "
        "scalar/object/list, match/match_any/match_all/select/select_any/select_all on a list, nested match/select with "
        "declared, subclass or no type) over random object graphs with value-equal distinct handles, shared and equal "
        "collections across parents, empty collections, mixed-type and empty domains; 35% of the cases evaluate the "
        "SAME query object again (up to 3 evaluations) after 1-3 edits per step drawn from the same vocabulary: new "
        "scalar values, new lists (also replaced in place), other or newly created nested objects, objects unlinked, "
        "dropped and replaced by new ones (address reuse) - expected answer of every evaluation = the pattern on the "
        "data of that moment; 30% of the cases hand the domain over as a one-shot generator / iterator / tuple and "
        "30% start evaluations of the same query object that are ABANDONED after 0-3 results (iterator kept or "
        "dropped) before the first complete evaluation and at the beginning / end of steps - the answers of the "
        "complete evaluations must not change and the rows handed out must be specified rows; the values of the str "
        "attributes (Handle.name, Cabinet.name: pattern depths 1-3) are proper substrings of one another and include "
        "the empty string (table NAMES); non-trivial = the specified "
        "answer is neither empty nor all candidate elements; distinct by case text")

# ---------------------------------------------------------------------------------------------- static description
# mirrors the annotations in c11_classes.py (owned by the harness; NOT read from krrood's class diagram)
CLS = ["Handle", "Knob", "Drawer", "BigDrawer", "Cabinet"]
SUB = [(1, 0), (3, 2)]
VEQ = {0: True, 1: True, 2: False, 3: False, 4: False}
_H = [("name", "str", None), ("size", "int", None)]
_D = [("handle", "ref", 0), ("size", "int", None), ("tags", "bcoll", None), ("spare", "relcoll", 0)]
FIELDS: Dict[int, List[Tuple[str, str, Optional[int]]]] = {
    0: _H, 1: _H, 2: _D, 3: _D + [("depth", "int", None)],
    4: [("name", "str", None), ("main", "ref", 2), ("drawers", "relcoll", 2), ("tags", "bcoll", None)],
}


def field_info(cls: int, attr: str):
    for n, k, t in FIELDS[cls]:
        if n == attr:
            return k, t
    return None


def is_sub(c: int, d: int) -> bool:
    return c == d or (c, d) in SUB


SCHEMA_SX = "(schema" + "".join(
    f" ({c} {n} {'T' if k == 'relcoll' else 'F'} {'T' if k in ('relcoll', 'bcoll') else 'F'} {'-' if t is None else t})"
    for c in sorted(FIELDS) for n, k, t in FIELDS[c]) + ")"
SUB_SX = "(sub" + "".join(f" ({a} {b})" for a, b in SUB) + ")"

# ---------------------------------------------------------------------------------------------- AST -> S-expression
# value := ("int", k) | ("list", [k]) | ("obj", i) | ("objs", [i])
# aval  := ("lit", value) | ("coll", value, ex, un, sel) | ("nested", pat)
# pat   := {"cls": int|None, "sel": bool, "as": [(attr, aval)]}
# case  := {"pat": pat, "dom": [i], "objs": [{"cls": c, "fields": {attr: value}}]}


def sx_val(v) -> str:
    k = v[0]
    if k == "int":
        return f"(int {v[1]})"
    if k == "list":
        return "(list" + "".join(f" {x}" for x in v[1]) + ")"
    if k == "obj":
        return f"(obj {v[1]})"
    if k == "objs":
        return "(objs" + "".join(f" {x}" for x in v[1]) + ")"
    raise ValueError(v)


def _b(x: bool) -> str:
    return "T" if x else "F"


def sx_pat(p) -> str:
    cls = "-" if p["cls"] is None else str(p["cls"])
    return f"(p {cls} {_b(p['sel'])}" + "".join(f" ({a} {sx_aval(v)})" for a, v in p["as"]) + ")"


def sx_aval(v) -> str:
    if v[0] == "lit":
        return f"(lit {sx_val(v[1])})"
    if v[0] == "coll":
        return f"(coll {sx_val(v[1])} {_b(v[2])} {_b(v[3])} {_b(v[4])})"
    if v[0] == "nested":
        return f"(nested {sx_pat(v[1])})"
    raise ValueError(v)


def sx_case(c) -> str:
    objs = "(objs" + "".join(
        f" (o {o['cls']} {_b(VEQ[o['cls']])}" + "".join(f" ({k} {sx_val(v)})" for k, v in o["fields"].items()) + ")"
        for o in c["objs"]) + ")"
    dom = "(dom" + "".join(f" (obj {i})" for i in c["dom"]) + ")"
    steps = ""
    if c.get("steps"):
        steps = " (steps" + "".join(" (st" + "".join(" " + sx_edit(e) for e in st) + ")" for st in c["steps"]) + ")"
    if c.get("pre"):
        steps += " (pre" + "".join(" " + sx_edit(e) for e in c["pre"]) + ")"
    if c.get("domkind", "list") != "list":
        steps += f" (domkind {c['domkind']})"
    return f"(m (pat {sx_pat(c['pat'])}) {dom} {objs} {SUB_SX} {SCHEMA_SX}{steps})"


def sx_obj(o) -> str:
    return (f"(o {o['cls']} {_b(VEQ[o['cls']])}" +
            "".join(f" ({k} {sx_val(v)})" for k, v in o["fields"].items()) + ")")


# edit := ("set", i, attr, value, in_place) | ("new", objspec) | ("free", i) | ("peek", k, keep)
# a step is the list of edits made between two evaluations of the SAME query object; ("peek", k, keep) is an evaluation
# of that query object abandoned after k results, the suspended iterator being kept alive (keep) or dropped
def sx_edit(e) -> str:
    if e[0] == "set":
        return f"({'setip' if e[4] else 'set'} {e[1]} {e[2]} {sx_val(e[3])})"
    if e[0] == "new":
        return f"(new {sx_obj(e[1])})"
    if e[0] == "free":
        return f"(free {e[1]})"
    if e[0] == "peek":
        return f"(peek {e[1]} {'keep' if e[2] else 'drop'})"
    raise ValueError(e)


# ---------------------------------------------------------------------------------------------- parsing back

def _p_val(s):
    k = s[0]
    if k == "int":
        return ("int", int(s[1]))
    if k == "list":
        return ("list", [int(x) for x in s[1:]])
    if k == "obj":
        return ("obj", int(s[1]))
    if k == "objs":
        return ("objs", [int(x) for x in s[1:]])
    raise ValueError(s)


def _p_pat(s):
    assert s[0] == "p"
    return {"cls": None if s[1] == "-" else int(s[1]), "sel": s[2] == "T",
            "as": [(a[0], _p_aval(a[1])) for a in s[3:]]}


def _p_aval(s):
    if s[0] == "lit":
        return ("lit", _p_val(s[1]))
    if s[0] == "coll":
        return ("coll", _p_val(s[1]), s[2] == "T", s[3] == "T", s[4] == "T")
    if s[0] == "nested":
        return ("nested", _p_pat(s[1]))
    raise ValueError(s)


def parse_case(line: str):
    s = G.parse_sexp(line)
    assert s[0] == "m"
    d = {x[0]: x[1:] for x in s[1:]}
    def p_obj(o):
        return {"cls": int(o[1]), "fields": {f[0]: _p_val(f[1]) for f in o[3:]}}

    def p_edit(e):
        if e[0] in ("set", "setip"):
            return ("set", int(e[1]), e[2], _p_val(e[3]), e[0] == "setip")
        if e[0] == "new":
            return ("new", p_obj(e[1]))
        if e[0] == "free":
            return ("free", int(e[1]))
        if e[0] == "peek":
            return ("peek", int(e[1]), e[2] == "keep")
        raise ValueError(e)

    out = {
        "pat": _p_pat(d["pat"][0]),
        "dom": [int(x[1]) for x in d["dom"]],
        "objs": [p_obj(o) for o in d["objs"]],
    }
    if "steps" in d:
        out["steps"] = [[p_edit(e) for e in st[1:]] for st in d["steps"]]
    if "pre" in d:
        out["pre"] = [p_edit(e) for e in d["pre"]]
    if "domkind" in d:
        out["domkind"] = d["domkind"][0]
    return out


def revive(case: Case) -> Case:
    if case.payload is None:
        case.payload = parse_case(case.line)
    return case


# ---------------------------------------------------------------------------------------------- real code

_K: Dict[str, Any] = {}


def _krrood():
    """import krrood + the harness classes once and rebuild the SymbolGraph so that its class diagram knows them"""
    if not _K:
        import core
        core.use_repo_sources()
        import sys
        here = os.path.dirname(os.path.abspath(__file__))
        if here not in sys.path:
            sys.path.insert(0, here)
        import c11_classes as C
        from krrood.entity_query_language import match as M
        from krrood.entity_query_language.quantify_entity import an
        from krrood.entity_query_language.symbol_graph import SymbolGraph
        from krrood.entity_query_language.symbolic import Entity, SymbolicExpression
        SymbolGraph().clear()
        SymbolGraph()
        _K.update(C=C, M=M, an=an, SG=SymbolGraph, Entity=Entity, SE=SymbolicExpression)
    return _K


# string values of the `str` attributes: the Lean side knows them by their index only (equality of strings = equality of
# indices, the table is injective); the strings themselves are chosen so that they are proper SUBSTRINGS of one another
# and include the empty string ("a literal means equality", never containment: "n" in "n1" in "n10", "" in everything)
NAMES = ["n", "n1", "", "1", "n10", "0"]
_NAME_IX = {s: i for i, s in enumerate(NAMES)}


def _name(k: int) -> str:
    return NAMES[k] if 0 <= k < len(NAMES) else f"m{k}"


def make_objects(c) -> List[Any]:
    """instantiate the object table (references may point forwards or backwards)"""
    C = _krrood()["C"]
    specs = c["objs"]
    objs: List[Any] = [None] * len(specs)
    pending = list(range(len(specs)))

    def ready(v):
        if v[0] == "obj":
            return objs[v[1]] is not None
        if v[0] == "objs":
            return all(objs[i] is not None for i in v[1])
        return True

    while pending:
        progressed = False
        for i in list(pending):
            o = specs[i]
            if all(ready(v) for v in o["fields"].values()):
                kw = {}
                for a, v in o["fields"].items():
                    kw[a] = real_val(v, a, objs)
                objs[i] = C.CLASSES[o["cls"]](**kw)
                pending.remove(i)
                progressed = True
        if not progressed:
            raise ValueError("cyclic object table")
    return objs


def real_val(v, attr: str, objs):
    k = v[0]
    if k == "int":
        return _name(v[1]) if attr == "name" else v[1]
    if k == "list":
        return [_name(x) for x in v[1]] if attr == "name" else list(v[1])
    if k == "obj":
        return objs[v[1]]
    if k == "objs":
        return [objs[i] for i in v[1]]
    raise ValueError(v)


def _kwargs(assigns, objs):
    K = _krrood()
    M, C = K["M"], K["C"]
    out = {}
    for attr, v in assigns:
        if v[0] == "lit":
            out[attr] = real_val(v[1], attr, objs)
        elif v[0] == "coll":
            _, val, ex, un, sel = v
            if ex and un:
                raise ValueError("existential and universal")
            f = {(False, False, False): M.match, (True, False, False): M.match_any, (False, True, False): M.match_all,
                 (False, False, True): M.select, (True, False, True): M.select_any, (False, True, True): M.select_all,
                 }[(ex, un, sel)]
            out[attr] = f(real_val(val, attr, objs))
        else:
            p = v[1]
            f = M.select if p["sel"] else M.match
            t = None if p["cls"] is None else C.CLASSES[p["cls"]]
            out[attr] = f(t)(**_kwargs(p["as"], objs))
    return out


def show_real(v, ids) -> str:
    if isinstance(v, list):
        return "[" + ",".join(show_real(x, ids) for x in v) + "]"
    if id(v) in ids:
        return f"o{ids[id(v)]}"
    if isinstance(v, bool):
        return "T" if v else "F"
    if isinstance(v, int):
        return str(v)
    if isinstance(v, str) and v in _NAME_IX:
        return str(_NAME_IX[v])
    if isinstance(v, str) and v.startswith("m") and v[1:].isdigit():
        return v[1:]
    return "?" + type(v).__name__


def canon(rows) -> str:
    return " ".join(sorted(set(rows)))


def _row(vals, ids) -> str:
    return "(" + " ".join(show_real(v, ids) for v in vals) + ")"


def _reset() -> None:
    """every case starts from a fresh SymbolGraph (same class diagram classes, no instances) and an empty expression
    registry: krrood keeps every expression ever built in `SymbolicExpression._id_expression_map_`, and with them the
    literal objects, so instances of earlier cases would otherwise stay registered (and slow `evaluate()` down)"""
    K = _krrood()
    K["SE"]._id_expression_map_.clear()
    K["SG"]().clear()
    K["SG"]()


SEP = " | "


def apply_edit(e, objs) -> None:
    """one edit on the REAL objects (the object table `objs` is the harness' only strong reference besides the domain
    list, pattern literals and the attributes of other objects)"""
    C = _krrood()["C"]
    if e[0] == "set":
        _, i, attr, val, in_place = e
        new = real_val(val, attr, objs)
        if in_place and isinstance(new, list) and isinstance(getattr(objs[i], attr), list):
            getattr(objs[i], attr)[:] = new
        else:
            setattr(objs[i], attr, new)
    elif e[0] == "new":
        o = e[1]
        objs.append(C.CLASSES[o["cls"]](**{a: real_val(v, a, objs) for a, v in o["fields"].items()}))
    elif e[0] == "free":
        objs[e[1]] = None
    elif e[0] == "peek":
        pass  # an abandoned evaluation does not touch the data
    else:
        raise ValueError(e)


def apply_step(st, objs, peek=None) -> None:
    """`peek(position, edit)`: performs an abandoned evaluation (only the implementation side passes it)"""
    for j, e in enumerate(st):
        if e[0] == "peek" and peek is not None:
            peek(j, e)
        else:
            apply_edit(e, objs)
    if any(e[0] == "free" for e in st):
        import gc
        gc.collect(1)  # young generations only (cheap): the freed addresses become available to the objects
        # created next (id reuse); Symbol instances are acyclic, only evaluation garbage may hold them


def _ids(objs):
    return {id(o): i for i, o in enumerate(objs) if o is not None}


def make_domain(kind: str, dom: list):
    """the same contents as a list, a tuple, a one-shot generator or a one-shot iterator"""
    if kind == "tuple":
        return tuple(dom)
    if kind == "gen":
        return (x for x in dom)
    if kind == "iter":
        return iter(dom)
    return dom


def _one(c, peeks: Optional[list] = None) -> str:
    """build the query ONCE; [abandoned evaluations;] evaluate it; then, per step: edit the data [and start evaluations
    that are abandoned], evaluate the same query object again.  `peeks` collects `(segment | None, rows | exception)` of
    the abandoned evaluations: the segment is the index of the complete evaluation that sees the same data."""
    K = _krrood()
    M, C = K["M"], K["C"]
    steps = c.get("steps") or []
    kept = []  # suspended iterators of abandoned evaluations that stay alive until the end of the case
    try:
        _reset()
        objs = make_objects(c)
        p = c["pat"]
        dom = make_domain(c.get("domkind", "list"), [objs[i] for i in c["dom"]])
        root = (M.entity_selection if p["sel"] else M.entity_matching)(C.CLASSES[p["cls"]], dom)
        m = root(**_kwargs(p["as"], objs))
        q = K["an"](m)
        desc = q._child_
        sel = list(desc.selected_variables)
    except Exception as e:  # noqa: BLE001
        return SEP.join(["exc:" + type(e).__name__] * (len(steps) + 1))

    def row_of(r, ids) -> str:
        if isinstance(desc, K["Entity"]):
            return _row([r], ids)
        return _row([r.data[v].value for v in sel], ids)

    def evaluate() -> str:
        try:
            ids = _ids(objs)
            rows = []
            for r in q.evaluate():
                rows.append(row_of(r, ids))
            r = None
            return canon(rows)
        except Exception as e:  # noqa: BLE001
            return "exc:" + type(e).__name__

    def peeker(st, segment_before: Optional[int], segment_after: Optional[int]):
        def is_data(e):
            return e[0] != "peek"

        def peek(j, e):
            # which complete evaluation sees the data this abandoned one sees?
            if not any(is_data(x) for x in st[:j]):
                seg = segment_before
            elif not any(is_data(x) for x in st[j + 1:]):
                seg = segment_after
            else:
                seg = None
            got: Any = []
            try:
                ids = _ids(objs)
                it = iter(q.evaluate())
                for _ in range(e[1]):
                    try:
                        r = next(it)
                    except StopIteration:
                        break
                    got.append(row_of(r, ids))
                r = None
                if e[2]:
                    kept.append(it)
                del it
            except Exception as ex:  # noqa: BLE001
                got = "exc:" + type(ex).__name__
            if peeks is not None:
                peeks.append((seg, got))
        return peek

    try:
        pre = c.get("pre") or []
        apply_step(pre, objs, peeker(pre, None, 0))
    except Exception as e:  # noqa: BLE001
        return SEP.join(["harness-error:" + type(e).__name__] * (len(steps) + 1))
    out = [evaluate()]
    for k, st in enumerate(steps):
        try:
            apply_step(st, objs, peeker(st, k, k + 1))
        except Exception as e:  # noqa: BLE001
            out.append("harness-error:" + type(e).__name__)
            continue
        out.append(evaluate())
    kept.clear()
    return SEP.join(out)


# ---------------------------------------------------------------------------------------------- independent oracle

def _o_lit(x, l) -> bool:
    xc, lc = isinstance(x, list), isinstance(l, list)
    if xc and lc:
        return any(e in l for e in x)
    if xc:
        return l in x
    if lc:
        return x in l
    return x == l


def _o_coll(x, l, un: bool) -> bool:
    if isinstance(x, list):
        return set(x) == set(l) if un else any(e in l for e in x)
    return x in l


def _o_type(cls, v) -> bool:
    return True if cls is None else isinstance(v, _krrood()["C"].CLASSES[cls])


def _o_rows_pat(p, v, objs) -> List[tuple]:
    if not _o_type(p["cls"], v):
        return []
    return _o_rows_assigns(p["as"], v, objs)


def _o_rows_assigns(assigns, v, objs) -> List[tuple]:
    rows: List[tuple] = [()]
    for attr, av in assigns:
        if not hasattr(v, attr):
            return []
        x = getattr(v, attr)
        part = _o_rows_val(av, attr, x, objs)
        rows = [a + b for a in rows for b in part]
    return rows


def _o_rows_val(av, attr, x, objs) -> List[tuple]:
    if av[0] == "lit":
        return [()] if _o_lit(x, real_val(av[1], attr, objs)) else []
    if av[0] == "coll":
        _, val, _ex, un, sel = av
        return [((x,) if sel else ())] if _o_coll(x, real_val(val, attr, objs), un) else []
    p = av[1]
    if isinstance(x, list):
        return [((x, e) if p["sel"] else ()) + r for e in x for r in _o_rows_pat(p, e, objs)]
    return [((x,) if p["sel"] else ()) + r for r in _o_rows_pat(p, x, objs)]


def n_sel(assigns) -> int:
    n = 0
    for _a, av in assigns:
        if av[0] == "coll":
            n += 1 if av[4] else 0
        elif av[0] == "nested":
            n += (1 if av[1]["sel"] else 0) + n_sel(av[1]["as"])
    return n


def oracle_rows(c) -> str:
    _reset()
    objs = make_objects(c)
    p = c["pat"]
    keep_root = p["sel"] or n_sel(p["as"]) == 0

    def state() -> str:
        ids = _ids(objs)
        rows = []
        for i in c["dom"]:
            x = objs[i]
            if not _o_type(p["cls"], x):
                continue
            for r in _o_rows_assigns(p["as"], x, objs):
                rows.append(_row(((x,) if keep_root else ()) + r, ids))
        return canon(rows)

    apply_step(c.get("pre") or [], objs)
    out = [state()]
    for st in c.get("steps") or []:
        apply_step(st, objs)
        out.append(state())
    return SEP.join(out)


_stats: Dict[str, int] = {"oracle_checked": 0}
_ROW_RE = __import__("re").compile(r"\([^()]*\)")


def _count(k: str, n: int = 1) -> None:
    _stats[k] = _stats.get(k, 0) + n


def run_impl(cases):
    out = []
    all_peeks = []
    for c in cases:
        revive(c)
        pk: list = []
        out.append(_one(c.payload, pk))
        all_peeks.append(pk)
    # cross-check the Lean spec with the independent oracle (a wrong spec must not hide behind a right proof)
    specs = Driver(PID).run([c.line for c in cases])
    for k, (c, d) in enumerate(zip(cases, specs)):
        if "spec" not in d:
            continue
        if all_peeks[k]:
            _count("cases_with_abandoned_evaluations")
            _count("abandoned_evaluations", len(all_peeks[k]))
            _count("abandoned_evaluations_that_handed_out_rows", sum(1 for _s, g in all_peeks[k] if g and g != []
                                                                     and not isinstance(g, str)))
            # what an abandoned evaluation handed out must be among the specified rows of that moment (outside the
            # open findings, whose inputs are excused through the quirk-on model only for complete evaluations)
            if not d.get("trig") and not out[k].startswith(("exc:", "harness-error:")):
                segs = d["spec"].split(SEP)
                bad = []
                for seg, got in all_peeks[k]:
                    if isinstance(got, str):
                        bad.append("!peek-" + got)
                    elif seg is not None and seg < len(segs):
                        allowed = set(_ROW_RE.findall(segs[seg]))
                        bad += ["!peek-outside-spec:" + r for r in got if r not in allowed]
                        _count("abandoned_evaluations_checked_against_spec")
                if bad:
                    out[k] = out[k] + " " + " ".join(sorted(set(bad)))
        if c.payload.get("domkind", "list") != "list":
            _count("domain_as_" + c.payload["domkind"])
        o = oracle_rows(c.payload)
        _stats["oracle_checked"] += 1
        trig = [t for t in d.get("trig", "").split(",") if t]
        for t in trig:
            _count("trigger_" + t)
        if d.get("model") != d.get("spec"):
            _count("model_differs_from_spec")
        shapes = [t for t in d.get("shapes", "").split(",") if t]
        for t in shapes:
            _count("shape_" + t)
        if not shapes and d.get("wf") == "true" and d.get("conf") == "true":
            _count("in_scope_of_C11_equiv_partial" if d.get("nsel") == "0" else "clean_with_selected_parts")
        if d.get("conf") != "true":
            _count("world_not_conforming")
        if c.payload.get("steps") or any(e[0] == "peek" for e in c.payload.get("pre") or []):
            _count("reevaluation_cases")
            _count("reevaluations_of_the_same_query_object", len(c.payload.get("steps") or []))
            segs = d["spec"].split(SEP)
            if len(set(segs)) > 1:
                _count("reevaluation_cases_whose_specified_answer_changes")
        if d.get("eql") == "ok":
            _count("tree_shaped_cases_agreeing_with_M-EQL_evaluator")
        elif d.get("eql") == "differs":
            raise CheckBroken("Model/Match.lean and the shared M-EQL evaluator (Model/Eql.lean) disagree on a "
                              f"tree-shaped match query\n case: {c.line}")
        if o != d["spec"]:
            raise CheckBroken(f"Lean spec disagrees with the independent Python oracle\n case  : {c.line}\n "
                              f"spec  : {d['spec']}\n oracle: {o}")
    return out


def extra_coverage():
    return {"oracle_cross_checks": _stats["oracle_checked"],
            "driver_side_counts": {k: v for k, v in sorted(_stats.items()) if k != "oracle_checked"}}


def nontrivial(case: Case, spec: str) -> bool:
    if SEP in spec:
        segs = spec.split(SEP)
        return any(nontrivial(case, x) for x in segs if x) or len(set(segs)) > 1
    if spec.startswith("exc:") or not spec:
        return False
    c = revive(case).payload
    p = c["pat"]
    if not p["as"]:
        return False
    cand = sum(1 for i in c["dom"] if is_sub(c["objs"][i]["cls"], p["cls"]))
    if n_sel(p["as"]) == 0:
        return len(spec.split(") (")) < cand
    return True


# ---------------------------------------------------------------------------------------------- generator

def budget(tier: str) -> int:
    return 6000 if tier == "quick" else 80000


def gen_world(rng):
    objs = []
    # handles: small value space so that value-equal distinct handles are common
    hs = []
    for _ in range(rng.randint(2, 4)):
        cls = 1 if rng.random() < 0.3 else 0
        objs.append({"cls": cls, "fields": {"name": ("int", gen_name(rng)), "size": ("int", rng.randint(0, 2))}})
        hs.append(len(objs) - 1)
    if rng.random() < 0.6:  # an exact value-equal copy
        src = objs[rng.choice(hs)]
        objs.append({"cls": src["cls"], "fields": dict(src["fields"])})
        hs.append(len(objs) - 1)

    def some(pool, lo, hi):
        return [rng.choice(pool) for _ in range(rng.randint(lo, hi))] if pool else []

    ds = []
    spare_pool = [some(hs, 0, 2) for _ in range(2)]
    for _ in range(rng.randint(2, 4)):
        cls = 3 if rng.random() < 0.35 else 2
        f = {"handle": ("obj", rng.choice(hs)), "size": ("int", rng.randint(0, 2)),
             "tags": ("list", some([0, 1, 2], 0, 2)),
             "spare": ("objs", list(rng.choice(spare_pool)) if rng.random() < 0.5 else some(hs, 0, 2))}
        if cls == 3:
            f["depth"] = ("int", rng.randint(0, 1))
        objs.append({"cls": cls, "fields": f})
        ds.append(len(objs) - 1)
    cs = []
    drawer_pool = [some(ds, 0, 3) for _ in range(2)]
    for _ in range(rng.randint(1, 4)):
        f = {"name": ("int", gen_name(rng)), "main": ("obj", rng.choice(ds)),
             "drawers": ("objs", list(rng.choice(drawer_pool)) if rng.random() < 0.6 else some(ds, 0, 3)),
             "tags": ("list", some([0, 1, 2], 0, 2))}
        objs.append({"cls": 4, "fields": f})
        cs.append(len(objs) - 1)
    return objs, hs, ds, cs


def _pool(objs, cls):
    return [i for i, o in enumerate(objs) if is_sub(o["cls"], cls)]


def gen_name(rng) -> int:
    """index into NAMES: mostly the two common names (value-equal distinct handles stay frequent; NAMES[0] is a proper
    substring of NAMES[1]), sometimes the empty string, a suffix, a longer string"""
    return rng.choice([0, 0, 0, 1, 1, 1, 2, 3, 4])


def gen_scalar(rng, objs, attr):
    if attr == "name":
        return gen_name(rng)
    return rng.randint(0, 1) if attr == "depth" else rng.randint(0, 2)


def gen_len(rng) -> int:
    """lengths of literal lists: mostly 1-3, rarely empty (the empty list is finding F-C11-6)"""
    return 0 if rng.random() < 0.05 else rng.randint(1, 3)


def gen_flags(rng):
    ex, un = rng.choice([(False, False), (True, False), (True, False), (False, True), (False, True)])
    return ex, un, rng.random() < 0.3


def actual(rng, objs, attr):
    """the value some object of the world really has for this attribute (so that constraints are satisfiable)"""
    have = [o["fields"][attr] for o in objs if attr in o["fields"]]
    return rng.choice(have) if have else None


def gen_list(rng, objs, attr, kind, pick):
    """a literal list for `attr`: often built from a value that occurs in the world (permuted, with duplicates)"""
    a = actual(rng, objs, attr)
    tag = "list" if kind in ("int", "str", "bcoll") else "objs"
    if a is not None and rng.random() < 0.55:
        items = list(a[1]) if a[0] in ("list", "objs") else [a[1]]
        if items and rng.random() < 0.3:
            items.append(rng.choice(items))
        if rng.random() < 0.3:
            items.append(pick())
        if len(items) > 1 and rng.random() < 0.2:
            items.pop(rng.randrange(len(items)))
        rng.shuffle(items)
        if items or rng.random() < 0.3:
            return (tag, items)
    return (tag, [pick() for _ in range(gen_len(rng))])


def gen_aval(rng, objs, owner: int, attr: str, depth: int, allow_f4: bool):
    kind, elem = field_info(owner, attr)
    r = rng.random()
    if kind in ("int", "str"):
        def pick():
            return gen_scalar(rng, objs, attr)
        if r < 0.5:
            a = actual(rng, objs, attr)
            return ("lit", ("int", a[1] if a is not None and rng.random() < 0.6 else pick()))
        vals = gen_list(rng, objs, attr, kind, pick)
        if r < 0.7:
            return ("lit", vals)
        return ("coll", vals) + gen_flags(rng)
    if kind == "bcoll":
        def pick():
            return rng.randint(0, 2)
        if r < 0.3:
            return ("lit", ("int", pick()))
        vals = gen_list(rng, objs, attr, kind, pick)
        if r < 0.5:
            return ("lit", vals)
        return ("coll", vals) + gen_flags(rng)
    pool = _pool(objs, elem) or list(range(len(objs)))
    anyobj = list(range(len(objs)))

    def pick():
        return rng.choice(pool if rng.random() < 0.9 else anyobj)

    if kind == "ref":
        if r < 0.2:
            a = actual(rng, objs, attr)
            return ("lit", ("obj", a[1] if a is not None and rng.random() < 0.5 else pick()))
        if r < 0.35:
            return ("lit", gen_list(rng, objs, attr, kind, pick))
        if r < 0.45 or depth <= 0:
            return ("coll", gen_list(rng, objs, attr, kind, pick)) + gen_flags(rng)
        return ("nested", gen_pat(rng, objs, elem, depth - 1, allow_f4))
    # relationship collection
    if r < 0.15:
        return ("lit", ("obj", pick()))
    if r < 0.3:
        return ("lit", gen_list(rng, objs, attr, kind, pick))
    if r < 0.5 or depth <= 0:
        return ("coll", gen_list(rng, objs, attr, kind, pick)) + gen_flags(rng)
    return ("nested", gen_pat(rng, objs, elem, depth - 1, allow_f4))


def gen_pat(rng, objs, declared: int, depth: int, allow_f4: bool, root: bool = False):
    """a nested pattern for an attribute of declared class `declared` (or the root pattern on class `declared`)"""
    subs = [c for c in range(len(CLS)) if is_sub(c, declared) and c != declared]
    r = rng.random()
    if root:
        cls = declared
    elif subs and r < 0.3:
        cls = rng.choice(subs)
    elif r < 0.4:
        cls = None
    else:
        cls = declared
    # attributes are resolved against the declared class (the code does that); rarely a subclass-only one (F-C11-4)
    owner = declared
    names = [n for n, _k, _t in FIELDS[owner]]
    if allow_f4 and cls is not None and cls != declared and rng.random() < 0.08:
        owner = cls
        names = [n for n, _k, _t in FIELDS[owner]]
    k = rng.choice([0, 1, 1, 1, 2, 2, 3]) if depth > 0 or root else rng.choice([0, 1, 1, 2])
    k = min(k, len(names))
    kinds = {n: kk for n, kk, _t in FIELDS[owner]}
    pool = [n for n in names if kinds[n] != "bcoll" or rng.random() < 0.3]
    chosen = rng.sample(pool, min(k, len(pool)))
    assigns = [(a, gen_aval(rng, objs, owner, a, depth, allow_f4)) for a in chosen]
    return {"cls": cls, "sel": rng.random() < (0.3 if root else 0.35), "as": assigns}


def pat_tags(p, depth=1, acc=None):
    acc = acc if acc is not None else {"depth": 1, "tags": set()}
    acc["depth"] = max(acc["depth"], depth)
    for _a, av in p["as"]:
        if av[0] == "lit":
            acc["tags"].add("lit-" + av[1][0])
        elif av[0] == "coll":
            acc["tags"].add("coll-" + ("any" if av[2] else "all" if av[3] else "plain") + ("-sel" if av[4] else ""))
        else:
            q = av[1]
            acc["tags"].add("nested" + ("-sel" if q["sel"] else "") +
                            ("-untyped" if q["cls"] is None else ""))
            pat_tags(q, depth + 1, acc)
    return acc


def pat_objs(p, acc=None) -> set:
    """indices of the objects a pattern mentions in its literals (they stay referenced by the query)"""
    acc = acc if acc is not None else set()
    for _a, av in p["as"]:
        if av[0] in ("lit", "coll"):
            v = av[1]
            if v[0] == "obj":
                acc.add(v[1])
            elif v[0] == "objs":
                acc.update(v[1])
        else:
            pat_objs(av[1], acc)
    return acc


def pat_attrs(p, acc=None) -> set:
    """the attribute names a pattern constrains (at any depth)"""
    acc = acc if acc is not None else set()
    for a, av in p["as"]:
        acc.add(a)
        if av[0] == "nested":
            pat_attrs(av[1], acc)
    return acc


def _refs(o) -> set:
    out = set()
    for v in o["fields"].values():
        if v[0] == "obj":
            out.add(v[1])
        elif v[0] == "objs":
            out.update(v[1])
    return out


def table_ok(cur, alive) -> bool:
    """every live object's references are live objects of the declared class (the edited data still conforms)"""
    for i in alive:
        o = cur[i]
        for n, k, t in FIELDS[o["cls"]]:
            v = o["fields"].get(n)
            if v is None:
                return False
            if k in ("int", "str"):
                ok = v[0] == "int"
            elif k == "bcoll":
                ok = v[0] == "list"
            elif k == "ref":
                ok = v[0] == "obj" and v[1] in alive and is_sub(cur[v[1]]["cls"], t)
            else:
                ok = v[0] == "objs" and all(j in alive and is_sub(cur[j]["cls"], t) for j in v[1])
            if not ok:
                return False
    return True


def simulate(c):
    """the object table after each step, or None when a step is not executable / leaves non-conforming data"""
    cur = [{"cls": o["cls"], "fields": dict(o["fields"])} for o in c["objs"]]
    alive = set(range(len(cur)))
    pinned = set(c["dom"]) | pat_objs(c["pat"])
    states = []
    for st in c.get("steps") or []:
        for e in st:
            if e[0] == "peek":
                continue
            if e[0] == "set":
                if e[1] not in alive or field_info(cur[e[1]]["cls"], e[2]) is None:
                    return None
                cur[e[1]]["fields"][e[2]] = e[3]
            elif e[0] == "new":
                cur.append({"cls": e[1]["cls"], "fields": dict(e[1]["fields"])})
                alive.add(len(cur) - 1)
            else:
                if e[1] not in alive or e[1] in pinned:
                    return None
                alive.discard(e[1])
        if not table_ok(cur, alive):
            return None
        states.append(([{"cls": o["cls"], "fields": dict(o["fields"])} for o in cur], set(alive)))
    return states


def gen_steps(rng, c):
    """1-2 steps of 1-3 edits each: new scalar values, new lists (also in place), other or NEW nested objects, and
    objects that are unlinked, dropped and replaced by newly created ones (their addresses may be reused)"""
    cur = [{"cls": o["cls"], "fields": dict(o["fields"])} for o in c["objs"]]
    alive = set(range(len(cur)))
    pinned = set(c["dom"]) | pat_objs(c["pat"])

    def pool(cls):
        return [i for i in sorted(alive) if is_sub(cur[i]["cls"], cls)]

    def near():
        """domain elements and what they reference: edits there are the ones a query can see"""
        out = [i for i in c["dom"] if i in alive]
        for _ in range(2):
            out += [j for i in list(out) for j in sorted(_refs(cur[i])) if j in alive]
        return out or sorted(alive)

    watched = pat_attrs(c["pat"])

    def e_set(i=None):
        i = rng.choice(near() if rng.random() < 0.8 else sorted(alive)) if i is None else i
        fields = FIELDS[cur[i]["cls"]]
        hot = [f for f in fields if f[0] in watched]  # mostly edit what the pattern looks at
        n, k, t = rng.choice(hot if hot and rng.random() < 0.75 else fields)
        in_place = False
        if k in ("int", "str"):
            v = ("int", gen_scalar(rng, cur, n))
        elif k == "bcoll":
            v = ("list", [rng.randint(0, 2) for _ in range(rng.randint(0, 2))])
            in_place = rng.random() < 0.4
        elif k == "ref":
            cand = pool(t)
            if not cand:
                return []
            v = ("obj", rng.choice(cand))
        else:
            cand = pool(t)
            v = ("objs", [rng.choice(cand) for _ in range(rng.randint(0, 3))] if cand else [])
            in_place = rng.random() < 0.4
        cur[i]["fields"][n] = v
        return [("set", i, n, v, in_place)]

    def new_obj(cls):
        if cls in (0, 1):
            f = {"name": ("int", gen_name(rng)), "size": ("int", rng.randint(0, 2))}
        else:
            hs = pool(0)
            if not hs:
                return None
            f = {"handle": ("obj", rng.choice(hs)), "size": ("int", rng.randint(0, 2)),
                 "tags": ("list", [rng.randint(0, 2) for _ in range(rng.randint(0, 2))]),
                 "spare": ("objs", [rng.choice(hs) for _ in range(rng.randint(0, 2))])}
            if cls == 3:
                f["depth"] = ("int", rng.randint(0, 1))
        return {"cls": cls, "fields": f}

    def link(j):
        """make the object `j` reachable: assign it to a reference / put it into a collection of a near object"""
        spots = [(i, n, k) for i in near() for n, k, t in FIELDS[cur[i]["cls"]]
                 if k in ("ref", "relcoll") and is_sub(cur[j]["cls"], t)]
        if not spots:
            return []
        i, n, k = rng.choice(spots)
        if k == "ref":
            v, in_place = ("obj", j), False
        else:
            old = list(cur[i]["fields"][n][1])
            old.insert(rng.randint(0, len(old)), j)
            v, in_place = ("objs", old[:4]) if j in old[:4] else ("objs", [j] + old[:3]), rng.random() < 0.4
        cur[i]["fields"][n] = v
        return [("set", i, n, v, in_place)]

    def e_new(cls=None):
        o = new_obj(rng.choice([0, 0, 1, 2, 2, 3]) if cls is None else cls)
        if o is None:
            return []
        cur.append(o)
        alive.add(len(cur) - 1)
        return [("new", {"cls": o["cls"], "fields": dict(o["fields"])})] + link(len(cur) - 1)

    def e_free():
        cand = [i for i in sorted(alive) if i not in pinned and cur[i]["cls"] != 4]
        rng.shuffle(cand)
        for x in cand:
            edits, ok = [], True
            for y in sorted(alive):
                if y == x:
                    continue
                for n, k, t in FIELDS[cur[y]["cls"]]:
                    v = cur[y]["fields"][n]
                    if k == "ref" and v[1] == x:
                        repl = [z for z in pool(t) if z != x]
                        if not repl:
                            ok = False
                            break
                        edits.append(("set", y, n, ("obj", rng.choice(repl)), False))
                    elif k == "relcoll" and x in v[1]:
                        edits.append(("set", y, n, ("objs", [z for z in v[1] if z != x]), rng.random() < 0.4))
                if not ok:
                    break
            if not ok:
                continue
            for e in edits:
                cur[e[1]]["fields"][e[2]] = e[3]
            alive.discard(x)
            out = edits + [("free", x)]
            if rng.random() < 0.75:  # a new object of the same class right away: it may get the freed address
                out += e_new(cur[x]["cls"])
            return out
        return []

    steps = []
    for _ in range(rng.choice([1, 1, 2])):
        st = []
        for _ in range(rng.randint(1, 3)):
            r = rng.random()
            st += e_set() if r < 0.6 else e_new() if r < 0.8 else e_free()
        if st:
            steps.append(st)
    return steps


def gen_case(rng):
    objs, hs, ds, cs = gen_world(rng)
    T = rng.choice([4, 4, 4, 4, 4, 4, 2, 2, 2, 3, 0, 1])
    cand = _pool(objs, T)
    others = [i for i in range(len(objs)) if i not in cand]
    dom = list(cand)
    if rng.random() < 0.15 and dom:
        dom.remove(rng.choice(dom))
    dom += [i for i in others if rng.random() < 0.2]
    rng.shuffle(dom)
    if rng.random() < 0.03:
        dom = []
    pat = gen_pat(rng, objs, T, 2, allow_f4=True, root=True)
    c = {"pat": pat, "dom": dom, "objs": objs}
    if rng.random() < 0.35:  # the same query object evaluated again after the data was edited
        steps = gen_steps(rng, c)
        if steps:
            c["steps"] = steps
            assert simulate(c) is not None, "generated steps must be executable and keep the data conforming"
    r = rng.random()
    if r < 0.3:  # the domain is consumed lazily: a one-shot generator / iterator (or a tuple)
        c["domkind"] = rng.choice(["gen", "gen", "iter", "tuple"])
    if rng.random() < 0.3:
        add_abandoned(rng, c)
    return c


def gen_peek(rng):
    return ("peek", rng.choice([0, 1, 1, 1, 1, 2, 2, 3]), rng.random() < 0.5)


def add_abandoned(rng, c) -> None:
    """evaluations of the same query object that are abandoned after k results: before the first complete evaluation
    (the engine's lazily filled domain cache is then still incomplete), and at the beginning / end of the steps; when
    the case has no steps, a step that consists of an abandoned evaluation only is added half of the time"""
    if rng.random() < 0.8:
        c["pre"] = [gen_peek(rng) for _ in range(rng.choice([1, 1, 1, 2]))]
    steps = c.get("steps")
    if not steps:
        if rng.random() < 0.5 or not c.get("pre"):
            c["steps"] = [[gen_peek(rng) for _ in range(rng.choice([1, 1, 2]))]]
        return
    for st in steps:
        if rng.random() < 0.5:
            st.insert(0, gen_peek(rng))
        if rng.random() < 0.5:
            st.append(gen_peek(rng))


def generate(rng, tier, n):
    out = []
    for _ in range(n):
        c = gen_case(rng)
        t = pat_tags(c["pat"])
        tags = ["depth%d" % t["depth"], "root-" + CLS[c["pat"]["cls"]]] + sorted(t["tags"])
        if c["pat"]["sel"]:
            tags.append("root-selected")
        if not c["dom"]:
            tags.append("empty-domain")
        if c.get("steps"):
            tags.append("reevaluated-x%d" % len(c["steps"]))
            kinds = {("set-in-place" if e[4] else "set-" + e[3][0]) if e[0] == "set" else e[0]
                     for st in c["steps"] for e in st}
            tags += sorted("edit-" + k for k in kinds)
        if c.get("pre"):
            tags.append("abandoned-before-first-evaluation")
        if c.get("domkind", "list") != "list":
            tags.append("domain-" + c["domkind"])
        out.append(Case(sx_case(c), tuple(tags), "random", c))
    return out


# ---------------------------------------------------------------------------------------------- shrinking

def _shrink_pat(p):
    """one-step smaller patterns"""
    for i in range(len(p["as"])):
        yield {**p, "as": p["as"][:i] + p["as"][i + 1:]}
    if p["sel"]:
        yield {**p, "sel": False}
    for i, (a, av) in enumerate(p["as"]):
        if av[0] == "nested":
            for q in _shrink_pat(av[1]):
                yield {**p, "as": p["as"][:i] + [(a, ("nested", q))] + p["as"][i + 1:]}
        elif av[0] == "coll":
            if av[4]:
                yield {**p, "as": p["as"][:i] + [(a, av[:4] + (False,))] + p["as"][i + 1:]}
            if len(av[1][1]) > 1:
                for j in range(len(av[1][1])):
                    v = (av[1][0], av[1][1][:j] + av[1][1][j + 1:])
                    yield {**p, "as": p["as"][:i] + [(a, ("coll", v) + av[2:])] + p["as"][i + 1:]}
        elif av[0] == "lit" and av[1][0] in ("list", "objs") and len(av[1][1]) > 1:
            for j in range(len(av[1][1])):
                v = (av[1][0], av[1][1][:j] + av[1][1][j + 1:])
                yield {**p, "as": p["as"][:i] + [(a, ("lit", v))] + p["as"][i + 1:]}


def _shrink_steps(c):
    steps = c.get("steps") or []
    for i in range(len(steps) - 1, -1, -1):
        yield steps[:i] + steps[i + 1:]
    for i, st in enumerate(steps):
        if len(st) > 1:
            for j in range(len(st)):
                yield steps[:i] + [st[:j] + st[j + 1:]] + steps[i + 1:]
        for j, e in enumerate(st):
            if e[0] == "set" and e[4]:
                yield steps[:i] + [st[:j] + [e[:4] + (False,)] + st[j + 1:]] + steps[i + 1:]
            if e[0] == "peek" and e[1] > 1:
                yield steps[:i] + [st[:j] + [("peek", 1, e[2])] + st[j + 1:]] + steps[i + 1:]


def shrink(case: Case):
    c = revive(case).payload
    if c.get("steps"):
        for steps in _shrink_steps(c):
            d = {k: v for k, v in c.items() if k != "steps"}
            if steps:
                d["steps"] = steps
                if simulate(d) is None:
                    continue
            yield Case(sx_case(d), case.tags, "shrink", d)
    def ok(d) -> bool:
        return not d.get("steps") or simulate(d) is not None

    if c.get("pre"):
        yield Case(sx_case({k: v for k, v in c.items() if k != "pre"}), case.tags, "shrink",
                   {k: v for k, v in c.items() if k != "pre"})
        for j, e in enumerate(c["pre"]):
            if len(c["pre"]) > 1:
                d = {**c, "pre": c["pre"][:j] + c["pre"][j + 1:]}
                yield Case(sx_case(d), case.tags, "shrink", d)
            if e[0] == "peek" and e[1] > 1:
                d = {**c, "pre": c["pre"][:j] + [("peek", 1, e[2])] + c["pre"][j + 1:]}
                yield Case(sx_case(d), case.tags, "shrink", d)
    if c.get("domkind", "list") != "list":
        d = {k: v for k, v in c.items() if k != "domkind"}
        yield Case(sx_case(d), case.tags, "shrink", d)
    for i in range(len(c["dom"])):
        d = {**c, "dom": c["dom"][:i] + c["dom"][i + 1:]}
        if ok(d):
            yield Case(sx_case(d), case.tags, "shrink", d)
    for p in _shrink_pat(c["pat"]):
        d = {**c, "pat": p}
        if ok(d):
            yield Case(sx_case(d), case.tags, "shrink", d)
    # shorten collections inside objects
    for i, o in enumerate(c["objs"]):
        for a, v in o["fields"].items():
            if v[0] in ("list", "objs") and v[1]:
                for j in range(len(v[1])):
                    o2 = {"cls": o["cls"], "fields": {**o["fields"], a: (v[0], v[1][:j] + v[1][j + 1:])}}
                    d = {**c, "objs": c["objs"][:i] + [o2] + c["objs"][i + 1:]}
                    if ok(d):
                        yield Case(sx_case(d), case.tags, "shrink", d)
