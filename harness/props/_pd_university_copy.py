"""Verbatim re-declaration of /repo/test/dataset/university_ontology_like_classes.py (the example schema the
property names); used only when that file cannot be loaded from the repository under test."""
from __future__ import annotations

from dataclasses import dataclass, field

from typing_extensions import Set, List, Type

from krrood.class_diagrams.utils import Role
from krrood.entity_query_language.predicate import Symbol
from krrood.ontomatic.property_descriptor.mixins import (
    HasInverseProperty,
    TransitiveProperty,
)
from krrood.ontomatic.property_descriptor.property_descriptor import (
    PropertyDescriptor,
)


@dataclass
class Company(Symbol):
    name: str
    members: Set[Person] = field(default_factory=set)
    sub_organization_of: List[Company] = field(default_factory=list)

    def __hash__(self):
        return hash(self.name)


@dataclass
class Person(Symbol):
    name: str
    works_for: Company = None
    member_of: List[Company] = field(default_factory=list)

    def __hash__(self):
        return hash(self.name)


@dataclass
class CEO(Role[Person], Symbol):
    person: Person
    head_of: Company = None

    def __hash__(self):
        return hash(self.person)


@dataclass
class Member(PropertyDescriptor, HasInverseProperty):

    @classmethod
    def get_inverse(cls) -> Type[MemberOf]:
        return MemberOf


@dataclass
class MemberOf(PropertyDescriptor, HasInverseProperty):
    @classmethod
    def get_inverse(cls) -> Type[Member]:
        return Member


@dataclass
class WorksFor(MemberOf):
    pass


@dataclass
class HeadOf(WorksFor):
    pass


@dataclass
class SubOrganizationOf(PropertyDescriptor, TransitiveProperty): ...


# Person fields' descriptors
Person.works_for = WorksFor(Person, "works_for")
Person.member_of = MemberOf(Person, "member_of")

# CEO fields' descriptors
CEO.head_of = HeadOf(CEO, "head_of")

# Company fields' descriptors
Company.members = Member(Company, "members")
Company.sub_organization_of = SubOrganizationOf(Company, "sub_organization_of")
