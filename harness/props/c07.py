"""C07 — an EQL query translated to SQL selects the same entities as in-memory evaluation; queries the translator
cannot express are rejected with an EQLTranslationError.

Implementation side (all real code, nothing mocked):
  * the repository's example models are imported read-only from $KRROOD_VERIF_REPO/test/dataset;
  * their ORM interface is REGENERATED with the current ORMatic on every run into a temp package outside /repo and
    /verif (the committed ormatic_interface.py is never imported);
  * every case runs in spawned worker processes (DAO classes register globally, get_dao_class is lru_cached):
    the python objects are built, `to_dao`-ed with one shared ToDAOState, flushed into a fresh in-memory SQLite
    session, then the SAME query is (a) evaluated in memory with `an/the(entity(...)).evaluate()` over the python
    objects and (b) translated with `eql_to_sql` and executed on that session.
Observation (what the property talks about): the set of selected entities in both worlds (objects ↔ rows through the
to_dao memo), the failure class of `the(...)`, and whether translation raised an EQLTranslationError ("rejected") or
let another exception escape ("escape").  Cases marked `(mult T)` (every equality join between two variables with
controlled numbers of partner rows, half of the single-variable cases) observe the LIST of returned rows / solutions with
repetitions: EQL has one solution per matching pair, the statement one row per joined pair, and `the(...)` must fail in
both worlds when one entity is returned twice.

In-memory EQL has a known defect with falsy bound values (F-C01-3: 0, 0.0, "", [] can be filtered): the generator keeps
every column value and literal truthy (non-zero numbers) so that C07 does not trip over C01's finding.
"""
from __future__ import annotations

import atexit
import multiprocessing
import os
import re
import shutil
import sys
import tempfile
from typing import Any, Dict, List, Optional, Tuple

from core import Case, REPO

PID = "C07"
LEAN_MODULES = ["KrroodVerif.Props.C07", "KrroodVerif.Props.C07Table"]
THEOREMS = [
    "KrroodVerif.SqlTr.C07_preserves_partial",
    "KrroodVerif.SqlTr.C07_the_partial",
    "KrroodVerif.SqlTr.C07_rejects",
    "KrroodVerif.SqlTr.C07_rejects_nested",
    "KrroodVerif.SqlTr.C07_cex_two_variables",
    "KrroodVerif.SqlTr.C07_cex_null_ne",
    "KrroodVerif.SqlTr.C07_cex_null_in",
    "KrroodVerif.SqlTr.C07_cex_set_of_escapes",
    "KrroodVerif.SqlTr.C07_cex_eq_join_under_or",
    "KrroodVerif.SqlTr.C07_cex_like_substring",
    "KrroodVerif.SqlTr.C07_cex_string_truthiness",
    "KrroodVerif.SqlTr.C07_cex_var_eq_obj",
    # generic in the evaluation of WHERE conditions / in the operator table (second tie, Props/C07Table.lean)
    "KrroodVerif.SqlTr.C07_preserves_with",
    "KrroodVerif.SqlTr.evalSql_sem",
    "KrroodVerif.SqlTr.evalSqlT_sem",
    "KrroodVerif.SqlTr.C07_table_preserves",
    "KrroodVerif.SqlTr.C07_table_the",
    "KrroodVerif.SqlTr.C07_opTable_ok",
    "KrroodVerif.SqlTr.cmpT_opTable",
    "KrroodVerif.SqlTr.memT_opTable",
    "KrroodVerif.SqlTr.subT_opTable",
    "KrroodVerif.SqlTr.evalSqlT_opTable",
    "KrroodVerif.SqlTr.C07_table_cex_le_as_lt",
    "KrroodVerif.SqlTr.C07_table_cex_legacy_ne",
    "KrroodVerif.SqlTr.C07_table_cex_legacy_in",
    "KrroodVerif.SqlTr.C07_table_cex_like",
    "KrroodVerif.SqlTr.C07_dispatch_rejects",
    "KrroodVerif.SqlTr.C07_operand_rejects",
    "KrroodVerif.SqlTr.C07_query_rejects",
]
TRANSLATED = ["KrroodVerif.SqlTr.Translated.C07_opTable_translated_eq_model",
              "KrroodVerif.SqlTr.Translated.C07_dispatch_translated_eq_model",
              "KrroodVerif.SqlTr.Translated.C07_translated_table_ok",
              "KrroodVerif.SqlTr.Translated.C07_translated_preserves"]


def extra_obligations():
    """Second tie: regenerate the operator / dispatch / rejection tables of `eql_interface.py` from /repo's CURRENT source
    (Python ast) and have the kernel re-check (1) that they equal the model's tables (for which `cmpT_opTable`,
    `memT_opTable`, `subT_opTable`, `C07_dispatch_rejects` … prove that the hand-written model IS their interpretation),
    (2) `tableOk` of the regenerated operator table (by `decide`) and hence, by `C07_table_preserves`, the property for the
    translation with that table.  The four obligations are elaborated one by one, so that e.g. a table that differs from
    the model's but still passes `tableOk` is reported as exactly that."""
    import re
    import subprocess
    import core
    from translate.c07_translate import generate as gen, TranslationError
    try:
        text = gen(core.REPO)
    except (TranslationError, SyntaxError, OSError, RecursionError) as e:
        return [{"name": n, "ok": False, "detail": f"translator rejected the source: {e}"} for n in TRANSLATED]
    tmp = core.LEAN_DIR / ".lake" / "audit"
    tmp.mkdir(parents=True, exist_ok=True)
    f = tmp / f"C07Translated_{os.getpid()}.lean"
    f.write_text(text + "".join(f"#print axioms {n}\n" for n in TRANSLATED))
    try:
        p = subprocess.run(["lake", "env", "lean", str(f)], cwd=str(core.LEAN_DIR), capture_output=True, text=True, timeout=600)
    finally:
        try:
            f.unlink()
        except OSError:
            pass
    out = " ".join(((p.stdout or "") + (p.stderr or "")).split())
    tables = text[text.find("def opTable"):text.find("/-- the operator logic")]
    res = []
    for n in TRANSLATED:
        m = re.search(r"'" + re.escape(n) + r"' depends on axioms: \[([^\]]*)\]", out)
        none = re.search(r"'" + re.escape(n) + r"' does not depend on any axioms", out)
        ax = [a.strip() for a in m.group(1).split(",")] if m else ([] if none else None)
        # an obligation stands if ITS theorem elaborated with admissible axioms (lean goes on after a failed theorem)
        ok = ax is not None and set(ax) <= core.ALLOWED_AXIOMS and "sorryAx" not in ax
        res.append({"name": n, "ok": ok, "axioms": ax,
                    "detail": "regenerated tables:\n" + tables + (p.stdout or "")[-1500:] + (p.stderr or "")[-800:]})
    return res

MODEL_FUNCTION = "SqlTr.translate / SqlTr.execSql / SqlTr.evalMem (Model/SqlTr.lean)"
TRUSTED = [
    "Lean 4.33 kernel; axioms of each theorem listed under coverage.theorems",
    "hand-written model Model/SqlTr.lean of eql_interface.py (translate), of the produced statement's relational "
    "semantics (execSql: polymorphic select, aliased inner joins, SQL three-valued logic) and of in-memory "
    "evaluation (evalMem)",
    "this correspondence harness (generator over the dataset classes, real an()/the()/eql_to_sql on a fresh SQLite "
    "session per case) and the S-expression driver",
    "SQLAlchemy 2 / SQLite execute the statement as its relational reading says (validated by every case, never proved)",
]
ASSUMPTIONS = [
    "to_dao + flush stores object i as row i with its scalar values and foreign keys (C04/C05's subject); FK targets "
    "are well typed",
    "column values and literals are non-zero numbers (in-memory EQL drops falsy bound values: F-C01-3, not C07's subject)",
    "objects that can be compared by an equality join are value-distinct (unique names / ids), so dataclass == is identity",
    "string columns (Body.name) carry the rank of the string in the code-point sorted table the case line states "
    "(equality, order and membership are preserved); the pool has lower-case, mixed-case and `_`/`%`-containing strings; "
    "substring tests are modelled on the decoded strings (instr exact, for all three operand shapes since fix 20e7107; F-C07-5 was the LIKE rendering); a bare string "
    "attribute used as a condition is modelled with SQLite's cast of TEXT to NUMERIC (sqliteTextTruthy: blanks, sign, digits, "
    "fraction; validated on the real engine for the generated strings, which include '' spelled \"\" in the case line) - F-C07-6",
    "a whole variable compared with an object: the case line states the first element of the variable's domain (the sample "
    "extract_from_variable reads); the harness passes every object as the domain, so the sample is the first object of the "
    "variable's type; only == and != are generated (ordering of two objects raises TypeError in both worlds) - F-C07-7",
    "generated relationship hops are never None and ordering comparisons are never applied to a column holding None "
    "(in memory those raise AttributeError/TypeError instead of answering)",
]
RULE = ("corpus + seeded structured cases over the dataset's Position/Position4D/Position5D/Orientation/Pose and "
        "World/Body/Handle/Container/Connection*/Door/Drawer classes: literal comparisons, chains across 1-2 "
        "relationships, membership, and_/or_ nesting, same-variable column comparisons, the(...), subclass-typed "
        "variables, two-variable comparisons and equality joins, constructs outside the translator's dispatch; "
        "a deterministic family of every accepted equality-join shape (selected class x other class x relationship "
        "pair, either operand order) over databases whose selected entities have 0/1/2/3 partner rows, each run with "
        "an(...) and the(...) and observed WITH multiplicity; a deterministic family of string-column membership "
        "(in_(attr,[..]) / contains([..],attr), lists and tuples of length 0-3 whose elements equal / are proper "
        "substrings / proper superstrings of persisted values, directly and across 1 hop); a deterministic family of "
        "substring tests (contains(lit, attr), contains(attr, lit), contains(attr, attr), both spellings) over names and "
        "literals with `_`, `%`, mixed case; a deterministic family of relationship-valued paths of 1-2 hops (path ==/!= "
        "path, ==/!= None, bare) over a store where an entity's and its parent's/child's/handle's targets differ; "
        "a deterministic family of bare STRING attributes as conditions (alone, under and_/or_, across 0-1 hops) over name sets on "
        "which Python's truthiness and SQLite's numeric cast differ and name sets on which they coincide; a deterministic family of "
        "variable ==/!= object (either operand order, alone and under and_/or_, classes with and without a name, the object being / "
        "not being the first element of the domain); a deterministic family of SCALAR columns of two different variables "
        "compared (==, !=, <=; 0-1 hops; either order; alone, under and_ with the other variable referenced before/after, under "
        "or_) over stores with several None in the Optional column on both sides; a deterministic family of membership in LONG "
        "literal collections (998-3000 values around 999/1000 and their multiples, with/without None) whose persisted values "
        "stand at the head, around each boundary, in the tail and at the end (the random stream draws such collections too); "
        "3-12 persisted objects incl. None in optional columns; both worlds run for real; non-trivial = the expected "
        "answer is neither empty nor every candidate (or a definite rejection); distinct by case text")

# ------------------------------------------------------------------------------------------------ vocabulary
# (name, parent, [(column, kind)], [(relationship, target)])   kind: f float, i int, "f?" Optional[float], s str
# String columns: the model (Lean) sees the RANK of the string in STRTAB, a fixed lexicographically sorted table of
# lower-case strings, and only uses equality / order / membership on it, which the ranking preserves (Python str
# comparison and SQLite's BINARY collation both order these ASCII strings bytewise).  The real objects, rows and
# literals carry the strings themselves.  All strings are lower-case letters: SQLite's LIKE (used for the substring form
# `contains(attr, "x")`, which is not modelled) is case-insensitive and treats % and _ as wildcards.
STRTAB: List[str] = sorted(
    [a for a in "abc"] + [a + b for a in "abc" for b in "abc"] + [a + b + c for a in "abc" for b in "abc" for c in "abc"])
# ^ legacy table: case lines WITHOUT a `(strtab …)` item (older corpus lines) rank their strings in it.
# Every generated line now carries its own table `(strtab s1 s2 …)` (code-point sorted, so ranks keep preserving equality
# and order in both worlds) — STRTAB2 — which the Lean model also uses to decode ranks for the substring tests
# `contains("literal", attr)` (instr), `contains(attr, "literal")` (instr since fix 20e7107; before: LIKE, case-insensitive, % and _ wildcards — F-C07-5) and
# `contains(attr, attr)` (instr).  The pool has lower-case strings with many sub/superstring relations, mixed-case variants
# of them, and strings containing the LIKE wildcards `_` and `%`.  No empty string (falsy), no blanks/parentheses/quotes.
STRTAB2: List[str] = sorted(set(
    ["a", "aa", "aab", "ab", "abc", "b", "bc", "bca", "c", "ca", "cab"]
    + ["A", "AB", "Ab", "aB", "ABC", "aBc", "B", "Bc", "bC", "C", "cA"]
    + ["_", "%", "a_", "_b", "a_c", "a%", "%c", "a%c", "ab_", "_bc", "%b%", "__"]))


def _code(t: str) -> int:
    return STRTAB2.index(t) + 1
VOCAB: Dict[str, Dict[str, Any]] = {
    "geom": {
        "module": "test.dataset.example_classes",
        "classes": [
            ("Position", None, [("x", "f"), ("y", "f"), ("z", "f")], []),
            ("Position4D", "Position", [("w", "f")], []),
            ("Position5D", "Position4D", [("v", "f")], []),
            ("Orientation", None, [("x", "f"), ("y", "f"), ("z", "f"), ("w", "f?")], []),
            ("Pose", None, [], [("position", "Position"), ("orientation", "Orientation")]),
        ],
        "abstract": [],
        "named": [],
    },
    "world": {
        "module": "test.dataset.semantic_world_like_classes",
        "classes": [
            ("World", None, [("id", "i")], []),
            ("WorldEntity", None, [], [("world", "World")]),
            ("Body", "WorldEntity", [("size", "i"), ("name", "s")], []),
            ("Handle", "Body", [], []),
            ("Container", "Body", [], []),
            ("Connection", "WorldEntity", [], [("parent", "Body"), ("child", "Body")]),
            ("FixedConnection", "Connection", [], []),
            ("PrismaticConnection", "Connection", [], []),
            ("RevoluteConnection", "Connection", [], []),
            ("View", "WorldEntity", [], []),
            ("Door", "View", [], [("handle", "Handle"), ("body", "Body")]),
            ("Drawer", "View", [], [("handle", "Handle"), ("container", "Container")]),
        ],
        "abstract": ["WorldEntity", "View"],
        "named": ["Body", "Handle", "Container"],  # constructor needs a (unique) `name`
    },
}


class Sch:
    """python mirror of the schema helpers of Model/SqlTr.lean (used by the generator only)"""

    def __init__(self, family: str):
        self.family = family
        self.decl = {c[0]: c for c in VOCAB[family]["classes"]}
        self.order = [c[0] for c in VOCAB[family]["classes"]]

    def ancestors(self, c: str) -> List[str]:
        out = []
        while c is not None:
            out.append(c)
            c = self.decl[c][1]
        return out

    def is_sub(self, c: str, d: str) -> bool:
        return d in self.ancestors(c)

    def cols(self, c: str) -> List[Tuple[str, str]]:
        out = []
        for k in reversed(self.ancestors(c)):
            out.extend(self.decl[k][2])
        return out

    def rels(self, c: str) -> List[Tuple[str, str]]:
        out = []
        for k in reversed(self.ancestors(c)):
            out.extend(self.decl[k][3])
        return out

    def declaring(self, c: str, a: str) -> Optional[str]:
        for k in self.ancestors(c):
            if a in [x for x, _ in self.decl[k][2]] or a in [x for x, _ in self.decl[k][3]]:
                return k
        return None

    def concrete(self, c: str) -> List[str]:
        return [k for k in self.order if self.is_sub(k, c) and k not in VOCAB[self.family]["abstract"]]

    def scalar_chains(self, c: str, maxhops: int) -> List[Tuple[Tuple[str, ...], str]]:
        out = [((a,), k) for a, k in self.cols(c)]
        if maxhops > 0:
            for r, t in self.rels(c):
                out.extend(((r,) + p, k) for p, k in self.scalar_chains(t, maxhops - 1))
        return out

    def rel_chains(self, c: str, maxhops: int) -> List[Tuple[Tuple[str, ...], str]]:
        """paths of 1..maxhops relationships (ending ON a relationship), with the class they reach"""
        out = []
        for r, t in self.rels(c):
            out.append(((r,), t))
            if maxhops > 1:
                out.extend(((r,) + p, tt) for p, tt in self.rel_chains(t, maxhops - 1))
        return out

    def sexp(self) -> str:
        parts = []
        for n, p, cols, rels in VOCAB[self.family]["classes"]:
            parts.append("(cls %s %s (cols%s) (rels%s))" % (
                n, p or "-", "".join(" " + a for a, _ in cols), "".join(" (%s %s)" % (a, t) for a, t in rels)))
        return "(schema " + " ".join(parts) + ")"


# ------------------------------------------------------------------------------------------------ s-expressions

def sx_parse(line: str):
    toks = line.replace("(", " ( ").replace(")", " ) ").split()
    pos = 0

    def rd():
        nonlocal pos
        t = toks[pos]
        pos += 1
        if t == "(":
            out = []
            while toks[pos] != ")":
                out.append(rd())
            pos += 1
            return out
        return t

    return rd()


def sx_show(x) -> str:
    if isinstance(x, (list, tuple)):
        return "(" + " ".join(sx_show(y) for y in x) + ")"
    return str(x)


def sx_field(items, key):
    for it in items:
        if isinstance(it, list) and it and it[0] == key:
            return it[1:]
    return None


# ------------------------------------------------------------------------------------------------ generator

OPS = ["eq", "ne", "lt", "le", "gt", "ge"]


def budget(tier: str) -> int:
    return 1300 if tier == "quick" else 12000


class _DB:
    """generated object store: list of dicts {cls, vals{a: int|None}, refs{a: idx}}"""

    def __init__(self, sch: Sch):
        self.sch = sch
        self.objs: List[Dict[str, Any]] = []

    def add(self, cls, vals, refs) -> int:
        self.objs.append({"cls": cls, "vals": vals, "refs": refs})
        return len(self.objs) - 1

    def of(self, cls) -> List[int]:
        return [i for i, o in enumerate(self.objs) if self.sch.is_sub(o["cls"], cls)]

    def value(self, i: int, path) -> Any:
        """navigate; returns ('num', n) | ('null',) | ('ref', j)"""
        for a in path[:-1]:
            i = self.objs[i]["refs"][a]
        o = self.objs[i]
        a = path[-1]
        if a in o["refs"]:
            return ("ref", o["refs"][a])
        v = o["vals"][a]
        return ("null",) if v is None else ("num", v)

    def has_null(self, cls, path) -> bool:
        return any(self.value(i, path) == ("null",) for i in self.of(cls))

    def sexp(self) -> str:
        parts = []
        for o in self.objs:
            fs = ["(v %s %s)" % (a, "N" if v is None else v) for a, v in o["vals"].items()]
            fs += ["(r %s %s)" % (a, j) for a, j in o["refs"].items()]
            parts.append("(o %s%s)" % (o["cls"], "".join(" " + f for f in fs)))
        return "(db " + " ".join(parts) + ")"


def _num(rng, hi=4) -> int:
    return rng.randint(1, hi)


def _fresh_str(rng, db: "_DB", a: str) -> int:
    """rank of a string no other object carries in column `a` (objects compared by an equality join stay value-distinct);
    short strings with many sub/superstring relations among them are preferred"""
    used = {o["vals"].get(a) for o in db.objs}
    free = [k for k in range(1, len(STRTAB2) + 1) if k not in used]
    if rng is None:
        return free[0]
    short = [k for k in free if len(STRTAB2[k - 1]) <= 2]
    return rng.choice(short if (short and rng.random() < 0.7) else free)


def _gen_db(rng, sch: Sch, root: str, others: List[str]) -> _DB:
    """a small well-typed object graph containing 2-6 instances of `root` (and of every class in `others`)"""
    db = _DB(sch)
    fam = sch.family
    hi = rng.choice([2, 3, 4])

    def mk(cls: str) -> int:
        vals = {}
        for a, k in sch.cols(cls):
            if k == "f?":
                vals[a] = None if rng.random() < 0.35 else _num(rng, hi)
            elif k == "s":
                vals[a] = _fresh_str(rng, db, a)
            else:
                vals[a] = _num(rng, hi)
        refs = {}
        for r, t in sch.rels(cls):
            cands = db.of(t)
            if not cands or rng.random() < 0.25:
                cands = [mk(rng.choice(sch.concrete(t)))]
            refs[r] = rng.choice(cands)
        if fam == "world" and cls == "World":
            vals["id"] = 1 + len(db.of("World"))  # World.__eq__/__hash__ are by id: keep them distinct
        return db.add(cls, vals, refs)

    if fam == "world":
        for _ in range(rng.randint(1, 2)):
            mk("World")
    wanted = [root] * rng.randint(2, 5) + [c for c in others for _ in range(rng.randint(1, 3))]
    for c in wanted:
        conc = sch.concrete(c)
        mk(c if (c in conc and rng.random() < 0.5) else rng.choice(conc))
        if len(db.objs) >= 12:
            break
    for c in [root] + others:
        if not db.of(c):  # every variable's domain and every relationship target class is inhabited
            mk(rng.choice(sch.concrete(c)))
    return db


def _lit(v) -> str:
    return "(lit %s)" % ("N" if v is None else v)


def _ch(var: int, path) -> str:
    return "(ch %d %s)" % (var, " ".join(path))


class _Gen:
    def __init__(self, rng, sch: Sch, db: _DB, vars_: List[str]):
        self.rng, self.sch, self.db, self.vars = rng, sch, db, vars_
        self.tags: set = set()
        self.maxhops = 2

    def chains(self, var: int):
        cls = self.vars[var]
        # every variable has its own FROM element (fix for F-C07-1): any chain of any variable is translatable
        return self.sch.scalar_chains(cls, self.maxhops)

    def pick_chain(self, var: int):
        cs = self.chains(var)
        if not cs:
            return None
        # prefer longer chains and optional columns a bit: they are rarer
        w = [(1 + 2 * (len(p) - 1)) * (4 if k.endswith("?") else 1) for p, k in cs]
        return self.rng.choices(cs, weights=w)[0]

    def str_lit(self, cls: str, path) -> int:
        """rank of a string literal for a string chain: a value present in the store, one of its sub/superstrings, or any"""
        rng = self.rng
        present = [v[1] for v in (self.db.value(i, path) for i in self.db.of(cls)) if v[0] == "num"]
        r = rng.random()
        if present and r < 0.5:
            return rng.choice(present)
        if present and r < 0.85:
            base = STRTAB2[rng.choice(present) - 1]
            # sub/superstrings, also up to case and up to the LIKE wildcards
            def like(x, y):
                import fnmatch
                return fnmatch.fnmatchcase(y.lower(), "*" + x.lower().replace("%", "*").replace("_", "?") + "*")
            rel = [k + 1 for k, t in enumerate(STRTAB2) if t != base and (like(t, base) or like(base, t))]
            if rel:
                return rng.choice(rel)
        return rng.randint(1, len(STRTAB2))

    def rel_chains(self, var: int):
        cls = self.vars[var]
        return self.sch.rel_chains(cls, max(1, self.maxhops))

    def rel_atom(self, var: int) -> Optional[str]:
        """a comparison of relationship-VALUED paths (the chain ends on a relationship: its FK column in SQL, the
        related object in memory): path == / != path of the same variable, path == / != None, bare path"""
        rng, sch = self.rng, self.sch
        rc = self.rel_chains(var)
        if not rc or self.maxhops < 1:
            return None
        w = [1 + 3 * (len(p) - 1) for p, _ in rc]
        p1, t1 = rng.choices(rc, weights=w)[0]
        self.tags.add("rel-valued-path")
        self.tags.add("rel-path-hops%d" % (len(p1) - 1))
        if var != 0:
            self.tags.add("other-var-chain")
        r = rng.random()
        if r < 0.65:
            comparable = [(p, t) for p, t in rc if p != p1 and (sch.is_sub(t, t1) or sch.is_sub(t1, t))]
            if comparable:
                p2, _ = rng.choice(comparable)
                op = rng.choice(["eq", "eq", "ne"])
                self.tags.add("cmp-rel-rel")
                self.tags.add("cmp-" + op)
                return "(cmp %s %s %s)" % (op, _ch(var, p1), _ch(var, p2))
        if r < 0.88:
            op = rng.choice(["eq", "ne"])
            self.tags.add("cmp-rel-none")
            return "(cmp %s %s (lit N))" % (op, _ch(var, p1))
        self.tags.add("bare-rel")
        return "(attr %s)" % _ch(var, p1)

    def sub_atom(self, var: int, path, var_pool: List[int]) -> str:
        """substring test on a string chain: contains("lit", attr) / contains(attr, "lit") / contains(attr, attr)"""
        rng = self.rng
        cls = self.vars[var]
        style = rng.choice(["contains", "in"])
        r = rng.random()
        if r < 0.3:
            var2 = rng.choice(var_pool)
            cs2 = [p for p, k in self.chains(var2) if k == "s" and (var2, p) != (var, path)]
            if cs2:
                p2 = rng.choice(cs2)
                self.tags.add("substr-col-col")
                if var2 != 0:
                    self.tags.add("other-var-chain")
                a, b = (_ch(var, path), _ch(var2, p2)) if rng.random() < 0.5 else (_ch(var2, p2), _ch(var, path))
                return "(sub %s %s %s)" % (a, b, style)
        k = self.str_lit(cls, path)
        if r < 0.75:
            self.tags.add("substr-lit-contains-col")
            return "(sub (slit %d) %s %s)" % (k, _ch(var, path), style)
        self.tags.add("substr-col-contains-lit")
        return "(sub %s (slit %d) %s)" % (_ch(var, path), k, style)

    def atom(self, var_pool: List[int]) -> str:
        rng = self.rng
        var = rng.choice(var_pool)
        if rng.random() < 0.12:
            ra = self.rel_atom(var)
            if ra is not None:
                return ra
        c = self.pick_chain(var)
        if c is None:
            var = 0
            c = self.pick_chain(0)
        path, kind = c
        cls = self.vars[var]
        is_s = kind == "s"
        nullable = self.db.has_null(cls, path)
        self.tags.add("hops%d" % (len(path) - 1))
        if var != 0:
            self.tags.add("other-var-chain")
        if nullable:
            self.tags.add("null-column")
        if is_s:
            self.tags.add("string-column")
        lit = (lambda: self.str_lit(cls, path)) if is_s else (lambda: _num(rng, 5))
        if is_s and rng.random() < 0.35:
            return self.sub_atom(var, path, var_pool)
        r = rng.random()
        if r < 0.55:
            op = rng.choice(["eq", "ne"] if nullable else (["eq", "eq", "ne"] + OPS if is_s else OPS))
            v = None if (nullable and rng.random() < 0.3) else lit()
            self.tags.add("cmp-" + op)
            if rng.random() < 0.15:
                self.tags.add("literal-left")
                return "(cmp %s %s %s)" % (op, _lit(v), _ch(var, path))
            return "(cmp %s %s %s)" % (op, _ch(var, path), _lit(v))
        if r < 0.70:
            # column against column (same or other variable), of the same kind (number / string)
            var2 = rng.choice(var_pool)
            cs2 = [(p, k) for p, k in self.chains(var2) if (k == "s") == is_s]
            if cs2:
                path2, _ = rng.choice(cs2)
                n2 = self.db.has_null(self.vars[var2], path2)
                op = rng.choice(["eq", "ne"] if (nullable or n2) else OPS)
                self.tags.add("cmp-col-col")
                self.tags.add("cmp-" + op)
                if var2 != 0:
                    self.tags.add("other-var-chain")
                return "(cmp %s %s %s)" % (op, _ch(var, path), _ch(var2, path2))
        if r < 0.92 or is_s:
            k = rng.choice([0, 1, 1, 2, 2, 3])
            vs = [lit() for _ in range(k)]
            if not is_s and rng.random() < 0.04:
                # a LONG literal collection (sizes around 999/1000 and their multiples); a persisted value stands at the
                # head, around a multiple of 999/1000, or in the tail
                n = rng.choice(LONG_IN_SIZES[:9]) + rng.choice([0, 0, 0, -3, 5, 40])
                present = [v[1] for v in (self.db.value(i, path) for i in self.db.of(cls)) if v[0] == "num"]
                pv = rng.choice(present) if present else 1
                lo = max(1, pv - rng.choice([0, 0, 1, 2]))
                vs = _long_values(n, pv, rng.choice([0, 1, 998, 999, 1000, n // 2, -2, -1, -1, -1]), lo)
                self.tags.add("in-long")
            if not is_s and ((nullable and rng.random() < 0.5) or rng.random() < 0.05):
                vs.insert(rng.randint(0, len(vs)), None)
            self.tags.add("in-%d" % len(vs) if len(vs) <= 4 else "in-long")
            style = rng.choice(["in", "contains", "in-tuple", "contains-tuple"])
            if style.endswith("tuple"):
                self.tags.add("tuple-literal")
            return "(in %s (vals%s) %s)" % (_ch(var, path), "".join(" " + ("N" if v is None else str(v)) for v in vs), style)
        self.tags.add("bare-attr")  # never for a string column: SQLite casts text to 0 in a boolean context (not modelled)
        return "(attr %s)" % _ch(var, path)

    def eq_join_atom(self, allow_same_class: bool) -> Optional[str]:
        """`v0.rel == v1.rel'` between relationship attributes of two different variables (either order)"""
        rng, sch = self.rng, self.sch
        if len(self.vars) < 2:
            return None
        sel, oth = self.vars[0], self.vars[1]
        pairs = []
        for ra, ta in sch.rels(sel):
            for rb, tb in sch.rels(oth):
                if sch.is_sub(ta, tb) or sch.is_sub(tb, ta):
                    pairs.append((ra, rb))
        if not pairs:
            return None
        same = oth == sel
        related = sch.is_sub(oth, sel) or sch.is_sub(sel, oth)
        # (a join of the selected class with itself / its own hierarchy is fine: the other variable has its own alias)
        ra, rb = rng.choice(pairs)
        self.tags.add("eq-join-same-class" if same else ("eq-join-related-class" if related else "eq-join"))
        if rng.random() < 0.5:
            return "(cmp eq %s %s)" % (_ch(0, (ra,)), _ch(1, (rb,)))
        return "(cmp eq %s %s)" % (_ch(1, (rb,)), _ch(0, (ra,)))

    def tree(self, depth: int, var_pool: List[int], leaf=None) -> str:
        rng = self.rng
        if depth <= 0 or rng.random() < 0.3:
            return self.atom(var_pool) if leaf is None else leaf(var_pool)
        op = rng.choice(["and", "or"])
        self.tags.add(op)
        return "(%s %s %s)" % (op, self.tree(depth - 1, var_pool, leaf), self.tree(depth - 1, var_pool, leaf))


def _case_line(the: bool, kind: str, vars_: List[str], cond: str, sch: Sch, db: _DB, mult: bool = False) -> str:
    """`mult`: observe the LIST of returned rows / solutions (with repetitions) instead of the set of entities"""
    tab = (" (strtab %s)" % " ".join(STRTAB2)) if sch.family == "world" else ""
    return "(q (the %s) (kind %s) (vars %s) (cond %s)%s%s %s %s)" % (
        "T" if the else "F", kind, " ".join(vars_), cond, " (mult T)" if mult else "", tab, sch.sexp(), db.sexp())


ROOTS = {
    "geom": ["Position", "Position", "Position4D", "Position5D", "Orientation", "Orientation", "Pose", "Pose", "Pose"],
    "world": ["Body", "Handle", "Container", "Connection", "Connection", "FixedConnection", "PrismaticConnection",
              "Door", "Drawer", "WorldEntity"],
}


def _others_for(rng, sch: Sch, root: str) -> List[str]:
    """classes that must be populated so that relationship targets exist"""
    out = []
    for _, t in sch.rels(root):
        out.append(t)
    return out


def _gen_one(rng, stream: str) -> Case:
    fam = rng.choice(["geom", "geom", "world", "world", "world"])
    sch = Sch(fam)
    root = rng.choice(ROOTS[fam])
    tags = {stream, fam, "root-" + root}
    par = sch.decl[root][1]
    if par is not None and par not in VOCAB[fam]["abstract"]:
        tags.add("subclass-typed")      # the variable's class is a mapped subclass (joined-table inheritance)
    if len(sch.concrete(root)) > 1:
        tags.add("polymorphic-root")    # instances of mapped subclasses are candidates too

    if stream == "single":
        db = _gen_db(rng, sch, root, _others_for(rng, sch, root))
        g = _Gen(rng, sch, db, [root])
        if not g.chains(0):
            return _gen_one(rng, stream)
        cond = g.tree(rng.choice([0, 1, 1, 2, 2, 3]), [0])
        the = rng.random() < 0.2
        if the:
            tags.add("the")
        mult = rng.random() < 0.5
        if mult:
            tags.add("multiplicity")
        return Case(_case_line(the, "entity", [root], cond, sch, db, mult), tuple(sorted(tags | g.tags)), "random")

    if stream == "joinmult":
        return _gen_joinmult(rng)

    if stream == "two":
        # second variable: same class, a class sharing the declaring tables, or a sibling usable in an equality join
        cands = [c for c in sch.order if c not in VOCAB[fam]["abstract"] or c == root]
        want_join = rng.random() < 0.5
        if want_join:
            # classes with relationships that can be equated (the same class and its hierarchy included)
            joinable = [c for c in cands if sch.rels(c)
                        and any(sch.is_sub(ta, tb) or sch.is_sub(tb, ta) for _, ta in sch.rels(root) for _, tb in sch.rels(c))]
            oth = rng.choice(joinable) if joinable else rng.choice([root] + cands)
        else:
            oth = rng.choice([root, root] + cands)
        db = _gen_db(rng, sch, root, _others_for(rng, sch, root) + [oth] + _others_for(rng, sch, oth))
        g = _Gen(rng, sch, db, [root, oth])
        if not g.chains(0):
            return _gen_one(rng, stream)

        def leaf(pool):
            if want_join and rng.random() < 0.4:
                a = g.eq_join_atom(allow_same_class=False)
                if a is not None:
                    return a
            return g.atom(pool)

        pool = [0, 1] if g.chains(1) else [0]
        cond = g.tree(rng.choice([0, 1, 1, 2, 2]), pool, leaf)
        if "(ch 1 " not in cond:
            # make sure the second variable really occurs
            extra = g.eq_join_atom(allow_same_class=False) if want_join else None
            if extra is None and g.chains(1):
                extra = g.atom([1])
            if extra is None or "(ch 1 " not in extra:
                return _gen_one(rng, "single")
            cond = "(%s %s %s)" % (rng.choice(["and", "and", "or"]), cond, extra)
        tags.add("two-var-" + ("same-class" if oth == root else "other-class"))
        return Case(_case_line(False, "entity", [root, oth], cond, sch, db), tuple(sorted(tags | g.tags)), "random")

    # ---- constructs the translator has no case for: must be rejected with an EQLTranslationError
    db = _gen_db(rng, sch, root, _others_for(rng, sch, root))
    g = _Gen(rng, sch, db, [root])
    if not g.chains(0):
        return _gen_one(rng, stream)
    kind = "entity"
    vars_ = [root]
    which = rng.choice(["not", "not", "exists", "forall", "pred", "barevar", "barelit", "nocond", "unknown-attr",
                        "chain-over-scalar", "setof", "index", "call", "flatten"])
    tags.add("unsupported-" + which)
    inner = g.tree(rng.choice([0, 1]), [0])

    def wrap(u: str) -> str:
        """place the unsupported node somewhere in an and_/or_ tree of ordinary atoms"""
        d = rng.choice([0, 0, 1, 2])
        cur = u
        for _ in range(d):
            other = g.atom([0])
            op = rng.choice(["and", "or"])
            cur = "(%s %s %s)" % ((op, cur, other) if rng.random() < 0.5 else (op, other, cur))
        return cur

    if which == "not":
        cond = wrap("(not %s)" % inner)
    elif which in ("exists", "forall"):
        vars_ = [root, root]
        g2 = _Gen(rng, sch, db, vars_)
        body = g2.tree(rng.choice([0, 1]), [0, 1])
        cond = wrap("(%s 1 %s)" % (which, body))
    elif which == "pred":
        cond = wrap("(pred HasType)")
    elif which == "barevar":
        cond = wrap("(barevar 0)")
    elif which == "barelit":
        cond = "(barelit T)"  # and_/or_ refuse a python bool operand at construction: only as the whole condition
    elif which == "nocond":
        cond = "none"
    elif which == "unknown-attr":
        cond = wrap("(cmp %s (ch 0 nope_%d) (lit %d))" % (rng.choice(OPS), rng.randint(0, 9), _num(rng)))
    elif which == "chain-over-scalar":
        path, _ = g.pick_chain(0)
        cond = wrap("(cmp %s %s (lit %d))" % (rng.choice(OPS), _ch(0, tuple(path) + ("real",)), _num(rng)))
    elif which == "setof":
        kind = "setOf"
        cond = inner
    elif which in ("index", "call", "flatten"):
        path, _ = g.pick_chain(0)
        cond = wrap("(cmp %s (other %s %s) (lit %d))" % (rng.choice(OPS), which, _ch(0, path), _num(rng)))
    else:
        raise AssertionError(which)
    return Case(_case_line(False, kind, vars_, cond, sch, db), tuple(sorted(tags | g.tags)), "random")


# ---- two-variable equality joins with controlled numbers of partner rows (multiplicity / the(...))

PARTNER_PATTERNS = [[2], [0, 2], [1], [1, 1], [3], [0], [2, 1], [0, 3, 1], [2, 0, 0], [1, 2, 3], [0, 0], [1, 0]]


def _join_shapes(sch: Sch):
    """every (selected class, other class, rel of selected, rel of other, class of the shared target) the translator
    turns into `select(sel).join(alias_of_other, alias.rel_id == sel.rel_id)`: every pair of concrete classes, the same
    class and classes of one inheritance hierarchy included (the other variable has its own alias)"""
    conc = [c for c in sch.order if c not in VOCAB[sch.family]["abstract"]]
    for sel in conc:
        for oth in conc:
            for ra, ta in sch.rels(sel):
                for rb, tb in sch.rels(oth):
                    if sch.is_sub(ta, tb) or sch.is_sub(tb, ta):
                        low = ta if sch.is_sub(ta, tb) else tb
                        yield sel, oth, ra, rb, sch.concrete(low)[0]


def _join_db(sch: Sch, sel: str, oth: str, ra: str, rb: str, tcls: str, pattern: List[int]) -> _DB:
    """selected entity i shares its `ra` target with exactly pattern[i] objects of class `oth` (through `rb`);
    every other relationship points to filler objects nobody else shares"""
    db = _DB(sch)
    fillers: Dict[str, int] = {}

    def mk(cls: str, fixed: Dict[str, int]) -> int:
        vals = {a: (_fresh_str(None, db, a) if k == "s" else 1 + (len(db.objs) % 3)) for a, k in sch.cols(cls)}
        if cls == "World":
            vals["id"] = 1 + len(db.of("World"))
        refs = {}
        for r, t in sch.rels(cls):
            refs[r] = fixed[r] if r in fixed else filler(sch.concrete(t)[0])
        return db.add(cls, vals, refs)

    def filler(cls: str) -> int:
        if cls not in fillers:
            fillers[cls] = mk(cls, {})
        return fillers[cls]

    for n in pattern:
        t = mk(tcls, {})
        mk(sel, {ra: t})
        for _ in range(n):
            mk(oth, {rb: t})
    if not db.of(oth):
        mk(oth, {})  # the other variable's domain must be inhabited (its rb target is a filler: no partner)
    return db


def _join_family(tier: str) -> List[Case]:
    cases = []
    sch = Sch("world")
    shapes = list(_join_shapes(sch))
    step = 1 if tier != "quick" else max(1, len(shapes) // 110)
    k = 0
    for si, (sel, oth, ra, rb, tcls) in enumerate(shapes):
        if si % step:
            continue
        pats = PARTNER_PATTERNS if tier != "quick" else [PARTNER_PATTERNS[(k + j) % len(PARTNER_PATTERNS)] for j in (0, 5)]
        for pat in pats:
            k += 1
            db = _join_db(sch, sel, oth, ra, rb, tcls, pat)
            a, b = _ch(0, (ra,)), _ch(1, (rb,))
            cond = "(cmp eq %s %s)" % ((a, b) if k % 2 else (b, a))
            if k % 3 == 0:
                sc = [x for x in sch.scalar_chains(sel, 1) if x[1] != "s"]
                if sc:
                    path, _ = sc[k % len(sc)]
                    cond = "(and %s (cmp ge %s (lit 1)))" % (cond, _ch(0, path))
            tags = ("join-family", "world", "root-" + sel, "eq-join", "multiplicity", "partners-" + "-".join(map(str, pat)))
            for the in (False, True):
                cases.append(Case(_case_line(the, "entity", [sel, oth], cond, sch, db, True),
                                  tags + (("the",) if the else ()), "exhaustive"))
    return cases


def _gen_joinmult(rng) -> Case:
    """random and_-only conditions with an equality join between two variables; rows observed with multiplicity"""
    sch = Sch("world")
    shapes = list(_join_shapes(sch))
    sel, oth, ra, rb, tcls = rng.choice(shapes)
    if rng.random() < 0.5:
        pat = [rng.choice([0, 1, 1, 2, 2, 3]) for _ in range(rng.randint(1, 3))]
        db = _join_db(sch, sel, oth, ra, rb, tcls, pat)
    else:
        db = _gen_db(rng, sch, sel, _others_for(rng, sch, sel) + [oth] + _others_for(rng, sch, oth))
    g = _Gen(rng, sch, db, [sel, oth])
    a, b = _ch(0, (ra,)), _ch(1, (rb,))
    cond = "(cmp eq %s %s)" % ((a, b) if rng.random() < 0.5 else (b, a))
    tags = {"joinmult", "world", "root-" + sel, "eq-join", "multiplicity"}
    for _ in range(rng.choice([0, 0, 1, 2])):
        if rng.random() < 0.2:
            extra = g.eq_join_atom(allow_same_class=False)  # possibly a second join (to the already joined class)
        else:
            extra = g.atom([0]) if g.chains(0) else None
        if extra is None:
            continue
        cond = "(and %s %s)" % ((cond, extra) if rng.random() < 0.5 else (extra, cond))
    the = rng.random() < 0.45
    if the:
        tags.add("the")
    return Case(_case_line(the, "entity", [sel, oth], cond, sch, db, True), tuple(sorted(tags | g.tags)), "random")


def _string_family(tier: str) -> List[Case]:
    """membership of a string column in literal lists/tuples of length 0..3 whose elements are equal to / proper
    substrings of / proper superstrings of the persisted values; `in_(attr, [..])` and `contains([..], attr)`"""
    sch = Sch("world")
    names = ["a", "ab", "abc", "b", "bc"]
    code = _code
    db = _DB(sch)
    w = db.add("World", {"id": 1}, {})
    bodies = [db.add(c, {"size": 1 + i, "name": code(t)}, {"world": w})
              for i, (c, t) in enumerate(zip(["Body", "Handle", "Body", "Container", "Body"], names))]
    db.add("FixedConnection", {}, {"world": w, "parent": bodies[2], "child": bodies[0]})
    db.add("PrismaticConnection", {}, {"world": w, "parent": bodies[1], "child": bodies[3]})
    db.add("Door", {}, {"world": w, "handle": bodies[1], "body": bodies[4]})
    pool = ["a", "ab", "abc", "b", "bc", "c", "ca", "bca", "aab"]
    lists = [[]] + [[t] for t in pool]
    lists += [[x, y] for i, x in enumerate(pool) for j, y in enumerate(pool) if i != j and (i + 2 * j) % 5 == 0]
    lists += [[x, y, z] for i, x in enumerate(pool) for j, y in enumerate(pool) for k, z in enumerate(pool)
              if len({i, j, k}) == 3 and (i + 3 * j + 5 * k) % 37 == 0]
    targets = [("Body", ("name",)), ("Handle", ("name",)), ("Connection", ("parent", "name")), ("Door", ("handle", "name")),
               ("FixedConnection", ("child", "name"))]
    styles = ["in", "contains", "in-tuple", "contains-tuple"]
    cases = []
    k = 0
    for li, vs in enumerate(lists):
        for ti, (root, path) in enumerate(targets):
            if tier == "quick" and len(vs) != 1 and (li + ti) % 2:
                continue
            for style in styles if (len(vs) <= 1 or tier != "quick") else [styles[(li + ti) % 4], styles[(li + ti + 2) % 4]]:
                k += 1
                cond = "(in %s (vals%s) %s)" % (_ch(0, path), "".join(" %d" % code(t) for t in vs), style)
                if k % 4 == 0:
                    cond = "(or %s (cmp eq %s (lit %d)))" % (cond, _ch(0, path), code("b"))
                tags = ("string-family", "world", "root-" + root, "string-column", "in-%d" % len(vs), "hops%d" % (len(path) - 1))
                cases.append(Case(_case_line(False, "entity", [root], cond, sch, db, k % 2 == 0), tags, "exhaustive"))
    return cases


def _substring_family(tier: str) -> List[Case]:
    """substring tests on a string column, all three shapes the translator has a case for, both spellings
    (`contains(c, i)` / `in_(i, c)`), over stored values and literals that contain the LIKE wildcards `_` / `%`, differ
    only in case from substrings of each other, or are plain sub/superstrings"""
    sch = Sch("world")
    names = ["ab", "AB", "a_", "a%", "_", "%", "b", "Ab", "abc", "a_c"]
    db = _DB(sch)
    w = db.add("World", {"id": 1}, {})
    kinds = ["Body", "Handle", "Container"]
    bodies = [db.add(kinds[i % 3], {"size": 1 + i % 3, "name": _code(t)}, {"world": w}) for i, t in enumerate(names)]
    n = len(bodies)
    for i in range(n):  # parent/child pairs covering many (container, item) combinations
        db.add(["FixedConnection", "PrismaticConnection", "RevoluteConnection"][i % 3], {},
               {"world": w, "parent": bodies[i], "child": bodies[(3 * i + 1) % n]})
    lits = ["abc", "ABC", "a_c", "a%c", "ab", "aB", "b", "B", "_", "%", "a_", "ab_", "%b%", "cab", "__"]
    if tier == "quick":
        lits = lits[:12]
    targets = [("Body", ("name",)), ("Connection", ("parent", "name")), ("FixedConnection", ("child", "name"))]
    cases = []
    k = 0
    for li, t in enumerate(lits):
        for ti, (root, path) in enumerate(targets):
            if tier == "quick" and ti == 2 and li % 2:
                continue
            for shape in ("lit-contains-col", "col-contains-lit"):
                for style in ("contains", "in"):
                    k += 1
                    a, b = ("(slit %d)" % _code(t), _ch(0, path)) if shape == "lit-contains-col" else (_ch(0, path), "(slit %d)" % _code(t))
                    cond = "(sub %s %s %s)" % (a, b, style)
                    if k % 5 == 0:
                        cond = "(and %s (cmp ge %s (lit 1)))" % (cond, _ch(0, path[:-1] + ("size",)))
                    tags = ("substring-family", "world", "root-" + root, "string-column", "substr-" + shape,
                            "hops%d" % (len(path) - 1))
                    the = k % 7 == 0
                    cases.append(Case(_case_line(the, "entity", [root], cond, sch, db, k % 2 == 0),
                                      tags + (("the",) if the else ()), "exhaustive"))
    for root in ("Connection", "FixedConnection", "PrismaticConnection", "RevoluteConnection"):
        for a, b in ((("parent", "name"), ("child", "name")), (("child", "name"), ("parent", "name"))):
            for style in ("contains", "in"):
                k += 1
                cond = "(sub %s %s %s)" % (_ch(0, a), _ch(0, b), style)
                tags = ("substring-family", "world", "root-" + root, "string-column", "substr-col-col", "hops1")
                cases.append(Case(_case_line(False, "entity", [root], cond, sch, db, k % 2 == 0), tags, "exhaustive"))
    return cases


def _rel_path_family(tier: str) -> List[Case]:
    """comparisons of relationship-VALUED paths (1 and 2 hops, the last hop a relationship): path ==/!= path, path ==/!=
    None, bare path; over a store in which the related objects of an entity and of its parent/child/handle/body differ
    for some entities and coincide for others (the intermediate rows share the joined-inheritance base table with the
    selected row)"""
    sch = Sch("world")
    db = _DB(sch)
    w1 = db.add("World", {"id": 1}, {})
    w2 = db.add("World", {"id": 2}, {})
    nm = iter(range(1, 40))
    b1 = db.add("Body", {"size": 1, "name": next(nm)}, {"world": w1})
    b2 = db.add("Body", {"size": 2, "name": next(nm)}, {"world": w2})
    h1 = db.add("Handle", {"size": 1, "name": next(nm)}, {"world": w1})
    h2 = db.add("Handle", {"size": 3, "name": next(nm)}, {"world": w2})
    c1 = db.add("Container", {"size": 2, "name": next(nm)}, {"world": w1})
    c2 = db.add("Container", {"size": 1, "name": next(nm)}, {"world": w2})
    for cls, p, c, w in [("FixedConnection", b1, b2, w1), ("FixedConnection", b2, h2, w2), ("FixedConnection", b1, h1, w1),
                         ("PrismaticConnection", b2, h1, w1), ("PrismaticConnection", c1, b1, w2),
                         ("RevoluteConnection", h1, h1, w1), ("RevoluteConnection", c2, b1, w2), ("Connection", h2, c1, w2)]:
        db.add(cls, {}, {"world": w, "parent": p, "child": c})
    for h, b, w in [(h1, b1, w1), (h1, b2, w2), (h2, h2, w1), (h2, b2, w2)]:
        db.add("Door", {}, {"world": w, "handle": h, "body": b})
    for h, c, w in [(h1, c1, w1), (h2, c1, w1), (h2, c2, w2), (h1, c2, w1)]:
        db.add("Drawer", {}, {"world": w, "handle": h, "container": c})
    roots = ["Connection", "FixedConnection", "PrismaticConnection", "Door", "Drawer"]
    cases = []
    k = 0

    def add(root, cond, kindtag):
        nonlocal k
        k += 1
        the = k % 5 == 0
        tags = ("rel-path-family", "world", "root-" + root, "rel-valued-path", kindtag) + (("the",) if the else ())
        cases.append(Case(_case_line(the, "entity", [root], cond, sch, db, k % 2 == 0), tags, "exhaustive"))

    for root in roots:
        rc = sch.rel_chains(root, 2)
        for i, (p1, t1) in enumerate(rc):
            for j, (p2, t2) in enumerate(rc):
                if i == j or not (sch.is_sub(t1, t2) or sch.is_sub(t2, t1)):
                    continue
                if tier == "quick" and len(p1) == 1 and len(p2) == 1 and (i + j) % 2:
                    continue
                for op in ("eq", "ne"):
                    cond = "(cmp %s %s %s)" % (op, _ch(0, p1), _ch(0, p2))
                    if k % 6 == 0:
                        cond = "(or %s (cmp eq %s (lit 1)))" % (cond, _ch(0, ("world", "id")))
                    add(root, cond, "cmp-rel-rel")
            for op in ("eq", "ne"):
                add(root, "(cmp %s %s (lit N))" % (op, _ch(0, p1)), "cmp-rel-none")
            add(root, "(attr %s)" % _ch(0, p1), "bare-rel")
    return cases


# strings for the truthiness of a string column: SQLite casts TEXT to NUMERIC in a boolean context (leading blanks, sign,
# digits, fraction; anything else is 0), Python asks for non-emptiness.  `""` is how the case line spells the empty string.
STRTAB3_RAW = ["", "0", "1", "12a", "a1", "-1", "0.5", ".5", "1e3", "0x1", "+2", "00", "0.0", "-0", "ab", "e5", "-", ".",
               "B", "a_", "7", "3.0"]
STRTAB3: List[str] = [t if t else '""' for t in sorted(STRTAB3_RAW)]


def _code3(t: str) -> int:
    return sorted(STRTAB3_RAW).index(t) + 1


def _case_line3(the: bool, vars_: List[str], cond: str, sch: Sch, db: _DB, mult: bool) -> str:
    return "(q (the %s) (kind entity) (vars %s) (cond %s)%s (strtab %s) %s %s)" % (
        "T" if the else "F", " ".join(vars_), cond, " (mult T)" if mult else "", " ".join(STRTAB3), sch.sexp(), db.sexp())


def _str_truthy_family(tier: str) -> List[Case]:
    """a bare STRING attribute as (part of) the condition: `entity(b, b.name)`, `c.parent.name`, `d.handle.name`, alone and
    under and_/or_; name sets in which Python's truthiness (non-empty) and SQLite's (numeric prefix != 0) differ (F-C07-6)
    and name sets in which they coincide (every name is '' or starts with a non-zero number)"""
    sch = Sch("world")
    name_sets = [
        ["ab", "1", "0", ""], ["12a", "a1", "-1"], ["0.5", ".5", "1e3", "0x1"], ["+2", "00", "0.0", "-0"],
        ["e5", "-", ".", "B", "a_"], ["1", "12a", "-1", "7"], ["", "1", "3.0"], ["", "7", "+2", ".5", "1e3"],
        ["ab"], ["0"], [""], ["7"],
    ]
    if tier == "quick":
        name_sets = name_sets[:9]
    cases = []
    k = 0
    for names in name_sets:
        db = _DB(sch)
        w = db.add("World", {"id": 1}, {})
        kinds = ["Body", "Handle", "Container"]
        bodies = [db.add(kinds[i % 3] if len(names) > 1 else "Handle", {"size": 1 + i % 3, "name": _code3(t)}, {"world": w})
                  for i, t in enumerate(names)]
        n = len(bodies)
        for i in range(n):
            db.add(["FixedConnection", "PrismaticConnection"][i % 2], {}, {"world": w, "parent": bodies[i], "child": bodies[(i + 1) % n]})
        handles = [b for b in bodies if db.objs[b]["cls"] == "Handle"]
        for h in handles:
            db.add("Door", {}, {"world": w, "handle": h, "body": bodies[0]})
        targets = [("Body", ("name",)), ("Connection", ("parent", "name")), ("FixedConnection", ("child", "name"))]
        if handles:
            targets.append(("Door", ("handle", "name")))
        for root, path in targets:
            sa = "(sattr %s)" % _ch(0, path)
            size = _ch(0, path[:-1] + ("size",))
            conds = [sa, "(and %s (cmp ge %s (lit 2)))" % (sa, size), "(or (cmp eq %s (lit 1)) %s)" % (size, sa),
                     "(and (cmp ne %s (lit %d)) %s)" % (_ch(0, path), _code3(names[0]), sa)]
            if tier == "quick":
                conds = conds[:1] + [conds[1 + k % 3]]
            for cond in conds:
                k += 1
                the = k % 6 == 0
                tags = ("str-truthy-family", "world", "root-" + root, "string-column", "bare-string-attr",
                        "hops%d" % (len(path) - 1)) + (("the",) if the else ())
                cases.append(Case(_case_line3(the, [root], cond, sch, db, k % 2 == 0), tags, "exhaustive"))
    return cases


def _var_obj_family(tier: str) -> List[Case]:
    """a whole variable compared with an object: `x == obj`, `x != obj`, `Literal(obj) == x`, alone and under and_/or_
    (F-C07-7: evaluated by Python at translation time on the first element of the variable's domain).  Classes with a
    `name` (Body, Handle, Container: the sample is replaced by its database id) and without (Position…, Pose, Connection…);
    the compared objects are value-distinct"""
    cases = []
    k = 0

    def add(fam, root, cond, sch, db, kindtag):
        nonlocal k
        k += 1
        the = k % 5 == 0
        tags = ("var-obj-family", fam, "root-" + root, "var-eq-obj", kindtag) + (("the",) if the else ())
        cases.append(Case(_case_line(the, "entity", [root], cond, sch, db, k % 2 == 0), tags, "exhaustive"))

    def conds_for(root, db, sch, fam, scalar):
        dom = db.of(root)
        smp = dom[0]
        picks = [dom[0], dom[-1]] + ([dom[len(dom) // 2]] if len(dom) > 2 and tier != "quick" else [])
        for i in dict.fromkeys(picks):
            v, o = "(var 0 %d)" % smp, "(obj %d)" % i
            add(fam, root, "(cmp eq %s %s)" % (v, o), sch, db, "var-eq")
            add(fam, root, "(cmp ne %s %s)" % (v, o), sch, db, "var-ne")
            add(fam, root, "(cmp eq %s %s)" % (o, v), sch, db, "lit-left")
            if scalar is not None:
                add(fam, root, "(and (cmp ge %s (lit 1)) (cmp eq %s %s))" % (_ch(0, scalar), v, o), sch, db, "under-and")
                add(fam, root, "(or (cmp eq %s (lit 2)) (cmp eq %s %s))" % (_ch(0, scalar), v, o), sch, db, "under-or")
                if tier != "quick":
                    add(fam, root, "(or (cmp ne %s %s) (cmp gt %s (lit 2)))" % (v, o, _ch(0, scalar)), sch, db, "under-or")

    # geom: orientations first (the variable's domain is every object; the sample is the first one OF ITS TYPE)
    sch = Sch("geom")
    db = _DB(sch)
    o1 = db.add("Orientation", {"x": 1, "y": 2, "z": 3, "w": None}, {})
    o2 = db.add("Orientation", {"x": 2, "y": 2, "z": 1, "w": 4}, {})
    p1 = db.add("Position", {"x": 1, "y": 2, "z": 3}, {})
    p2 = db.add("Position4D", {"x": 2, "y": 2, "z": 2, "w": 1}, {})
    p3 = db.add("Position", {"x": 3, "y": 1, "z": 2}, {})
    p4 = db.add("Position5D", {"x": 1, "y": 3, "z": 3, "w": 2, "v": 2}, {})
    db.add("Pose", {}, {"position": p1, "orientation": o1})
    db.add("Pose", {}, {"position": p3, "orientation": o2})
    db.add("Pose", {}, {"position": p2, "orientation": o2})
    for root, scalar in (("Position", ("x",)), ("Position4D", ("w",)), ("Orientation", ("x",)), ("Pose", ("position", "x"))):
        conds_for(root, db, sch, "geom", scalar)
    # world
    sch = Sch("world")
    db = _DB(sch)
    w1 = db.add("World", {"id": 1}, {})
    w2 = db.add("World", {"id": 2}, {})
    bs = [db.add(c, {"size": 1 + i % 3, "name": _code(t)}, {"world": w1 if i % 2 else w2})
          for i, (c, t) in enumerate([("Handle", "a"), ("Body", "ab"), ("Container", "b"), ("Body", "bc"), ("Handle", "c")])]
    db.add("FixedConnection", {}, {"world": w1, "parent": bs[1], "child": bs[0]})
    db.add("PrismaticConnection", {}, {"world": w1, "parent": bs[3], "child": bs[2]})
    db.add("FixedConnection", {}, {"world": w2, "parent": bs[1], "child": bs[4]})
    db.add("Door", {}, {"world": w1, "handle": bs[0], "body": bs[1]})
    db.add("Door", {}, {"world": w2, "handle": bs[4], "body": bs[3]})
    for root, scalar in (("Body", ("size",)), ("Handle", ("size",)), ("Connection", ("parent", "size")),
                         ("FixedConnection", ("child", "size")), ("Door", ("handle", "size")), ("World", ("id",))):
        conds_for(root, db, sch, "world", scalar)
    return cases


def _scalar_pair_family(tier: str) -> List[Case]:
    """comparisons of SCALAR columns of two DIFFERENT variables (`o.w == other.w`, `pose.orientation.w != o.w`,
    `b.size == c.parent.size`, `b.name == other.name`), 0-1 hops on either side, either operand order, ==/!= (and an
    ordering where no operand is NULL), alone, under and_ (the other variable referenced before / after the comparison)
    and under or_; over stores in which SEVERAL rows of both variables hold None in the Optional column, so that in
    memory `None == None` pairs exist (SQL: NULL = NULL is unknown; the translation has to be NULL-safe wherever the
    comparison ends up - WHERE or a JOIN's ON clause).  and_-only conditions are observed WITH multiplicity (one
    solution / row per satisfying pair), half of them with the(...)"""
    cases: List[Case] = []
    k = 0

    def add(fam, sch, db, sel, oth, cond, and_only, kindtag):
        nonlocal k
        k += 1
        the = k % 4 == 0
        mult = and_only and k % 2 == 0
        tags = ("scalar-pair-family", fam, "root-" + sel, "two-var-" + ("same-class" if sel == oth else "other-class"),
                "cmp-col-col", "other-var-chain", kindtag) + (("the",) if the else ()) + (("multiplicity",) if mult else ())
        cases.append(Case(_case_line(the, "entity", [sel, oth], cond, sch, db, mult), tags, "exhaustive"))

    def shapes(fam, sch, db, sel, oth, pa, pb, nullable, side0, side1):
        """side0 / side1: an extra atom over variable 0 / 1 (for the and_/or_ contexts)"""
        a, b = _ch(0, pa), _ch(1, pb)
        ops = ["eq", "ne"] + ([] if nullable else ["le"])
        for oi, op in enumerate(ops):
            for (l, r) in ((a, b), (b, a)):
                if tier == "quick" and op != "eq" and (l, r) == (b, a) and not nullable:
                    continue
                c = "(cmp %s %s %s)" % (op, l, r)
                tagn = "null-pair" if nullable else "nonnull-pair"
                add(fam, sch, db, sel, oth, c, True, tagn)
                if op == "le" or (tier == "quick" and (l, r) == (b, a) and op == "ne"):
                    continue
                add(fam, sch, db, sel, oth, "(and %s %s)" % (c, side0), True, tagn)
                add(fam, sch, db, sel, oth, "(and %s %s)" % (side1, c), True, tagn)   # other variable reached before
                add(fam, sch, db, sel, oth, "(or %s %s)" % (c, side0), False, tagn)
                if tier != "quick":
                    add(fam, sch, db, sel, oth, "(and %s %s)" % (c, side1), True, tagn)
                    add(fam, sch, db, sel, oth, "(or %s %s)" % (side1, c), False, tagn)
                    add(fam, sch, db, sel, oth, "(and %s (or %s %s))" % (side0, c, side1), False, tagn)

    # ---- geom: Orientation.w is Optional[float]
    sch = Sch("geom")
    for variant, ws in enumerate([[None, None, 1, 1, 2], [None, 3], [None, None, None], [2, 1, 2]]):
        if tier == "quick" and variant == 3:
            continue
        db = _DB(sch)
        os_ = [db.add("Orientation", {"x": 1 + i, "y": 1 + i % 2, "z": 1 + i % 3, "w": w}, {}) for i, w in enumerate(ws)]
        p4 = [db.add("Position4D", {"x": 1 + i, "y": 2, "z": 1, "w": w}, {}) for i, w in enumerate([1, 3])]
        db.add("Position5D", {"x": 3, "y": 1, "z": 1, "w": 2, "v": 1}, {})
        ps = [db.add("Position", {"x": 1 + i, "y": 1, "z": 2}, {}) for i in range(2)]
        for i, o in enumerate(os_):
            db.add("Pose", {}, {"position": (ps + p4)[i % 4], "orientation": o})
        null = None in ws
        x0, x1 = "(cmp ge %s (lit 1))" % _ch(0, ("x",)), "(cmp le %s (lit 2))" % _ch(1, ("x",))
        shapes("geom", sch, db, "Orientation", "Orientation", ("w",), ("w",), null, x0, x1)
        if variant == 0 or tier != "quick":
            shapes("geom", sch, db, "Orientation", "Position4D", ("w",), ("w",), null, x0, x1)
            shapes("geom", sch, db, "Position4D", "Orientation", ("w",), ("w",), null, x0, x1)
            shapes("geom", sch, db, "Pose", "Orientation", ("orientation", "w"), ("w",), null,
                   "(cmp ge %s (lit 1))" % _ch(0, ("position", "x")), x1)
            shapes("geom", sch, db, "Orientation", "Pose", ("w",), ("orientation", "w"), null, x0,
                   "(cmp le %s (lit 2))" % _ch(1, ("position", "x")))
        if variant == 0:
            shapes("geom", sch, db, "Position", "Position", ("x",), ("y",), False, "(cmp ge %s (lit 1))" % _ch(0, ("z",)),
                   "(cmp le %s (lit 2))" % _ch(1, ("x",)))
    # ---- world: int and string columns (never NULL), 0-1 hops
    sch = Sch("world")
    db = _DB(sch)
    w1 = db.add("World", {"id": 1}, {})
    w2 = db.add("World", {"id": 2}, {})
    bs = [db.add(c, {"size": s, "name": _code(t)}, {"world": w1 if i % 2 else w2})
          for i, (c, s, t) in enumerate([("Body", 1, "a"), ("Handle", 2, "ab"), ("Container", 1, "b"), ("Body", 3, "bc")])]
    db.add("FixedConnection", {}, {"world": w1, "parent": bs[0], "child": bs[1]})
    db.add("PrismaticConnection", {}, {"world": w2, "parent": bs[3], "child": bs[2]})
    s0, s1 = "(cmp ge %s (lit 1))" % _ch(0, ("size",)), "(cmp le %s (lit 2))" % _ch(1, ("size",))
    shapes("world", sch, db, "Body", "Body", ("size",), ("size",), False, s0, s1)
    shapes("world", sch, db, "Body", "Handle", ("name",), ("name",), False, s0, s1)
    shapes("world", sch, db, "Body", "Connection", ("size",), ("parent", "size"), False, s0,
           "(cmp le %s (lit 2))" % _ch(1, ("child", "size")))
    shapes("world", sch, db, "Body", "World", ("size",), ("id",), False, s0, "(cmp le %s (lit 2))" % _ch(1, ("id",)))
    return cases


# literal-collection sizes around the boundaries at which a backend (or a translator working around one) has to split or
# limit an IN list: SQLite < 3.32 999 bound variables, Oracle 1000 expressions, and their multiples
LONG_IN_SIZES = [998, 999, 1000, 1001, 1997, 1998, 1999, 2000, 2001, 2997, 3000]


def _long_values(n: int, present: int, at: int, lo: int = 1) -> List[int]:
    """n distinct non-zero values lo..lo+n-1, rotated so that `present` stands at index `at` (negative: from the end)"""
    vs = list(range(lo, lo + n))
    i = vs.index(present)
    at = at % n
    r = (i - at) % n
    return vs[r:] + vs[:r]


def _long_in_family(tier: str) -> List[Case]:
    """membership in LONG literal collections (sizes around 999/1000 and their multiples): int and float columns, 0-1
    hops, lists and tuples, both spellings, with and without None among the values; the persisted values stand at the
    head, just before / after every multiple of 999 and 1000, in the tail and at the very end of the collection, and one is
    absent from it"""
    sizes = LONG_IN_SIZES if tier != "quick" else [999, 1000, 1001, 1998, 2000, 2001]
    styles = ["in", "contains", "in-tuple", "contains-tuple"]
    cases: List[Case] = []
    k = 0
    for n in sizes:
        spots = sorted({0, 1, 997, 998, 999, 1000, 1001, n // 2, n - 2, n - 1} & set(range(n)))
        # rotate 1..n by 7: value v stands at index (v - 8) mod n; the rows hold the values standing at `spots`
        vs = _long_values(n, 8, 0)
        row_vals = [vs[i] for i in spots][:9] + [n + 5]
        # world: Body.size (int), directly and through Connection.parent
        sch = Sch("world")
        db = _DB(sch)
        w = db.add("World", {"id": 1}, {})
        bodies = [db.add(["Body", "Handle", "Container"][i % 3], {"size": v, "name": 1 + i}, {"world": w})
                  for i, v in enumerate(row_vals)]
        for i in (0, len(bodies) // 2, len(bodies) - 2, len(bodies) - 1):
            db.add("FixedConnection", {}, {"world": w, "parent": bodies[i], "child": bodies[0]})
        # geom: Orientation.w (Optional[float]) with None in rows and (sometimes) among the values
        gsch = Sch("geom")
        gdb = _DB(gsch)
        for i, v in enumerate(row_vals[:3] + row_vals[-4:] + [None, None]):
            gdb.add("Orientation", {"x": 1 + i, "y": 1, "z": 2, "w": v}, {})
        targets = [("world", sch, db, "Body", ("size",), False), ("world", sch, db, "Connection", ("parent", "size"), False),
                   ("geom", gsch, gdb, "Orientation", ("w",), False), ("geom", gsch, gdb, "Orientation", ("w",), True)]
        for ti, (fam, s_, d_, root, path, with_none) in enumerate(targets):
            for si, style in enumerate(styles):
                if tier == "quick" and (ti + si + k) % 2:
                    continue
                k += 1
                vals = list(vs)
                if with_none:
                    vals.insert((k * 331) % (n + 1), None)
                cond = "(in %s (vals%s) %s)" % (_ch(0, path), "".join(" " + ("N" if v is None else str(v)) for v in vals), style)
                if k % 5 == 0:
                    # (an ordering comparison only on a column that never holds None)
                    cond = "(and %s (cmp ge %s (lit 1)))" % (cond, _ch(0, path[:-1] + (("x",) if fam == "geom" else ("size",))))
                tags = ("long-in-family", fam, "root-" + root, "in-long", "in-%d" % len(vals), "hops%d" % (len(path) - 1)) \
                    + (("none-in-values",) if with_none else ())
                cases.append(Case(_case_line(False, "entity", [root], cond, s_, d_, k % 2 == 0), tags, "exhaustive"))
    return cases


def generate(rng, tier, n):
    cases = (_join_family(tier) + _string_family(tier) + _substring_family(tier) + _rel_path_family(tier)
             + _str_truthy_family(tier) + _var_obj_family(tier) + _scalar_pair_family(tier) + _long_in_family(tier))
    for i in range(n):
        r = rng.random()
        stream = "single" if r < 0.56 else ("two" if r < 0.76 else ("joinmult" if r < 0.86 else "unsupported"))
        cases.append(_gen_one(rng, stream))
    return cases


def nontrivial(case: Case, spec: str) -> bool:
    if spec == "PROP rejected":
        return True
    m = re.match(r"PROP mem=(\S+) sql=", spec)
    if not m:
        return False
    mem = m.group(1)
    if mem.startswith("one:"):
        return True
    if mem in ("none", "multiple", "error", "[]"):
        return False
    s = sx_parse(case.line)
    vars_ = sx_field(s[1:], "vars")
    fam = "geom" if any(c[0] == vars_[0] for c in VOCAB["geom"]["classes"]) else "world"
    sch = Sch(fam)
    nroots = sum(1 for o in sx_field(s[1:], "db") if sch.is_sub(o[1], vars_[0]))
    return 0 < len(set(mem.strip("[]").split(","))) < nroots or len(mem.split(",")) != len(set(mem.split(",")))


def holds(impl: str) -> bool:
    """the property itself, as a relation on the implementation's observation"""
    if impl == "rejected":
        return True
    m = re.match(r"mem=(\S+) sql=(\S+)$", impl)
    return bool(m) and m.group(1) == m.group(2) and not m.group(1).startswith(("error", "exc"))


def compare(impl: str, other: str) -> bool:
    """`spec=PROP …` states the property (both worlds agree, or an EQLTranslationError): it is judged on the
    implementation's own two observations, so a translator that starts to support (or to reject) more queries
    correctly is never reported as violating C07 — only as no longer corresponding to the model."""
    if other.startswith("PROP"):
        return holds(impl)
    return impl == other


def revive(case: Case) -> Case:
    return case


def shrink(case: Case):
    """one-step smaller cases: a binary node replaced by one child; an unreferenced last object dropped"""
    s = sx_parse(case.line)
    items = s[1:]
    cond = sx_field(items, "cond")[0]
    db = sx_field(items, "db")

    def rebuild(new_cond=None, new_db=None):
        out = ["q"]
        for it in items:
            if it[0] == "cond" and new_cond is not None:
                out.append(["cond", new_cond])
            elif it[0] == "db" and new_db is not None:
                out.append(["db"] + new_db)
            else:
                out.append(it)
        return Case(sx_show(out), case.tags, "shrink")

    def subs(e):
        if isinstance(e, list) and e and e[0] in ("and", "or"):
            yield e[1]
            yield e[2]
            for x in subs(e[1]):
                yield [e[0], x, e[2]]
            for x in subs(e[2]):
                yield [e[0], e[1], x]
        elif isinstance(e, list) and e and e[0] == "not":
            for x in subs(e[1]):
                yield ["not", x]

    if cond != "none":
        for c in subs(cond):
            yield rebuild(new_cond=c)
    # drop an object nobody references (and re-index the references above it)
    for k in range(len(db) - 1, -1, -1):
        referenced = any(f[0] == "r" and f[2] == str(k) for o in db for f in o[2:] if isinstance(f, list))
        if referenced:
            continue
        ndb = []
        for j, o in enumerate(db):
            if j == k:
                continue
            no = o[:2]
            for f in o[2:]:
                if f[0] == "r" and f[2] != "N" and int(f[2]) > k:
                    no.append(["r", f[1], str(int(f[2]) - 1)])
                else:
                    no.append(f)
            ndb.append(no)
        if ndb:
            yield rebuild(new_db=ndb)
    # shorten a long literal collection: drop a block of values at its head or at its end
    if cond != "none":
        def shorter(e):
            if not isinstance(e, list) or not e:
                return
            if e[0] == "in" and isinstance(e[2], list) and len(e[2]) - 1 > 4:
                vs = e[2][1:]
                n = len(vs)
                for d in dict.fromkeys([n // 2, n // 4, 100, 10, 1]):
                    if 0 < d < n:
                        yield e[:2] + [["vals"] + vs[d:]] + e[3:]
                        yield e[:2] + [["vals"] + vs[:n - d]] + e[3:]
            elif e[0] in ("and", "or"):
                for x in shorter(e[1]):
                    yield [e[0], x, e[2]]
                for x in shorter(e[2]):
                    yield [e[0], e[1], x]
        for c in shorter(cond):
            yield rebuild(new_cond=c)


# ------------------------------------------------------------------------------------------------ real code
# Everything below the marker runs in spawned worker processes only.

_STATE: Dict[str, Any] = {"tmp": None, "pool": None, "escapes": {}, "regen_s": None, "workers": 0}


def _cleanup():
    p = _STATE.get("pool")
    if p is not None:
        try:
            p.terminate()
            p.join()
        except Exception:
            pass
        _STATE["pool"] = None
    t = _STATE.get("tmp")
    if t and os.path.isdir(t):
        shutil.rmtree(t, ignore_errors=True)
    _STATE["tmp"] = None


def _setup_paths(repo: str, gendir: Optional[str]):
    for p in ([gendir] if gendir else []) + [repo, os.path.join(repo, "src")]:
        if p in sys.path:
            sys.path.remove(p)
        sys.path.insert(0, p)
    os.environ.setdefault("KRROOD_VERIF", "1")
    sys.dont_write_bytecode = True  # never create __pycache__ under the repository (it is read-only for the checks)
    import warnings
    warnings.filterwarnings("ignore")


def _regen(repo: str, outdir: str, q) -> None:
    """subprocess: regenerate the dataset's ORM interface with the CURRENT ORMatic (what test/conftest.py does)"""
    try:
        _setup_paths(repo, None)
        import time
        t0 = time.time()
        import uuid
        from dataclasses import is_dataclass
        from types import FunctionType
        import sqlalchemy
        from sqlalchemy import JSON
        import krrood.entity_query_language.orm.model  # noqa: F401  (alternative mappings of the symbol graph)
        import krrood.entity_query_language.symbol_graph
        import krrood.ormatic.alternative_mappings  # noqa: F401
        from krrood.class_diagrams.class_diagram import ClassDiagram
        from krrood.entity_query_language.predicate import HasTypes, HasType, Symbol
        from krrood.entity_query_language.symbol_graph import SymbolGraph
        from krrood.ormatic.dao import AlternativeMapping
        from krrood.ormatic.ormatic import ORMatic
        from krrood.ormatic.utils import classes_of_module
        from krrood.utils import recursive_subclasses
        from test.dataset import example_classes
        from test.dataset import semantic_world_like_classes as sw
        from test.dataset.example_classes import (PhysicalObject, NotMappedParent, ChildNotMapped, ConceptType,
                                                  JSONSerializableClass)
        if not os.path.abspath(example_classes.__file__).startswith(os.path.abspath(repo)):
            raise RuntimeError("dataset imported from %s, not from %s" % (example_classes.__file__, repo))
        symbol_graph = SymbolGraph()
        all_classes = {c.clazz for c in symbol_graph._class_diagram.wrapped_classes}
        all_classes |= {am.original_class() for am in recursive_subclasses(AlternativeMapping)}
        all_classes |= set(classes_of_module(krrood.entity_query_language.symbol_graph))
        all_classes |= set(classes_of_module(example_classes))
        all_classes |= {Symbol}
        all_classes -= {HasType, HasTypes, sw.ContainsType}
        all_classes -= {NotMappedParent, ChildNotMapped, JSONSerializableClass}
        all_classes = {c for c in all_classes if is_dataclass(c) and not issubclass(c, AlternativeMapping)}
        all_classes |= {FunctionType}
        diagram = ClassDiagram(list(sorted(all_classes, key=lambda c: c.__name__, reverse=True)))
        instance = ORMatic(
            class_dependency_graph=diagram,
            type_mappings={PhysicalObject: ConceptType, uuid.UUID: sqlalchemy.UUID, JSONSerializableClass: JSON},
            alternative_mappings=recursive_subclasses(AlternativeMapping),
        )
        instance.make_all_tables()
        with open(os.path.join(outdir, "c07_regenerated_orm.py"), "w") as f:
            instance.to_sqlalchemy_file(f)
        q.put(("ok", round(time.time() - t0, 2)))
    except BaseException as e:  # noqa: BLE001
        import traceback
        q.put(("error", "%s: %s\n%s" % (type(e).__name__, e, traceback.format_exc()[-1500:])))


_W: Dict[str, Any] = {}


def _w_init(repo: str, gendir: str) -> None:
    """worker start: import krrood + dataset from `repo`, the regenerated ORM from `gendir`"""
    try:
        _setup_paths(repo, gendir)
        import operator
        from sqlalchemy.exc import NoResultFound, MultipleResultsFound
        from sqlalchemy.orm import Session, configure_mappers
        import krrood
        if not os.path.abspath(krrood.__file__).startswith(os.path.abspath(repo)):
            raise RuntimeError("krrood imported from %s, not from %s" % (krrood.__file__, repo))
        from krrood.ormatic.utils import create_engine
        from krrood.ormatic.dao import to_dao, ToDAOState
        from krrood.ormatic.eql_interface import eql_to_sql, EQLTranslationError
        from krrood.entity_query_language import entity as E
        from krrood.entity_query_language.quantify_entity import an, the
        from krrood.entity_query_language.symbolic import Literal
        from krrood.entity_query_language.failures import NoSolutionFound, MultipleSolutionFound
        from krrood.entity_query_language.predicate import HasType
        from krrood.entity_query_language.symbol_graph import SymbolGraph
        import importlib
        mods = {fam: importlib.import_module(v["module"]) for fam, v in VOCAB.items()}
        for m in mods.values():
            if not os.path.abspath(m.__file__).startswith(os.path.abspath(repo)):
                raise RuntimeError("dataset imported from %s, not from %s" % (m.__file__, repo))
        G = importlib.import_module("c07_regenerated_orm")
        configure_mappers()
        _W.update(dict(operator=operator, Session=Session, create_engine=create_engine, to_dao=to_dao,
                       ToDAOState=ToDAOState, eql_to_sql=eql_to_sql, EQLTranslationError=EQLTranslationError, E=E,
                       an=an, the=the, Literal=Literal, NoSolutionFound=NoSolutionFound,
                       MultipleSolutionFound=MultipleSolutionFound, NoResultFound=NoResultFound,
                       MultipleResultsFound=MultipleResultsFound, HasType=HasType, SymbolGraph=SymbolGraph,
                       mods=mods, G=G, ok=True))
    except BaseException as e:  # noqa: BLE001
        _W.update(ok=False, err="%s: %s" % (type(e).__name__, e))


def _tab(tab):
    """the string table of a case line; the atom `""` spells the empty string"""
    return None if tab is None else ["" if t == '""' else t for t in tab]


def _build_objects(fam: str, db, tab=None):
    tab = _tab(tab) or STRTAB
    mod = _W["mods"][fam]
    kinds = {}
    sch = Sch(fam)
    objs = []
    for i, o in enumerate(db):
        cname = o[1]
        cls = getattr(mod, cname)
        ck = dict(sch.cols(cname))
        kw = {}
        for f in o[2:]:
            if f[0] == "v":
                k = ck.get(f[1], "i")
                v = None if f[2] == "N" else (
                    float(int(f[2])) if k.startswith("f") else (tab[int(f[2]) - 1] if k == "s" else int(f[2])))
                kw[f[1]] = v
            else:
                kw[f[1]] = None if f[2] == "N" else objs[int(f[2])]
        if cname in VOCAB[fam]["named"] and "name" not in kw:
            kw["name"] = "n%d" % i  # older case lines carry no name: unique by construction
        objs.append(cls(**kw))
    return objs


def _build_query(s, fam: str, objs):
    """the EQL query object for case `s`, with fresh variables (built once per world)"""
    W = _W
    E, op = W["E"], W["operator"]
    items = s[1:]
    mod = W["mods"][fam]
    vars_ = [E.let(type_=getattr(mod, c), domain=list(objs), name="v%d" % i)
             for i, c in enumerate(sx_field(items, "vars"))]
    ops = {"eq": op.eq, "ne": op.ne, "lt": op.lt, "le": op.le, "gt": op.gt, "ge": op.ge}

    sch = Sch(fam)
    var_classes = sx_field(items, "vars")
    tab = _tab(sx_field(items, "strtab")) or STRTAB  # lines without their own table: the legacy table

    def chain_kind(c) -> str:
        """column kind of the chain's last attribute (unknown attributes: int)"""
        try:
            cls = var_classes[int(c[1])]
            for a in c[2:-1]:
                cls = dict(sch.rels(cls))[a]
            return dict(sch.cols(cls)).get(c[-1], "i")
        except Exception:  # noqa: BLE001
            return "i"

    def lit(x, kind="i"):
        if x == "N":
            return None
        return tab[int(x) - 1] if kind == "s" else int(x)

    def chain(c):
        node = vars_[int(c[1])]
        for a in c[2:]:
            node = getattr(node, a)
        return node

    def operand(o, left: bool, kind="i"):
        if o[0] == "ch":
            return chain(o)
        if o[0] == "lit":
            # a literal on the left must be a symbolic Literal, or Python would reflect the comparison
            return W["Literal"](lit(o[1], kind)) if left else lit(o[1], kind)
        if o[0] == "var":
            return vars_[int(o[1])]
        if o[0] == "obj":
            return W["Literal"](objs[int(o[1])]) if left else objs[int(o[1])]
        if o[0] == "other":
            base = chain(o[2])
            if o[1] == "index":
                return base[0]
            if o[1] == "call":
                return base.conjugate()
            if o[1] == "flatten":
                return E.flatten(base)
        raise ValueError("operand " + sx_show(o))

    def expr(e):
        h = e[0]
        if h == "and":
            return E.and_(expr(e[1]), expr(e[2]))
        if h == "or":
            return E.or_(expr(e[1]), expr(e[2]))
        if h == "cmp":
            kinds = [chain_kind(x) for x in (e[2], e[3]) if x[0] == "ch"]
            kind = kinds[0] if kinds else "i"
            return ops[e[1]](operand(e[2], True, kind), operand(e[3], False, kind))
        if h == "in":
            kind = chain_kind(e[1]) if e[1][0] == "ch" else "i"
            vals = [lit(x, kind) for x in e[2][1:]]
            style = e[3] if len(e) > 3 else "in"
            if style.endswith("tuple"):
                vals = tuple(vals)
            item = operand(e[1], False)
            return E.contains(vals, item) if style.startswith("contains") else E.in_(item, vals)
        if h in ("attr", "sattr"):
            return chain(e[1])
        if h == "sub":
            def sop(o):
                return tab[int(o[1]) - 1] if o[0] == "slit" else chain(o)
            container, item = sop(e[1]), sop(e[2])
            return E.in_(item, container) if (len(e) > 3 and e[3] == "in") else E.contains(container, item)
        if h == "not":
            return E.not_(expr(e[1]))
        if h == "exists":
            return E.exists(vars_[int(e[1])], expr(e[2]))
        if h == "forall":
            return E.for_all(vars_[int(e[1])], expr(e[2]))
        if h == "pred":
            return W["HasType"](vars_[0], vars_[0]._type_)
        if h == "barevar":
            return vars_[int(e[1])]
        if h == "barelit":
            return e[1] == "T"
        raise ValueError("expr " + sx_show(e))

    cond = sx_field(items, "cond")[0]
    conds = [] if cond == "none" else [expr(cond)]
    kind = sx_field(items, "kind")[0]
    body = E.entity(vars_[0], *conds) if kind == "entity" else E.set_of([vars_[0]], *conds)
    quant = W["the"] if sx_field(items, "the")[0] == "T" else W["an"]
    return quant(body)


def _ids(xs, index, mult: bool = False) -> str:
    out = []
    for x in xs:
        i = index.get(id(x))
        out.append(-1 if i is None else i)
    return "[" + ",".join(str(i) for i in sorted(out if mult else set(out))) + "]"


def _w_one(line: str) -> Tuple[str, str]:
    """(observation, detail).  Never raises."""
    W = _W
    if not W.get("ok"):
        return "exc:worker-init", W.get("err", "?")
    detail = ""
    engine = None
    try:
        s = sx_parse(line)
        items = s[1:]
        vars_ = sx_field(items, "vars")
        fam = "geom" if any(c[0] == vars_[0] for c in VOCAB["geom"]["classes"]) else "world"
        is_the = sx_field(items, "the")[0] == "T"
        mult = (sx_field(items, "mult") or ["F"])[0] == "T"
        W["SymbolGraph"]()
        objs = _build_objects(fam, sx_field(items, "db"), sx_field(items, "strtab"))
        oidx = {id(o): i for i, o in enumerate(objs)}
        engine = W["create_engine"]("sqlite:///:memory:")
        W["G"].Base.metadata.create_all(engine)
        state = W["ToDAOState"]()
        with W["Session"](engine) as session:
            daos = [W["to_dao"](o, state) for o in objs]
            session.add_all(daos)
            session.commit()
            didx = {id(d): i for i, d in enumerate(daos)}
            try:
                q_sql = _build_query(s, fam, objs)
                q_mem = _build_query(s, fam, objs)
            except Exception as e:  # noqa: BLE001  (a generator bug, never a translator outcome)
                return "exc:build:" + type(e).__name__, str(e)[:200]
            # ---- SQL world
            try:
                tr = W["eql_to_sql"](q_sql, session)
                res = tr.evaluate()
                sql = ("one:%s" % didx.get(id(res), -1)) if is_the else _ids(res, didx, mult)
            except W["EQLTranslationError"]:
                return "rejected", ""
            except W["NoResultFound"]:
                sql = "none" if is_the else "escape"
            except W["MultipleResultsFound"]:
                sql = "multiple" if is_the else "escape"
            except Exception as e:  # noqa: BLE001
                return "escape", type(e).__name__
            # ---- in-memory world (fresh query object)
            try:
                r = q_mem.evaluate()
                mem = ("one:%s" % oidx.get(id(r), -1)) if is_the else _ids(list(r), oidx, mult)
            except W["NoSolutionFound"]:
                mem = "none"
            except W["MultipleSolutionFound"]:
                mem = "multiple"
            except Exception as e:  # noqa: BLE001
                mem = "exc:" + type(e).__name__
                detail = str(e)[:200]
        return "mem=%s sql=%s" % (mem, sql), detail
    except Exception as e:  # noqa: BLE001
        return "exc:" + type(e).__name__, str(e)[:300]
    finally:
        try:
            if engine is not None:
                engine.dispose()
            W["SymbolGraph"]().clear()
        except Exception:
            pass


def _w_chunk(lines: List[str]) -> List[Tuple[str, str]]:
    return [_w_one(l) for l in lines]


def _ensure_pool():
    if _STATE["pool"] is not None:
        return _STATE["pool"]
    ctx = multiprocessing.get_context("spawn")
    repo = str(REPO)
    tmp = tempfile.mkdtemp(prefix="krrood_verif_c07_")
    _STATE["tmp"] = tmp
    atexit.register(_cleanup)
    q = ctx.Queue()
    p = ctx.Process(target=_regen, args=(repo, tmp, q))
    p.start()
    try:
        status, info = q.get(timeout=300)
    except Exception:
        status, info = "error", "ORM regeneration timed out"
    p.join(30)
    if status != "ok":
        _STATE["regen_error"] = info
        return None
    _STATE["regen_s"] = info
    n = max(1, min(16, os.cpu_count() or 4))
    _STATE["workers"] = n
    _STATE["pool"] = ctx.Pool(processes=n, initializer=_w_init, initargs=(repo, tmp))
    return _STATE["pool"]


def run_impl(cases):
    try:
        pool = _ensure_pool()
        if pool is None:
            return ["exc:orm-regeneration-failed"] * len(cases)
        lines = [c.line for c in cases]
        n = _STATE["workers"]
        size = max(1, min(40, (len(lines) + n - 1) // n))
        chunks = [lines[i:i + size] for i in range(0, len(lines), size)]
        out: List[str] = []
        for res in pool.map(_w_chunk, chunks):
            for obs, detail in res:
                out.append(obs)
                if obs == "escape" or obs.startswith("exc:") or "exc:" in obs:
                    key = obs + ("/" + detail if obs == "escape" else "")
                    _STATE["escapes"][key] = _STATE["escapes"].get(key, 0) + 1
        return out
    except Exception as e:  # noqa: BLE001
        return ["exc:harness-" + type(e).__name__] * len(cases)


def extra_coverage():
    return {
        "orm_regenerated_s": _STATE.get("regen_s"),
        "orm_regeneration_error": _STATE.get("regen_error"),
        "worker_processes": _STATE.get("workers"),
        "escaping_exception_classes_seen": dict(sorted(_STATE["escapes"].items())),
        "dataset_root": str(REPO / "test" / "dataset"),
    }
