"""C10, construction scenarios: building variables, conditions, queries, match patterns and rule trees over logging
user data must perform NO pull of a domain generator, NO attribute read, NO method/predicate/function call.

Imported lazily by c10.py (after core.use_repo_sources()). Each scenario is a function taking the logging world and
building something with the public API; `run(k)` returns "silent" or a description of what was touched."""
from dataclasses import dataclass, field
from typing import List

from krrood.entity_query_language.predicate import Symbol, HasType, symbolic_function, Predicate

LOG: list = []
ARMED = [False]


def _note(kind, what):
    if ARMED[0]:
        LOG.append((kind, what))


class _Logged:
    """mixin: logs every read of a dataclass field while the log is armed"""
    def __getattribute__(self, name):
        if not name.startswith("_") and name in type(self).__dataclass_fields__:
            _note("read", f"{type(self).__name__}.{name}")
        return object.__getattribute__(self, name)


@dataclass(eq=False)
class LHandle(_Logged, Symbol):
    name: str
    size: int

    def big(self):
        _note("call", "LHandle.big")
        return object.__getattribute__(self, "size") > 1


@dataclass(eq=False)
class LDrawer(_Logged, Symbol):
    handle: LHandle
    size: int
    tags: List[int] = field(default_factory=list)


@dataclass(eq=False)
class LCabinet(_Logged, Symbol):
    name: str
    main: LDrawer
    drawers: List[LDrawer] = field(default_factory=list)


@dataclass(eq=False)
class LView(Symbol):
    src: LCabinet = None


@dataclass(eq=False)
class LSpecialView(LView):
    ...


@symbolic_function
def is_roomy(cabinet, minimum=1):
    _note("call", "is_roomy")
    return len(object.__getattribute__(cabinet, "drawers")) >= minimum


@dataclass(eq=False)
class Bigger(Predicate):
    drawer: LDrawer
    than: int

    def __call__(self):
        _note("call", "Bigger")
        return object.__getattribute__(self.drawer, "size") > self.than


def _world():
    hs = [LHandle(f"h{i}", i) for i in range(3)]
    ds = [LDrawer(hs[i % 3], i, [i, i + 1]) for i in range(4)]
    cs = [LCabinet(f"c{i}", ds[i], ds[i:i + 2]) for i in range(3)]
    return hs, ds, cs


def _gen(name, xs):
    def g():
        for x in xs:
            _note("pull", name)
            yield x
    return g()


class _Cursor:
    """a hand-written one-shot iterator (`__next__`), e.g. a database cursor"""
    def __init__(self, name, xs):
        self._name, self._xs, self._i = name, list(xs), 0

    def __iter__(self):
        return self

    def __next__(self):
        _note("pull", self._name)
        if self._i >= len(self._xs):
            raise StopIteration
        self._i += 1
        return self._xs[self._i - 1]


class _Seq:
    """a sequence by the old protocol (`__getitem__` only): `iter(_Seq(...))` is the builtin `iterator` type"""
    def __init__(self, name, xs):
        self._name, self._xs = name, list(xs)

    def __getitem__(self, i):
        _note("pull", self._name)
        return self._xs[i]


def _logged(name):
    def f(x):
        _note("pull", name)
        return x
    return f


import itertools as _it

#: every kind of one-shot iterator user data can arrive as: kind -> (name, items) -> iterator. Where the iterator type
#: runs user code per item that code logs; every iterator is in addition REGISTERED and measured after construction
#: (`_advanced`): an iterator that yields fewer items than it was given was advanced, whoever did it and however silently.
ONE_SHOT_KINDS = {
    "generator": lambda n, xs: _gen(n, xs),
    "map": lambda n, xs: map(_logged(n), xs),
    "filter": lambda n, xs: filter(lambda x: (_logged(n)(x), True)[1], xs),
    "list_iterator": lambda n, xs: iter(list(xs)),
    "tuple_iterator": lambda n, xs: iter(tuple(xs)),
    "reversed": lambda n, xs: reversed(list(xs)),
    "dict_keyiterator": lambda n, xs: iter({i: x for i, x in enumerate(xs)}),
    "dict_valueiterator": lambda n, xs: iter({i: x for i, x in enumerate(xs)}.values()),
    "zip": lambda n, xs: zip(_gen(n, xs)),
    "enumerate": lambda n, xs: enumerate(_gen(n, xs)),
    "chain": lambda n, xs: _it.chain(_gen(n, xs[:1]), _gen(n, xs[1:])),
    "islice": lambda n, xs: _it.islice(_gen(n, xs), 0, len(xs)),
    "starmap": lambda n, xs: _it.starmap(lambda x: _logged(n)(x), [(x,) for x in xs]),
    "getitem_iterator": lambda n, xs: iter(_Seq(n, xs)),
    "callable_sentinel_iterator": lambda n, xs: iter(lambda it=_gen(n, list(xs)): next(it, None), None),
    "custom_next": lambda n, xs: _Cursor(n, xs),
}
_HANDED = []


def one_shot(kind, name, xs):
    xs = list(xs)
    it = ONE_SHOT_KINDS[kind](name, xs)
    _HANDED.append((kind, name, it, len(xs)))
    return it


def _advanced():
    """after construction (log disarmed): which handed-out iterators have lost items"""
    out = []
    for kind, name, it, n in _HANDED:
        try:
            left = sum(1 for _ in it)
        except Exception:  # noqa: BLE001
            left = -1
        if left != n:
            out.append(("advanced", f"{kind}:{name}"))
    del _HANDED[:]
    return out


@symbolic_function
def takes_any(subject, *more, option=None, **fields):
    _note("call", "takes_any")
    return True


def signature_calls():
    """[(name, callable, [call: (callable, c, d) -> condition])]: callables with every kind of parameter, and the calls
    in which a query variable is written for each kind of parameter. Only calls that Python accepts."""
    def body(name):
        def run(*a, **k):
            _note("call", name)
            return True
        return run

    ns = {"symbolic_function": symbolic_function, "Predicate": Predicate}
    out = []
    sigs = {
        "var_keyword": "template, **fields",
        "only_var_keyword": "**fields",
        "keyword_only": "template, *, size, colour=3",
        "keyword_only_and_var_keyword": "template=0, *, size=1, **fields",
        "var_positional_first": "*items",
        "var_positional_and_var_keyword": "*items, **fields",
    }
    calls = {
        "var_keyword": [lambda f, c, d: f(1, size=d.size), lambda f, c, d: f(1, size=d.size, colour=c.name),
                        lambda f, c, d: f(c, size=1), lambda f, c, d: f(template=1, size=d), lambda f, c, d: f(c, size=d)],
        "only_var_keyword": [lambda f, c, d: f(size=d.size), lambda f, c, d: f(a=1, b=2, size=d), lambda f, c, d: f(x=c, y=d)],
        "keyword_only": [lambda f, c, d: f(1, size=d.size), lambda f, c, d: f(c, size=1), lambda f, c, d: f(1, size=2, colour=c.name),
                         lambda f, c, d: f(template=c, size=d, colour=1)],
        "keyword_only_and_var_keyword": [lambda f, c, d: f(extra=d), lambda f, c, d: f(1, size=2, extra=d.size),
                                         lambda f, c, d: f(size=c.name), lambda f, c, d: f(c)],
        "var_positional_first": [lambda f, c, d: f(c), lambda f, c, d: f(d.size), lambda f, c, d: f(c, 1, 2)],
        "var_positional_and_var_keyword": [lambda f, c, d: f(1, size=d), lambda f, c, d: f(c, size=1), lambda f, c, d: f(size=d.size)],
    }
    for name, sig in sigs.items():
        ns.setdefault("_RUN", {})[name] = body(name)
        names = ", ".join(p.strip().lstrip("*").split("=")[0] for p in sig.split(",") if p.strip() != "*")
        exec(f"def fn_{name}({sig}):\n    return _RUN['{name}']({names})\n", ns)
        out.append(("function_" + name, symbolic_function(ns[f"fn_{name}"]), calls[name]))
        exec(f"class P_{name}(Predicate):\n"
             f"    def __init__(self, {sig}):\n        self.seen = ({names},)\n"
             f"    def __call__(self):\n        return _RUN['{name}'](*self.seen)\n", ns)
        out.append(("predicate_" + name, ns[f"P_{name}"], calls[name]))
    return out


def _scenarios():
    from krrood.entity_query_language.entity import (let, entity, set_of, and_, or_, not_, contains, in_, exists, for_all,
                                                      flatten, inference)
    from krrood.entity_query_language.quantify_entity import an, the
    from krrood.entity_query_language.match import (match, match_any, match_all, select, select_any, entity_matching,
                                                     entity_selection)
    from krrood.entity_query_language.rule import refinement, alternative, next_rule
    from krrood.entity_query_language.conclusion import Add
    from krrood.entity_query_language.result_quantification_constraint import AtMost, Exactly

    S = []

    def sc(f):
        S.append(f)
        return f

    @sc
    def plain_query(hs, ds, cs):
        c = let(LCabinet, _gen("cs", cs)); d = let(LDrawer, _gen("ds", ds))
        return an(set_of([c, d], and_(c.main == d, or_(d.size > 1, not_(contains(d.tags, 2))))))

    @sc
    def attribute_chains_calls_index_flatten(hs, ds, cs):
        c = let(LCabinet, _gen("cs", cs))
        return an(entity(c, and_(c.main.handle.size >= 1, c.main.handle.big(), c.drawers[0].size == 0,
                                 in_(flatten(c.drawers).size, [1, 2]))))

    @sc
    def quantifiers_and_the(hs, ds, cs):
        c = let(LCabinet, _gen("cs", cs)); d = let(LDrawer, _gen("ds", ds))
        q1 = an(entity(c, exists(d, and_(contains(c.drawers, d), d.size > 0))))
        q2 = an(entity(c, for_all(d, d.size >= 0)), quantification=AtMost(5))
        q3 = the(entity(c, c.name == "c1"))
        return q1, q2, q3

    @sc
    def nested_subquery_operand(hs, ds, cs):
        c = let(LCabinet, _gen("cs", cs)); d = let(LDrawer, _gen("ds", ds))
        return an(entity(c, c.main == an(entity(d, d.size > 1))))

    @sc
    def literal_operands_as_generators(hs, ds, cs):
        # user data handed to a condition as a one-shot iterator (not only to let(...) as a domain)
        c = let(LCabinet, _gen("cs", cs)); d = let(LDrawer, _gen("ds", ds))
        q1 = an(entity(c, in_(c.name, _gen("names", ["c0", "c1"]))))
        q2 = an(entity(d, contains(_gen("sizes", [1, 2]), d.size)))
        q3 = an(set_of([c, d], and_(in_(d, _gen("some_ds", ds[:2])), not_(in_(c.main.size, _gen("main_sizes", [0]))))))
        return q1, q2, q3

    @sc
    def match_values_as_generators(hs, ds, cs):
        q1 = an(entity_matching(LCabinet, _gen("cs1", cs))(drawers=match_any(_gen("any_ds", [ds[0], ds[1]]))))
        q2 = an(entity_matching(LCabinet, _gen("cs2", cs))(drawers=match_all(_gen("all_ds", [ds[0], ds[1]]))))
        q3 = an(entity_matching(LCabinet, _gen("cs3", cs))(drawers=select_any(_gen("sel_ds", [ds[0]]))))
        return q1, q2, q3

    @sc
    def domainless_variables(hs, ds, cs):
        c = let(LCabinet, None); d = let(LDrawer, None)
        return an(set_of([c, d], contains(c.drawers, d)))

    @sc
    def predicates_and_functions(hs, ds, cs):
        c = let(LCabinet, _gen("cs", cs)); d = let(LDrawer, _gen("ds", ds))
        return an(set_of([c, d], and_(is_roomy(c, minimum=2), Bigger(d, 1), HasType(d, LDrawer), is_roomy(cabinet=c))))

    @sc
    def match_literals(hs, ds, cs):
        return an(entity_matching(LCabinet, _gen("cs", cs))(name="c1"))

    @sc
    def match_nested(hs, ds, cs):
        return an(entity_matching(LCabinet, _gen("cs", cs))(main=match(LDrawer)(size=1, handle=match(LHandle)(name="h1"))))

    @sc
    def match_collections(hs, ds, cs):
        q1 = an(entity_matching(LCabinet, _gen("cs1", cs))(drawers=match_any([ds[0], ds[1]])))
        q2 = an(entity_matching(LCabinet, _gen("cs2", cs))(drawers=match_all([ds[0], ds[1]])))
        q3 = an(entity_matching(LCabinet, _gen("cs3", cs))(drawers=match(LDrawer)(size=1)))
        return q1, q2, q3

    @sc
    def match_with_variable_value(hs, ds, cs):
        # the assigned value is itself a variable over a lazily produced domain
        some_drawers = let(list, _gen("lists", [[ds[0]], [ds[1], ds[2]]]))
        some_drawer = let(LDrawer, _gen("ds", ds))
        q1 = an(entity_matching(LCabinet, _gen("cs1", cs))(drawers=some_drawers))
        q2 = an(entity_matching(LCabinet, _gen("cs2", cs))(main=some_drawer))
        return q1, q2

    @sc
    def match_select(hs, ds, cs):
        q1 = an(entity_selection(LCabinet, _gen("cs1", cs))(main=select(LDrawer)(size=1)))
        q2 = an(entity_matching(LCabinet, _gen("cs2", cs))(drawers=select_any([ds[0]])))
        return q1, q2

    @sc
    def rule_tree(hs, ds, cs):
        c = let(LCabinet, _gen("cs", cs)); d = let(LDrawer, _gen("ds", ds))
        q = an(entity(views := let(LView, None), c.main == d))
        with q:
            Add(views, inference(LView)(src=c))
            with refinement(d.size > 1):
                Add(views, inference(LSpecialView)(src=c))
                with alternative(d.handle.size > 0):
                    Add(views, inference(LView)(src=c))
            with next_rule(contains(c.drawers, d)):
                Add(views, inference(LSpecialView)(src=c))
        return q

    @sc
    def rule_tree_inferred_root(hs, ds, cs):
        c = let(LCabinet, _gen("cs", cs))
        q = an(entity(views := inference(LView)(), c.name == "c1"))
        with q:
            Add(views, inference(LView)(src=c))
            with alternative(c.main.size > 2):
                Add(views, inference(LSpecialView)(src=c))
        return q

    # ---- ONE-SHOT ITERATOR KINDS x OPERAND POSITIONS --------------------------------------------------------------
    # user data handed over as EVERY kind of one-shot iterator (not only generator objects), in every position of the
    # public API that accepts plain data. Appended after the hand-written scenarios so that `(silent k)` of old corpus
    # lines keeps its meaning.
    positions = {
        "in_": lambda mk, c, d: in_(c.name, mk("names", ["c0", "c1"])),
        "contains": lambda mk, c, d: contains(mk("sizes", [1, 2]), d.size),
        "in_object": lambda mk, c, d: in_(d, mk("some_ds", ds_[:2])),
        "not_in": lambda mk, c, d: not_(in_(c.main.size, mk("main_sizes", [0, 1]))),
        "flatten": lambda mk, c, d: in_(d.size, flatten(mk("flat", [[1, 2], [3]]))),
        "eq": lambda mk, c, d: c.drawers == mk("eq", [1, 2]),
        "function_arg": lambda mk, c, d: is_roomy(c, minimum=mk("fa", [1, 2])),
        "function_vararg": lambda mk, c, d: takes_any(d, mk("va", [1, 2]), option=mk("vk", [1, 2])),
        "predicate_arg": lambda mk, c, d: Bigger(d, mk("pa", [1, 2])),
        "let_domain": lambda mk, c, d: let(LDrawer, mk("dom", ds_)).size > 0,
        "match_any": lambda mk, c, d: an(entity_matching(LCabinet, mk("cs1", cs_))(drawers=match_any(mk("any", ds_[:2])))),
        "match_all": lambda mk, c, d: an(entity_matching(LCabinet, mk("cs2", cs_))(drawers=match_all(mk("all", ds_[:2])))),
        "select_any": lambda mk, c, d: an(entity_matching(LCabinet, mk("cs3", cs_))(drawers=select_any(mk("sel", ds_[:1])))),
    }
    ds_: list = []
    cs_: list = []

    def one_shot_scenario(kind, position):
        def scenario(hs, ds, cs):
            ds_[:] = ds
            cs_[:] = cs
            c = let(LCabinet, one_shot("generator", "cs", cs)); d = let(LDrawer, one_shot("generator", "ds", ds))
            built = positions[position](lambda name, xs: one_shot(kind, name, xs), c, d)
            return built if not isinstance(built, type(c.name == 1)) and hasattr(built, "evaluate") else an(set_of([c, d], built))
        scenario.__name__ = f"one_shot_{kind}_as_{position}"
        return scenario

    for kind in ONE_SHOT_KINDS:
        for position in positions:
            S.append(one_shot_scenario(kind, position))

    # ---- SIGNATURE KINDS x WHERE THE VARIABLE IS WRITTEN -----------------------------------------------------------
    # symbolic functions / Predicate subclasses with var-keyword, var-positional, keyword-only parameters; the query
    # variable arrives through each kind of parameter (alone and together with plain values): nothing may run.
    for name, target, calls in signature_calls():
        for j, call in enumerate(calls):
            def scenario(hs, ds, cs, target=target, call=call):
                c = let(LCabinet, one_shot("generator", "cs", cs)); d = let(LDrawer, one_shot("generator", "ds", ds))
                return an(set_of([c, d], call(target, c, d)))
            scenario.__name__ = f"signature_{name}_call{j}"
            S.append(scenario)

    return S


_S = []


def count() -> int:
    if not _S:
        _S.extend(_scenarios())
    return len(_S)


def run(k: int) -> str:
    from krrood.entity_query_language.symbol_graph import SymbolGraph
    from krrood.entity_query_language.symbolic import SymbolicExpression
    count()
    SymbolicExpression._id_expression_map_.clear()
    SymbolGraph().clear()
    SymbolGraph()
    hs, ds, cs = _world()
    del LOG[:]
    del _HANDED[:]
    ARMED[0] = True
    try:
        keep = _S[k % len(_S)](hs, ds, cs)   # noqa: F841  (keep the built objects alive until the log is read)
    except Exception as e:  # noqa: BLE001
        ARMED[0] = False
        return f"exc:{type(e).__name__}:{_S[k % len(_S)].__name__}"
    ARMED[0] = False
    LOG.extend(_advanced())
    if LOG:
        return "touched:" + _S[k % len(_S)].__name__ + ":" + ",".join(sorted({f"{a}:{b}" for a, b in LOG}))
    return "silent"
