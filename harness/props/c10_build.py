"""C10, construction scenarios: building variables, conditions, queries, match patterns and rule trees over logging
user data must perform NO pull of a domain generator, NO attribute read, NO method/predicate/function call.

Imported lazily by c10.py (after core.use_repo_sources()). Each scenario is a function taking the logging world and
building something with the public API; `run(k)` returns "silent" or a description of what was touched."""
from dataclasses import dataclass, field
from typing import List

from krrood.entity_query_language.predicate import Symbol, HasType, symbolic_function, Predicate

LOG: list = []
ARMED = [False]


def _note(kind, what):
    if ARMED[0]:
        LOG.append((kind, what))


class _Logged:
    """mixin: logs every read of a dataclass field while the log is armed"""
    def __getattribute__(self, name):
        if not name.startswith("_") and name in type(self).__dataclass_fields__:
            _note("read", f"{type(self).__name__}.{name}")
        return object.__getattribute__(self, name)


@dataclass(eq=False)
class LHandle(_Logged, Symbol):
    name: str
    size: int

    def big(self):
        _note("call", "LHandle.big")
        return object.__getattribute__(self, "size") > 1


@dataclass(eq=False)
class LDrawer(_Logged, Symbol):
    handle: LHandle
    size: int
    tags: List[int] = field(default_factory=list)


@dataclass(eq=False)
class LCabinet(_Logged, Symbol):
    name: str
    main: LDrawer
    drawers: List[LDrawer] = field(default_factory=list)


@dataclass(eq=False)
class LView(Symbol):
    src: LCabinet = None


@dataclass(eq=False)
class LSpecialView(LView):
    ...


@symbolic_function
def is_roomy(cabinet, minimum=1):
    _note("call", "is_roomy")
    return len(object.__getattribute__(cabinet, "drawers")) >= minimum


@dataclass(eq=False)
class Bigger(Predicate):
    drawer: LDrawer
    than: int

    def __call__(self):
        _note("call", "Bigger")
        return object.__getattribute__(self.drawer, "size") > self.than


def _world():
    hs = [LHandle(f"h{i}", i) for i in range(3)]
    ds = [LDrawer(hs[i % 3], i, [i, i + 1]) for i in range(4)]
    cs = [LCabinet(f"c{i}", ds[i], ds[i:i + 2]) for i in range(3)]
    return hs, ds, cs


def _gen(name, xs):
    def g():
        for x in xs:
            _note("pull", name)
            yield x
    return g()


def _scenarios():
    from krrood.entity_query_language.entity import (let, entity, set_of, and_, or_, not_, contains, in_, exists, for_all,
                                                      flatten, inference)
    from krrood.entity_query_language.quantify_entity import an, the
    from krrood.entity_query_language.match import (match, match_any, match_all, select, select_any, entity_matching,
                                                     entity_selection)
    from krrood.entity_query_language.rule import refinement, alternative, next_rule
    from krrood.entity_query_language.conclusion import Add
    from krrood.entity_query_language.result_quantification_constraint import AtMost, Exactly

    S = []

    def sc(f):
        S.append(f)
        return f

    @sc
    def plain_query(hs, ds, cs):
        c = let(LCabinet, _gen("cs", cs)); d = let(LDrawer, _gen("ds", ds))
        return an(set_of([c, d], and_(c.main == d, or_(d.size > 1, not_(contains(d.tags, 2))))))

    @sc
    def attribute_chains_calls_index_flatten(hs, ds, cs):
        c = let(LCabinet, _gen("cs", cs))
        return an(entity(c, and_(c.main.handle.size >= 1, c.main.handle.big(), c.drawers[0].size == 0,
                                 in_(flatten(c.drawers).size, [1, 2]))))

    @sc
    def quantifiers_and_the(hs, ds, cs):
        c = let(LCabinet, _gen("cs", cs)); d = let(LDrawer, _gen("ds", ds))
        q1 = an(entity(c, exists(d, and_(contains(c.drawers, d), d.size > 0))))
        q2 = an(entity(c, for_all(d, d.size >= 0)), quantification=AtMost(5))
        q3 = the(entity(c, c.name == "c1"))
        return q1, q2, q3

    @sc
    def nested_subquery_operand(hs, ds, cs):
        c = let(LCabinet, _gen("cs", cs)); d = let(LDrawer, _gen("ds", ds))
        return an(entity(c, c.main == an(entity(d, d.size > 1))))

    @sc
    def literal_operands_as_generators(hs, ds, cs):
        # user data handed to a condition as a one-shot iterator (not only to let(...) as a domain)
        c = let(LCabinet, _gen("cs", cs)); d = let(LDrawer, _gen("ds", ds))
        q1 = an(entity(c, in_(c.name, _gen("names", ["c0", "c1"]))))
        q2 = an(entity(d, contains(_gen("sizes", [1, 2]), d.size)))
        q3 = an(set_of([c, d], and_(in_(d, _gen("some_ds", ds[:2])), not_(in_(c.main.size, _gen("main_sizes", [0]))))))
        return q1, q2, q3

    @sc
    def match_values_as_generators(hs, ds, cs):
        q1 = an(entity_matching(LCabinet, _gen("cs1", cs))(drawers=match_any(_gen("any_ds", [ds[0], ds[1]]))))
        q2 = an(entity_matching(LCabinet, _gen("cs2", cs))(drawers=match_all(_gen("all_ds", [ds[0], ds[1]]))))
        q3 = an(entity_matching(LCabinet, _gen("cs3", cs))(drawers=select_any(_gen("sel_ds", [ds[0]]))))
        return q1, q2, q3

    @sc
    def domainless_variables(hs, ds, cs):
        c = let(LCabinet, None); d = let(LDrawer, None)
        return an(set_of([c, d], contains(c.drawers, d)))

    @sc
    def predicates_and_functions(hs, ds, cs):
        c = let(LCabinet, _gen("cs", cs)); d = let(LDrawer, _gen("ds", ds))
        return an(set_of([c, d], and_(is_roomy(c, minimum=2), Bigger(d, 1), HasType(d, LDrawer), is_roomy(cabinet=c))))

    @sc
    def match_literals(hs, ds, cs):
        return an(entity_matching(LCabinet, _gen("cs", cs))(name="c1"))

    @sc
    def match_nested(hs, ds, cs):
        return an(entity_matching(LCabinet, _gen("cs", cs))(main=match(LDrawer)(size=1, handle=match(LHandle)(name="h1"))))

    @sc
    def match_collections(hs, ds, cs):
        q1 = an(entity_matching(LCabinet, _gen("cs1", cs))(drawers=match_any([ds[0], ds[1]])))
        q2 = an(entity_matching(LCabinet, _gen("cs2", cs))(drawers=match_all([ds[0], ds[1]])))
        q3 = an(entity_matching(LCabinet, _gen("cs3", cs))(drawers=match(LDrawer)(size=1)))
        return q1, q2, q3

    @sc
    def match_with_variable_value(hs, ds, cs):
        # the assigned value is itself a variable over a lazily produced domain
        some_drawers = let(list, _gen("lists", [[ds[0]], [ds[1], ds[2]]]))
        some_drawer = let(LDrawer, _gen("ds", ds))
        q1 = an(entity_matching(LCabinet, _gen("cs1", cs))(drawers=some_drawers))
        q2 = an(entity_matching(LCabinet, _gen("cs2", cs))(main=some_drawer))
        return q1, q2

    @sc
    def match_select(hs, ds, cs):
        q1 = an(entity_selection(LCabinet, _gen("cs1", cs))(main=select(LDrawer)(size=1)))
        q2 = an(entity_matching(LCabinet, _gen("cs2", cs))(drawers=select_any([ds[0]])))
        return q1, q2

    @sc
    def rule_tree(hs, ds, cs):
        c = let(LCabinet, _gen("cs", cs)); d = let(LDrawer, _gen("ds", ds))
        q = an(entity(views := let(LView, None), c.main == d))
        with q:
            Add(views, inference(LView)(src=c))
            with refinement(d.size > 1):
                Add(views, inference(LSpecialView)(src=c))
                with alternative(d.handle.size > 0):
                    Add(views, inference(LView)(src=c))
            with next_rule(contains(c.drawers, d)):
                Add(views, inference(LSpecialView)(src=c))
        return q

    @sc
    def rule_tree_inferred_root(hs, ds, cs):
        c = let(LCabinet, _gen("cs", cs))
        q = an(entity(views := inference(LView)(), c.name == "c1"))
        with q:
            Add(views, inference(LView)(src=c))
            with alternative(c.main.size > 2):
                Add(views, inference(LSpecialView)(src=c))
        return q

    return S


_S = []


def count() -> int:
    if not _S:
        _S.extend(_scenarios())
    return len(_S)


def run(k: int) -> str:
    from krrood.entity_query_language.symbol_graph import SymbolGraph
    from krrood.entity_query_language.symbolic import SymbolicExpression
    count()
    SymbolicExpression._id_expression_map_.clear()
    SymbolGraph().clear()
    SymbolGraph()
    hs, ds, cs = _world()
    del LOG[:]
    ARMED[0] = True
    try:
        keep = _S[k % len(_S)](hs, ds, cs)   # noqa: F841  (keep the built objects alive until the log is read)
    except Exception as e:  # noqa: BLE001
        ARMED[0] = False
        return f"exc:{type(e).__name__}:{_S[k % len(_S)].__name__}"
    ARMED[0] = False
    if LOG:
        return "touched:" + _S[k % len(_S)].__name__ + ":" + ",".join(sorted({f"{a}:{b}" for a, b in LOG}))
    return "silent"
